"""C06 — parallel_mergesort sorts (stably when asked) for every size and thread count; temporaries destroyed."""
import os
import random

from vlib import core, flow


def key_of(cmp):
    return {"lt": (lambda v: v), "gt": (lambda v: -v), "half": (lambda v: v >> 1)}[cmp]


def gen_keys(rng, n):
    style = rng.random()
    if style < 0.15:
        return [rng.randrange(1)] * n                              # all equal
    if style < 0.55:
        nv = rng.choice([2, 2, 3, 3, 4])                           # 2-4 distinct keys
        return [rng.randrange(nv) for _ in range(n)]
    if style < 0.65:
        return sorted(rng.randrange(max(1, n // 2)) for _ in range(n))
    if style < 0.75:
        return sorted((rng.randrange(max(1, n // 2)) for _ in range(n)), reverse=True)
    if style < 0.85:
        return [rng.randrange(8) for _ in range(n)]
    return [rng.randrange(100000) for _ in range(n)]


def gen_op_many(rng, elems):
    """>= 17 threads (so >= 17 locally sorted runs for multisequence_partition), 2-4 distinct keys"""
    n = rng.randrange(40, 200)
    threads = rng.choice([17, 17, 18, 20, 24, 32, 33, 40])
    variant = rng.choice(["s", "s", "u"])
    cmp = rng.choice(["lt", "lt", "gt", "half"])
    split = rng.choice(["exact", "exact", "sampling"])
    nv = rng.choice([2, 2, 3, 4])
    keys = [rng.randrange(nv) for _ in range(n)]
    if cmp == "half":
        keys = [2 * k + rng.randrange(2) for k in keys]
    return f"ms {variant} {cmp} {split} {threads} {rng.choice([1, 2, 10])} {rng.choice(elems)} " + ",".join(str(k) for k in keys)


CONTAINERS = ("deque", "deque", "deque64", "deque64", "strided", "rev", "str")


def gen_op_container(rng, tier):
    """the range is not a contiguous array of the value type: std::deque (sizes crossing the 512-byte blocks:
    32 elements of 16 bytes / 8 elements of 64 bytes), a user-defined strided random-access iterator, a
    reverse iterator; and an element with a std::string key.  Every thread count, both splittings."""
    cont = rng.choice(CONTAINERS)
    r = rng.random()
    if cont == "deque":
        n = rng.randrange(20, 200) if r < 0.9 else rng.randrange(200, 600)
    elif cont == "deque64":
        n = rng.randrange(3, 80) if r < 0.9 else rng.randrange(80, 300)
    else:
        n = rng.randrange(0, 60) if r < 0.9 else rng.randrange(60, 300)
    threads = rng.choice([1, 2, 2, 3, 3, 4, 5, 6, 7, 8, 8, 11, 16, 17, 24, 32])
    if rng.random() < 0.15 and n > 0:
        threads = max(1, min(32, n + rng.choice([-1, 0, 1, 3])))
    variant = rng.choice(["s", "s", "u"])
    cmp = rng.choice(["lt", "lt", "lt", "gt", "half"])
    if cont == "str" and cmp == "half":
        cmp = "lt"
    split = rng.choice(["exact", "exact", "sampling"])
    osf = rng.choice([1, 1, 2, 3, 10, 10])
    keys = gen_keys(rng, n)
    if cmp == "half":
        keys = [2 * k + rng.randrange(2) for k in keys]
    ks = ",".join(str(k) for k in keys) if keys else "-"
    return f"ms {variant} {cmp} {split} {threads} {osf} {cont} {ks}"


def gen_op(rng, tier, elems=("pod", "log", "log", "own", "own"), containers=True):
    r0 = rng.random()
    if r0 < 0.06:
        return gen_op_many(rng, elems)
    if containers and r0 < 0.26:
        return gen_op_container(rng, tier)
    r = rng.random()
    if r < 0.08:
        n = rng.choice([0, 1, 2])
    elif r < 0.75:
        n = rng.randrange(2, 40)
    elif r < 0.95:
        n = rng.randrange(40, 200)
    else:
        n = rng.randrange(200, 700 if tier == "quick" else 3000)
    threads = rng.choice([1, 1, 2, 2, 3, 3, 4, 5, 6, 7, 8, 8, 11, 16, 16, 17, 24, 32])
    if rng.random() < 0.25 and n > 0:
        threads = max(1, min(32, n + rng.choice([-1, 0, 1, 3])))    # n around / below the thread count
    variant = rng.choice(["s", "s", "u"])
    cmp = rng.choice(["lt", "lt", "lt", "gt", "half"])
    split = rng.choice(["exact", "exact", "sampling"])
    osf = rng.choice([1, 1, 2, 3, 10, 10])
    elem = rng.choice(elems)
    keys = gen_keys(rng, n)
    if cmp == "half":
        keys = [2 * k + rng.randrange(2) for k in keys]
    ks = ",".join(str(k) for k in keys) if keys else "-"
    return f"ms {variant} {cmp} {split} {threads} {osf} {elem} {ks}"


class C06(flow.Spec):
    pid = "C06"
    source_files = ('tlx/sort/parallel_mergesort.hpp', 'tlx/algorithm/multiway_merge_splitting.hpp', 'tlx/algorithm/multisequence_partition.hpp')
    harness = dict(name="c06", sources=["c06.cpp"], repo_sources=["tlx/algorithm/parallel_multiway_merge.cpp"])
    nontrivial_rule = ("an `ms` operation is non-trivial when >= 2 threads merged a non-empty window and the sorted "
                       "result has equivalent keys that came from different thread slices on both sides of a merge "
                       "window boundary; distinct = distinct operation lines")
    assumptions = [
        "std::sort / std::stable_sort (local sort) and the sequential multiway_merge_base (C05) are represented by "
        "their specifications; for the unstable variant the order inside runs of equivalent keys is canonicalised",
        "multisequence_partition is the transliterated C08 model; the C06 theorems assume its specification",
        "ThreadBarrierMutex is assumed to be a barrier (C11); threads are real std::threads.  Schedule independence "
        "is argued from the proved disjointness of the per-thread windows between barriers and supported by the "
        "ThreadSanitizer build in the thorough tier; the C++ memory model below that is not modelled",
        "the lifetime ledger of the model counts the objects the sort places into raw storage; copies made inside "
        "std::stable_sort's buffer and the loser tree are assumed balanced (the harness counts all of them)",
        "num_threads >= 1 and oversampling factor >= 1 (documented preconditions)",
    ]
    trusted_base = ["Lean 4 kernel", "axioms: propext, Quot.sound, Classical.choice at most (audited per theorem)",
                    "hand-written model TlxVerif/Model/C06Pms.lean tied to parallel_mergesort.hpp by the line-protocol "
                    "correspondence on the final range, the per-thread copy windows (= starts), the per-thread merge "
                    "windows (= offset/length from pieces) and the live-instance delta (harness/c06.cpp, ASan+UBSan+LSan)",
                    "harness oracle std::stable_sort on tagged elements"]
    tsan_stats = None

    def viol_class(self, message):
        m = message.replace("#VIOL ", "")
        if m.startswith("crash"):
            return " ".join(m.split()[:8])
        m = m.split(" in ms ")[0]
        return " ".join(w for w in m.split() if not w.lstrip("-").isdigit())[:80]

    def cases(self, ctx, seed, tier, round_no=0):
        rng = random.Random(seed * 1000003 + round_no * 7919 + 6)
        n = 1500 if tier == "quick" else 10000
        if tier != "quick" and ctx.tier == "quick":
            n = 4000          # deeper validation requested by the flow (modelled sources changed) inside the quick tier
        cs = []
        for i in range(n):
            lines = [f"case c{round_no}_{i}"]
            for _ in range(rng.choice([1, 2, 3])):
                lines.append(gen_op(rng, tier))
            cs.append(lines)
        if tier != "quick" and ctx.tier != "quick" and round_no == 0:
            self._tsan(ctx, seed)
        return cs

    def _tsan(self, ctx, seed):
        """supporting evidence only: the same harness built with ThreadSanitizer, real threads"""
        hb, log = core.build_harness(ctx, name="c06t", sources=["c06.cpp"],
                                     repo_sources=["tlx/algorithm/parallel_multiway_merge.cpp"],
                                     std_flags=["-std=gnu++17", "-O1", "-g", "-fsanitize=thread"])
        if hb is None:
            ctx.say("TSan harness does not compile: " + log[-300:])
            self.tsan_stats = dict(tsan="build failed")
            return
        rng = random.Random(seed * 31 + 5)
        lines = []
        for i in range(400):
            lines.append(f"case t{i}")
            lines.append(gen_op(rng, "quick", elems=("pod", "pod", "log"), containers=(i % 4 == 0)))
        out, rc, err = core.run_lines([hb, "run"], lines, timeout=1500,
                                      env={"TSAN_OPTIONS": "halt_on_error=1:exitcode=66:report_signal_unsafe=0"})
        races = err.count("WARNING: ThreadSanitizer")
        self.tsan_stats = dict(tsan_cases=400, tsan_rc=rc, tsan_reports=races)
        ctx.say(f"TSan run: rc={rc} reports={races}")
        if rc != 0 or races:
            # find the case the run stopped in
            k = max(0, len(out) // 2 - 1)
            case = lines[2 * k: 2 * k + 2] if 2 * k + 1 < len(lines) else lines[-2:]
            p = ctx.write_replay(f"viol_tsan_{seed}.ops", ["kind: ThreadSanitizer report on real threads",
                                                           "message: " + err[:1500].replace("\n", " | ")], case)
            ctx.violation(p, "data race reported by ThreadSanitizer: " + err[:300].replace("\n", " | "), True)

    def extra_coverage(self, ctx, res):
        return dict(self.tsan_stats or {})

    def nontrivial(self, case, answers):
        keys = []
        for op, a in zip(case[1:], answers[1:]):
            t = op.split()
            if t[0] != "ms" or not a.startswith("out "):
                continue
            at = a.split()
            if len(at) < 8 or at[5] == "-":
                continue
            wins = at[5].split(",")
            if len(wins) < 2:
                continue
            cws = [tuple(int(x) for x in w.split("+")) for w in at[3].split(",")] if at[3] != "-" else []

            def thread_of(idx):
                for ti, (s, l) in enumerate(cws):
                    if s <= idx < s + l:
                        return ti
                return -1
            elems = [tuple(int(x) for x in e.split(":")) for e in at[1].split(",")] if at[1] != "-" else []
            k = key_of(t[2])
            ok = False
            for w in wins[1:]:
                b = int(w.split("+")[0])
                if 0 < b < len(elems) and k(elems[b - 1][0]) == k(elems[b][0]) and \
                        thread_of(elems[b - 1][1]) != thread_of(elems[b][1]):
                    ok = True
            if ok:
                keys.append(op)
        return tuple(keys) if keys else None


SPEC = C06()
