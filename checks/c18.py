"""C18 — tlx::StringView answers every query exactly like std::string_view.

Four parties are tied together on the same op lines (harness/c18.cpp, lean/Driver/C18.lean):
  `t …` lines: real tlx::StringView  ==  Lean model          (correspondence)
               real tlx::StringView  ==  std::string_view    (direct oracle inside the harness, `#VIOL`)
  `s …` lines: libstdc++ string_view ==  Lean specification  (validates the spec the theorems talk about)
  and Props/C18.lean proves  model = spec  per method, for all inputs.
Every answer enumerates the full grid pos/n in {0..len+1, npos} of the method family.
In addition the harness' `exh` mode compares tlx with std in-process on *all* (haystack, needle)
pairs up to a length bound; each class of disagreement comes back as an op line and is then run
through the line protocol like any other case.
"""
import itertools
import random
import subprocess

from vlib import core, flow

ALPHA = [0x00, 0x61, 0x62, 0x80, 0xFF]
OPS2 = ["cmp", "cmp3", "cmp5", "find", "rfind", "ffo", "flo", "ffno", "flno", "sw", "acc"]
OPS1 = ["substr", "copy", "rm"]


def tok(b):
    return bytes(b).hex() if len(b) else "-"


def all_strings(alpha, maxlen):
    for l in range(maxlen + 1):
        for t in itertools.product(alpha, repeat=l):
            yield bytes(t)


def pair_case(cid, h, n, modes=("t", "s"), ops2=OPS2, ops1=OPS1):
    lines = [f"case {cid}"]
    for m in modes:
        for op in ops1:
            lines.append(f"{m} {op} {h}")
        for op in ops2:
            lines.append(f"{m} {op} {h} {n}")
    return lines


class C18(flow.Spec):
    pid = "C18"
    harness = dict(name="c18", sources=["c18.cpp"],
                   std_flags=["-std=gnu++20", "-O1", "-g", "-fsanitize=address,undefined",
                              "-fno-sanitize-recover=all", "-fno-omit-frame-pointer"])
    nontrivial_rule = ("a (haystack, needle) pair is non-trivial when the haystack contains a NUL or a byte >= 0x80, "
                       "the needle is not empty and occurs in the haystack (find(needle,0) != npos); every op line "
                       "evaluates the whole pos/n grid {0..len+1,npos} of its method family; distinct = distinct pairs")
    assumptions = [
        "std::equal / std::search / std::find_first_of / std::lexicographical_compare / char_traits<char>::compare,find "
        "meet their standard contracts (modelled by reference implementations)",
        "a view is modelled by the bytes it denotes plus the offset of ptr_ where the code hands out sub-views; "
        "pointer provenance, the default-constructed (nullptr,0) view and reads past the range are covered by "
        "ASan/UBSan in the harness, not by the model",
        "size_type is 64 bit; theorems about find_last_not_of assume size() < 2^64",
        "max_size(), hash<StringView>, operator<< have no std::string_view counterpart with comparable values "
        "and are outside the property; remove_prefix/suffix(n > size()), front()/back() on an empty view and "
        "operator[] out of range are undefined for std::string_view and are not executed",
    ]
    trusted_base = ["Lean 4 kernel; axioms propext, Quot.sound, Classical.choice at most (audited per theorem)",
                    "Model/C18Spec.lean = my transcription of [string.view]; validated against libstdc++ by the `s` lines",
                    "Model/C18StringView.lean tied to string_view.hpp by the `t` lines (harness/c18.cpp, ASan+UBSan, "
                    "exact-size unterminated heap ranges)"]
    search_rounds = 2
    _exh = None

    def viol_class(self, message):
        # "#VIOL <op> <group> tlx … std …" / "#VIOL terminate …" / "#VIOL crash …"
        return " ".join(message.split()[:3])

    # ---------------------------------------------------------------- exhaustive tlx vs std in the harness
    def exhaustive(self, ctx, maxh, maxn, asize):
        hb, _ = core.build_harness(ctx, **self.harness)
        if hb is None:
            return []
        env = dict(core.SAN_ENV)
        import os
        e = dict(os.environ); e.update(env)
        p = subprocess.run([hb, "exh", str(maxh), str(maxn), str(asize)], capture_output=True, text=True, env=e,
                           errors="replace")
        cases, last_at, summary = [], None, None
        k = 0
        for l in p.stdout.splitlines():
            if l.startswith("#AT "):
                last_at = l.split()[1:3]
            elif l.startswith("#EXH"):
                summary = l
            elif l.startswith("#DIED-IN "):
                cases.append([f"case exh-died{k}", l[len("#DIED-IN "):]]); k += 1
            elif l.startswith("t "):
                cases.append([f"case exh{k}", l]); k += 1
        if p.returncode != 0 and last_at:
            # died inside this pair (sanitizer abort): hand the pair to the line protocol
            cases.append(pair_case(f"exh-died-at{k}", last_at[0], last_at[1], modes=("t",)))
        ctx.say(f"exhaustive tlx vs std (hay<={maxh}, needle<={maxn}, alphabet {asize}): rc={p.returncode} "
                f"{summary or 'no summary (died)'}; {len(cases)} witness cases")
        ev = dict(maxhay=maxh, maxneedle=maxn, alphabet=asize, rc=p.returncode, summary=summary)
        self._exh = (self._exh or []) + [ev]
        return cases

    # ---------------------------------------------------------------- line-protocol cases
    def cases(self, ctx, seed, tier, round_no=0):
        rng = random.Random(seed * 1000003 + round_no)
        cs = []
        quick = (tier == "quick")
        if round_no == 0:
            if quick:
                cs += self.exhaustive(ctx, 3, 3, 5)
            else:
                cs += self.exhaustive(ctx, 4, 3, 5)
                cs += self.exhaustive(ctx, 6, 2, 3)
        # exhaustive small pairs through model and spec as well
        hmax, nmax = (3, 1) if quick else (4, 2)
        if round_no == 0:
            hs = [tok(h) for h in all_strings(ALPHA, hmax)] + ["null"]
            ns = [tok(n) for n in all_strings(ALPHA, nmax)] + ["null"]
            for i, h in enumerate(hs):
                for j, n in enumerate(ns):
                    cs.append(pair_case(f"x{i}.{j}", h, n, ops1=OPS1 if j == 0 else []))
        # random longer pairs; needles are mostly cut out of (or mutated from) the haystack
        nrand = (600 if quick else 8000)
        for i in range(nrand):
            alpha = rng.choice([ALPHA, ALPHA, [0x00, 0x61], [0x61, 0x62, 0x41, 0x20], list(range(256))])
            hl = rng.choice([3, 4, 5, 5, 6, 7, 8, 9, 12])
            h = bytes(rng.choice(alpha) for _ in range(hl))
            k = rng.random()
            if k < 0.55 and hl:
                a = rng.randrange(hl); b = rng.randrange(a, min(hl, a + 4) + 1)
                n = bytearray(h[a:b])
                if n and rng.random() < 0.3:
                    n[rng.randrange(len(n))] = rng.choice(alpha)
                n = bytes(n)
            elif k < 0.7:
                n = h[: rng.randrange(hl + 1)] + bytes(rng.choice(alpha) for _ in range(rng.randrange(3)))
            else:
                n = bytes(rng.choice(alpha) for _ in range(rng.randrange(5)))
            ops2 = OPS2 if len(n) <= 3 and hl <= 7 else [o for o in OPS2 if o != "cmp5"]
            cs.append(pair_case(f"r{round_no}.{i}", tok(h), tok(n), ops2=ops2))
        return cs

    def nontrivial(self, case, answers):
        h = n = None
        for l, a in zip(case, answers):
            t = l.split()
            if len(t) == 4 and t[0] == "t" and t[1] == "find":
                h, n = t[2], t[3]
                if n in ("-", "null") or a.startswith("v=n"):
                    return None
                hb = bytes.fromhex(h) if h not in ("-", "null") else b""
                if any(c == 0 or c >= 0x80 for c in hb):
                    return (h, n)
        return None

    def extra_coverage(self, ctx, res):
        return {"exhaustive_tlx_vs_std": self._exh or []}


SPEC = C18()
