"""C18 — tlx::StringView answers every query exactly like std::string_view.

Four parties are tied together on the same op lines (harness/c18.cpp, lean/Driver/C18.lean):
  `t …` lines: real tlx::StringView  ==  Lean model          (correspondence)
               real tlx::StringView  ==  std::string_view    (direct oracle inside the harness, `#VIOL`)
  `s …` lines: libstdc++ string_view ==  Lean specification  (validates the spec the theorems talk about)
  and Props/C18.lean proves  model = spec  per method, for all inputs.
Every answer enumerates the full grid pos/n in {0..len+1, npos} of the method family.
In addition the harness' `exh` mode compares tlx with std in-process on *all* (haystack, needle)
pairs up to a length bound; each class of disagreement comes back as an op line and is then run
through the line protocol like any other case.
"""
import itertools
import random
import subprocess

from vlib import core, flow

ALPHA = [0x00, 0x61, 0x62, 0x80, 0xFF]
OPS2 = ["cmp", "cmp3", "cmp5", "find", "rfind", "ffo", "flo", "ffno", "flno", "sw", "acc"]
OPS1 = ["substr", "copy", "rm"]


def tok(b):
    return bytes(b).hex() if len(b) else "-"


def all_strings(alpha, maxlen):
    for l in range(maxlen + 1):
        for t in itertools.product(alpha, repeat=l):
            yield bytes(t)


A31, B32 = 1 << 31, 1 << 32
HSIZE = B32 + A31 + 4096


def hmem(i):
    marked = i < 16 or A31 - 16 <= i < A31 + 16 or B32 - 16 <= i < B32 + 16 or HSIZE - 16 <= i < HSIZE
    return (i * 37 + 11) % 255 + 1 if marked else 0


def hv(off, ln):
    off = max(0, min(off, HSIZE))
    ln = max(0, min(ln, HSIZE - off))
    return f"{off}:{ln}"


def huge_lines(rng, n, expensive=False):
    """op lines over views of lengths around 2^31 / 2^32 into the sparse mapping of the harness; built
    so that (almost all of them) satisfy the window contract; the rest answers bad-op on both sides"""
    out = []

    def big():
        return rng.choice([A31, B32, B32, A31 + B32]) + rng.choice([-17, -5, -2, -1, 0, 0, 1, 2, 5, 16, 100])

    def small():
        return rng.choice([0, 1, 2, 5, 5, 8, 16, 17, 40, 64, 65])

    def off():
        return rng.choice([0, 0, 1, 5, 16, 100, A31 - 20, A31 - 3, A31, A31 + 16, B32 - 16, B32 - 1, B32, B32 + 40])

    def num(x):
        return "n" if x is None else str(max(0, x))

    for _ in range(n):
        m = rng.choice(["t", "t", "s"])
        k = rng.randrange(14)
        o = off()
        if k == 0:      # same start, very different lengths (one is a prefix of the other)
            a, b = hv(o, small()), hv(o, big())
            if rng.random() < 0.5:
                a, b = b, a
            out.append(f"{m} hcmp {a} {b}")
        elif k == 1:    # different starts, decided by the first bytes or short
            a, b = hv(off(), rng.choice([small(), big()])), hv(off(), rng.choice([small(), big()]))
            out.append(f"{m} hcmp {a} {b}")
        elif k == 2:
            ln = big()
            pos = rng.choice([0, 5, A31, B32 - 1, B32, B32 + 1, ln - 5, ln, ln + 1, None])
            cnt = rng.choice([0, 5, A31, B32, B32 + 7, None])
            out.append(f"{m} hsub {hv(o, ln)} {num(pos)} {num(cnt)}")
        elif k == 3:
            ln = big()
            v = hv(o, ln)
            real = int(v.split(":")[1])
            out.append(f"{m} hrm {v} {num(rng.choice([0, 5, A31, B32, B32 + 1, real - 3, real]))}")
        elif k == 4:
            ln = big()
            out.append(f"{m} hat {hv(o, ln)} {num(rng.choice([0, 3, A31 - 1, A31, B32 - 1, B32, B32 + 3, ln - 1, ln, ln + 1, None]))}")
        elif k == 5:
            ln = big()
            out.append(f"{m} hcopy {hv(o, ln)} {rng.choice([0, 1, 8, 32])} {num(rng.choice([0, A31 - 4, B32 - 4, B32, ln - 3, ln, ln + 1]))}")
        elif k == 6:    # substring comparisons with positions beyond 2^32
            ln = B32 + rng.choice([40, 100, 1000])
            p1 = rng.choice([B32 - 8, B32, B32 + 8, ln, ln + 1])
            w = hv(rng.choice([B32 - 8, B32, B32 + 8, 0]), rng.choice([0, 8, 30, 50]))
            if rng.random() < 0.5:
                out.append(f"{m} hcmp3 {hv(0, ln)} {p1} {num(rng.choice([None, 8, 30]))} {w}")
            else:
                out.append(f"{m} hcmp5 {hv(0, ln)} {p1} {num(rng.choice([None, 8, 30]))} {hv(0, HSIZE - 100)} "
                           f"{rng.choice([B32 - 8, B32, B32 + 8, HSIZE])} {num(rng.choice([None, 8, 30]))}")
        elif k == 7:    # forward scans that are decided at once or run into a marker block / the end
            ln = big()
            v = hv(o, ln)
            vo, vl = (int(x) for x in v.split(":"))
            target = rng.choice([A31 - 16, B32 - 16, HSIZE - 16])
            pos = rng.choice([target - vo - rng.randrange(1, 40), vl - rng.randrange(0, 30), vl, vl + 1, rng.randrange(0, 50)])
            op, needle = rng.choice([("hfind", "00"), ("hfind", "0000"), ("hfind", "-"), ("hffo", "00"), ("hffno", "00"),
                                     ("hffno", "-"), ("hffo", "-"), ("hffo", "ff00"),
                                     ("hfind", bytes(hmem(target + j) for j in range(3)).hex()),
                                     ("hffo", bytes([hmem(target), hmem(target + 1)]).hex())])
            out.append(f"{m} {op} {v} {needle} {num(pos)}")
        elif k == 8:    # backward scans
            ln = big()
            v = hv(o, ln)
            vo, vl = (int(x) for x in v.split(":"))
            target = rng.choice([A31 + 15, B32 + 15, 15])
            pos = rng.choice([target - vo + rng.randrange(1, 40), None, vl, vl - 1, rng.randrange(0, 50)])
            op, needle = rng.choice([("hrfind", "00"), ("hrfind", "0000"), ("hrfind", "-"), ("hflo", "00"), ("hflno", "00"),
                                     ("hflno", "-"), ("hflo", "-"),
                                     ("hrfind", bytes(hmem(target - 2 + j) for j in range(3)).hex()),
                                     ("hflo", bytes([hmem(target), hmem(target - 1)]).hex())])
            out.append(f"{m} {op} {v} {needle} {num(pos)}")
        elif k == 9:    # starts_with / ends_with with aliased short views
            ln = big()
            v = hv(o, ln)
            vo, vl = (int(x) for x in v.split(":"))
            l2 = small()
            w = rng.choice([hv(vo, l2), hv(vo + vl - l2, l2), hv(off(), l2), hv(vo, vl), hv(vo, vl + 1)])
            out.append(f"{m} hsw {v} {w}")
        elif k == 10:   # a view of up to 1 MiB against a huge one, decided by an early marker difference or the length
            out.append(f"{m} hcmp {hv(rng.choice([0, A31 - 16, B32 - 16]), rng.choice([100, 65536, 1 << 20]))} "
                       f"{hv(rng.choice([0, 1, A31 - 16, B32 - 15]), big())}")
        elif k == 11:   # equal start and equal length, or lengths that differ by 2^31 / 2^32 exactly
            l1 = small()
            out.append(f"{m} hcmp {hv(o, l1)} {hv(o, l1 + rng.choice([0, A31, A31 - 1, A31 + 1, B32, B32 + 1, B32 - 1, A31 + B32]))}")
        elif k == 12:
            out.append(f"{m} hat {hv(o, small())} {num(rng.choice([0, 1, 5, None, B32, B32 + 1]))}")
        else:
            if expensive and rng.random() < 0.15:
                out.append(f"t hcmpx {hv(rng.choice([0, 1]), A31 + 5)} {hv(0, A31 + rng.choice([5, 6, B32]))}")
            else:
                a = hv(o, small())
                out.append(f"{m} hcmp {a} {a}")
    return out


def pair_case(cid, h, n, modes=("t", "s"), ops2=OPS2, ops1=OPS1):
    lines = [f"case {cid}"]
    for m in modes:
        for op in ops1:
            lines.append(f"{m} {op} {h}")
        for op in ops2:
            lines.append(f"{m} {op} {h} {n}")
    return lines


class C18(flow.Spec):
    pid = "C18"
    harness = dict(name="c18", sources=["c18.cpp"],
                   std_flags=["-std=gnu++20", "-O1", "-g", "-fsanitize=address,undefined",
                              "-fno-sanitize-recover=all", "-fno-omit-frame-pointer"])
    nontrivial_rule = ("a (haystack, needle) pair is non-trivial when the haystack contains a NUL or a byte >= 0x80, "
                       "the needle is not empty and occurs in the haystack (find(needle,0) != npos); every op line "
                       "evaluates the whole pos/n grid {0..len+1,npos} of its method family; distinct = distinct pairs")
    assumptions = [
        "std::equal / std::search / std::find_first_of / std::lexicographical_compare / char_traits<char>::compare,find "
        "meet their standard contracts (modelled by reference implementations)",
        "a view is modelled by the bytes it denotes plus the offset of ptr_ where the code hands out sub-views; "
        "pointer provenance, the default-constructed (nullptr,0) view and reads past the range are covered by "
        "ASan/UBSan in the harness, not by the model",
        "size_type is 64 bit; theorems about find_last_not_of assume size() < 2^64",
        "max_size(), hash<StringView>, operator<< have no std::string_view counterpart with comparable values "
        "and are outside the property; remove_prefix/suffix(n > size()), front()/back() on an empty view and "
        "operator[] out of range are undefined for std::string_view and are not executed",
    ]
    trusted_base = ["Lean 4 kernel; axioms propext, Quot.sound, Classical.choice at most (audited per theorem)",
                    "Model/C18Spec.lean = my transcription of [string.view]; validated against libstdc++ by the `s` lines",
                    "Model/C18StringView.lean tied to string_view.hpp by the `t` lines (harness/c18.cpp, ASan+UBSan, "
                    "exact-size unterminated heap ranges)"]
    search_rounds = 2
    _exh = None
    _huge = None
    _hb = None

    def harness_path(self, ctx):
        if self._hb is None:
            self._hb, _ = core.build_harness(ctx, **self.harness)
        return self._hb

    def compare(self, op, impl, model):
        if impl == model:
            return True
        # a machine that cannot map 6 GiB of address space answers the huge-view lines (the two corpus cases
        # included) with bad-op: nothing is claimed about them there
        t = op.split()
        if impl == "bad-op" and len(t) > 1 and t[1].startswith("h"):
            if self._huge is None:
                import glob
                import os
                bins = sorted(glob.glob(os.path.join(core.BUILD, "C18", "c18-*")), key=os.path.getmtime)
                ok = True
                if bins:
                    rc, out, _ = core.sh([bins[-1], "hprobe"], env=core.SAN_ENV)
                    ok = "huge-ok" in out
                self._huge = ok
            return not self._huge
        return False

    def viol_class(self, message):
        # "#VIOL <op> <group> tlx … std …" / "#VIOL terminate …" / "#VIOL crash …"
        return " ".join(message.split()[:3])

    # ---------------------------------------------------------------- exhaustive tlx vs std in the harness
    def exhaustive(self, ctx, maxh, maxn, asize):
        hb = self.harness_path(ctx)
        if hb is None:
            return []
        env = dict(core.SAN_ENV)
        import os
        e = dict(os.environ); e.update(env)
        p = subprocess.run([hb, "exh", str(maxh), str(maxn), str(asize)], capture_output=True, text=True, env=e,
                           errors="replace")
        cases, last_at, summary = [], None, None
        k = 0
        for l in p.stdout.splitlines():
            if l.startswith("#AT "):
                last_at = l.split()[1:3]
            elif l.startswith("#EXH"):
                summary = l
            elif l.startswith("#DIED-IN "):
                cases.append([f"case exh-died{k}", l[len("#DIED-IN "):]]); k += 1
            elif l.startswith("t "):
                cases.append([f"case exh{k}", l]); k += 1
        if p.returncode != 0 and last_at:
            # died inside this pair (sanitizer abort): hand the pair to the line protocol
            cases.append(pair_case(f"exh-died-at{k}", last_at[0], last_at[1], modes=("t",)))
        ctx.say(f"exhaustive tlx vs std (hay<={maxh}, needle<={maxn}, alphabet {asize}): rc={p.returncode} "
                f"{summary or 'no summary (died)'}; {len(cases)} witness cases")
        ev = dict(maxhay=maxh, maxneedle=maxn, alphabet=asize, rc=p.returncode, summary=summary)
        self._exh = (self._exh or []) + [ev]
        return cases

    def exhaustive_alias(self, ctx, maxb, asize):
        """in-process tlx vs std with the needle a view into the haystack's own buffer"""
        import os
        hb = self.harness_path(ctx)
        if hb is None:
            return []
        e = dict(os.environ); e.update(core.SAN_ENV)
        p = subprocess.run([hb, "exha", str(maxb), str(asize)], capture_output=True, text=True, env=e, errors="replace")
        cases, last_at, summary, k = [], None, None, 0
        for l in p.stdout.splitlines():
            if l.startswith("#AT "):
                last_at = l.split()[1]
            elif l.startswith("#EXH"):
                summary = l
            elif l.startswith("#DIED-IN "):
                cases.append([f"case exha-died{k}", l[len("#DIED-IN "):]]); k += 1
            elif l.startswith("t "):
                cases.append([f"case exha{k}", l]); k += 1
        if p.returncode != 0 and last_at:
            # died somewhere behind this haystack view: all its aliased needles through the line protocol
            buf = last_at.split("@")[0]
            blen = 0 if buf == "-" else len(buf) // 2
            for o2 in range(blen + 1):
                for l2 in range(blen - o2 + 1):
                    cases.append(pair_case(f"exha-died-at{k}", last_at, f"@{o2}:{l2}", modes=("t",), ops1=[])); k += 1
        ctx.say(f"exhaustive aliasing tlx vs std (buffer<={maxb}, alphabet {asize}): rc={p.returncode} "
                f"{summary or 'no summary (died)'}; {len(cases)} witness cases")
        self._exh = (self._exh or []) + [dict(aliasing=True, maxbuf=maxb, alphabet=asize, rc=p.returncode, summary=summary)]
        return cases

    def huge_available(self, ctx):
        if self._huge is None:
            hb = self.harness_path(ctx)
            ok = False
            if hb is not None:
                rc, out, _ = core.sh([hb, "hprobe"], env=core.SAN_ENV)
                ok = "huge-ok" in out
            self._huge = ok
            ctx.say("huge views (MAP_NORESERVE mapping of 6 GiB): " + ("available" if ok else "NOT available - skipped"))
        return self._huge

    # ---------------------------------------------------------------- line-protocol cases
    def cases(self, ctx, seed, tier, round_no=0):
        rng = random.Random(seed * 1000003 + round_no)
        cs = []
        quick = (tier == "quick")
        if round_no == 0:
            if quick:
                cs += self.exhaustive(ctx, 3, 2, 5)
                cs += self.exhaustive(ctx, 3, 3, 3)
                cs += self.exhaustive_alias(ctx, 3, 3)
                cs += self.exhaustive_alias(ctx, 4, 2)
            else:
                cs += self.exhaustive(ctx, 4, 3, 5)
                cs += self.exhaustive(ctx, 6, 2, 3)
                cs += self.exhaustive_alias(ctx, 4, 5)
                cs += self.exhaustive_alias(ctx, 6, 2)
        # exhaustive small pairs through model and spec as well
        hmax, nmax = (3, 1) if quick else (4, 2)
        if round_no == 0:
            hs = [tok(h) for h in all_strings(ALPHA, hmax)] + ["null"]
            ns = [tok(n) for n in all_strings(ALPHA, nmax)] + ["null"]
            for i, h in enumerate(hs):
                for j, n in enumerate(ns):
                    cs.append(pair_case(f"x{i}.{j}", h, n, ops1=OPS1 if j == 0 else []))
            # aliased arguments through model and spec as well: every pair of sub-views of small buffers
            bufs = [b for b in all_strings([0x00, 0x61, 0x80] if quick else ALPHA, 2 if quick else 3) if len(b)]
            k = 0
            for b in bufs:
                L = len(b)
                views = [(o, l) for o in range(L + 1) for l in range(L - o + 1)]
                for (o1, l1) in views:
                    for (o2, l2) in views:
                        cs.append(pair_case(f"al{k}", f"{tok(b)}@{o1}:{l1}", f"@{o2}:{l2}", ops1=[])); k += 1
        # views of lengths around 2^31 / 2^32
        if self.huge_available(ctx):
            hl = huge_lines(rng, 1500 if quick else 20000, expensive=not quick)
            # lines outside the window contract answer bad-op (and would block the shrinker): drop them.
            # The contract is evaluated by the harness' own windowed reference, asked in std mode.
            probe = ["s " + l.split(" ", 1)[1] for l in hl if l.split()[1] != "hcmpx"]
            pout, prc, _ = core.run_lines([self.harness_path(ctx), "run"], ["case probe"] + probe)
            if prc == 0 and len(pout) == len(probe) + 1:
                bad = {p.split(" ", 1)[1] for p, a in zip(probe, pout[1:]) if a == "bad-op"}
                hl = [l for l in hl if l.split(" ", 1)[1] not in bad]
            for i in range(0, len(hl), 25):
                cs.append([f"case h{round_no}.{i // 25}"] + hl[i:i + 25])
        # random pairs of sub-views of one buffer (needle inside / overlapping / before / behind the haystack)
        for i in range(300 if quick else 4000):
            alpha = rng.choice([ALPHA, [0x61, 0x62], [0x00, 0x61]])
            bl = rng.choice([3, 4, 5, 6, 8])
            b = bytes(rng.choice(alpha) for _ in range(bl))
            o1 = rng.randrange(bl + 1); l1 = rng.randrange(bl - o1 + 1)
            o2 = rng.choice([o1, o1, rng.randrange(bl + 1)]); l2 = rng.randrange(bl - o2 + 1)
            ops2 = OPS2 if l1 <= 5 and l2 <= 3 else [o for o in OPS2 if o != "cmp5"]
            cs.append(pair_case(f"ra{round_no}.{i}", f"{tok(b)}@{o1}:{l1}", f"@{o2}:{l2}", ops2=ops2, ops1=[]))
        # random longer pairs; needles are mostly cut out of (or mutated from) the haystack
        nrand = (600 if quick else 8000)
        for i in range(nrand):
            alpha = rng.choice([ALPHA, ALPHA, [0x00, 0x61], [0x61, 0x62, 0x41, 0x20], list(range(256))])
            hl = rng.choice([3, 4, 5, 5, 6, 7, 8, 9, 12])
            h = bytes(rng.choice(alpha) for _ in range(hl))
            k = rng.random()
            if k < 0.55 and hl:
                a = rng.randrange(hl); b = rng.randrange(a, min(hl, a + 4) + 1)
                n = bytearray(h[a:b])
                if n and rng.random() < 0.3:
                    n[rng.randrange(len(n))] = rng.choice(alpha)
                n = bytes(n)
            elif k < 0.7:
                n = h[: rng.randrange(hl + 1)] + bytes(rng.choice(alpha) for _ in range(rng.randrange(3)))
            else:
                n = bytes(rng.choice(alpha) for _ in range(rng.randrange(5)))
            ops2 = OPS2 if len(n) <= 3 and hl <= 7 else [o for o in OPS2 if o != "cmp5"]
            cs.append(pair_case(f"r{round_no}.{i}", tok(h), tok(n), ops2=ops2))
        return cs

    def nontrivial(self, case, answers):
        h = n = None
        for l, a in zip(case, answers):
            t = l.split()
            if len(t) == 4 and t[0] == "t" and t[1] == "find":
                h, n = t[2], t[3]
                if n in ("-", "null") or a.startswith("v=n"):
                    return None
                hx = h.split("@")[0]
                hb = bytes.fromhex(hx) if hx not in ("-", "null") else b""
                if any(c == 0 or c >= 0x80 for c in hb):
                    return (h, n)
        return None

    def extra_coverage(self, ctx, res):
        return {"exhaustive_tlx_vs_std": self._exh or [], "huge_views_available": bool(self._huge)}


SPEC = C18()
