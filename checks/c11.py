"""C11 — Semaphore conserves tokens and strands no waiter; both thread barriers release together.

Real tlx::Semaphore / ThreadBarrierMutex / ThreadBarrierSpin under the deterministic scheduler
(harness/detsched) vs the Lean transition systems (lean/TlxVerif/Model/C11*.lean) under the mirrored
scheduler on the same draws: event traces must be equal token by token; the harness' direct oracle checks
the property on the real code."""
import os
import random
import re

from vlib import core, flow

SHIM = os.path.join(core.VERIF, "harness", "detsched", "shim.hpp")


def runs(rng, tier, lines, yield_ok=False):
    n = 4 if tier == "quick" else 8
    for _ in range(n):
        stick = rng.choice([0, 0, 100, 200, 240])
        spur = rng.choice([0, 0, 0, 1, 3])
        lines.append(f"run seed={rng.randrange(1, 2**40)} stick={stick} spur={spur}")


def gen_sem(rng, cid, tier):
    lines = [f"case s{cid}"]
    init = rng.choice([0, 0, 0, 1, 2, 3])
    lines.append(f"sem {init}")
    nt = rng.choice([2, 2, 3, 3, 3, 4, 4, 5])
    equal = rng.random() < 0.3
    threads = [[] for _ in range(nt)]
    demand = 0
    maxslack = 0
    for t in range(nt):
        for _ in range(rng.choice([1, 1, 2, 2, 3, 4])):
            r = rng.random()
            if r < 0.45:
                d = 1 if equal else rng.choice([0, 1, 1, 2, 2, 3])
                s = 0 if equal else rng.choice([0, 0, 0, 1, 2])
                threads[t].append(f"w{d}/{s}")
                demand += d
                maxslack = max(maxslack, s)
            elif r < 0.55:
                d = 1 if equal else rng.choice([0, 1, 2, 3])
                s = 0 if equal else rng.choice([0, 0, 1, 2])
                threads[t].append(f"a{d}/{s}")
            elif r < 0.85:
                threads[t].append("s")
                demand -= 1
            else:
                k = rng.choice([0, 1, 2, 2, 3, 4])
                threads[t].append(f"s{k}")
                demand -= k
    # mostly satisfiable scenarios: top up the supply so that every wait can eventually be served
    if rng.random() < 0.75:
        short = demand + maxslack - init
        while short > 0:
            k = rng.choice([1, 1, 2, 3])
            threads[rng.randrange(nt)].append("s" if k == 1 and rng.random() < 0.7 else f"s{k}")
            short -= k
    for ops in threads:
        lines.append("thread " + " ".join(ops))
    runs(rng, tier, lines)
    return lines


def gen_bar(rng, cid, tier):
    lines = [f"case b{cid}"]
    kind = rng.choice(["mutex", "mutex", "spin", "spiny"])
    n = rng.choice([1, 2, 2, 3, 3, 3, 4, 4, 5])
    gens = rng.choice([1, 2, 3, 3, 4, 5] if tier == "quick" else [1, 2, 3, 4, 5, 6, 8])
    # the barrier action is a multi-step action: act=<k> scheduling points between its begin and its end
    k = rng.choice([0, 1, 1, 1, 2, 2, 3])
    lines.append(f"barrier {kind} {n} {gens}" + (f" act={k}" if k or rng.random() < 0.5 else ""))
    runs(rng, tier, lines)
    return lines


EXPLORE = [
    (["sem 0", "thread w2/0", "thread w1/0", "thread s"], 600, 12000),            # the D7 shape
    (["sem 0", "thread w1/1", "thread w1/0", "thread s s"], 400, 12000),
    (["sem 1", "thread w2/0 s", "thread a1/0 s2", "thread w1/0"], 0, 12000),
    (["barrier mutex 2 2 act=1"], 400, 12000),
    (["barrier mutex 3 2"], 300, 12000),
    (["barrier spin 2 2 act=1"], 400, 12000),
    (["barrier spiny 2 2 act=1"], 400, 12000),
    (["barrier spin 3 1 act=2"], 0, 12000),
    (["barrier spiny 3 1 act=1"], 0, 12000),
    (["barrier mutex 2 4 act=1"], 0, 12000),
    (["barrier mutex 3 2 act=2"], 0, 12000),
]


def explore_cases(tier):
    cs = []
    for i, (lines, q, t) in enumerate(EXPLORE):
        n = q if tier == "quick" else t
        if n:
            cs.append([f"case x{i}"] + lines + [f"explore runs={n}", f"explore runs={max(n // 2, 1)} spur=1"])
    return cs


class C11(flow.Spec):
    pid = "C11"
    harness = dict(name="c11", sources=["c11.cpp"], flags=["-include", SHIM],
                   std_flags=["-O0" if f == "-O1" else f for f in core.SAN_FLAGS])
    nontrivial_rule = ("semaphore scenario = initial value 0-3, 2-5 threads issuing signal()/signal(n)/wait(d,s)/"
                       "try_acquire(d,s) mixes, barrier scenario = kind (mutex, spin wait, spin wait_yield) x 1-5 threads x "
                       "1-8 generations; each run under several PRNG schedules (sticky / spurious wake-up variants). "
                       "Non-trivial: a semaphore case in which some waiter really blocked and the waits use at least two "
                       "different delta+slack amounts; a barrier case with >= 2 threads and >= 2 generations; distinct = "
                       "distinct scenario + schedule lines; in addition a fixed list of tiny scenarios is explored "
                       "systematically (depth-first over all scheduling choices, with and without one spurious wake-up) "
                       "up to a run budget, and the number of schedules must agree between implementation and model")
    assumptions = [
        "sequentially consistent interleavings at the granularity of synchronisation operations; weak-memory "
        "reorderings of the acquire/release accesses of the spin barrier are not covered",
        "std::condition_variable modelled with arbitrary notify_one choice and optional spurious wake-ups",
        "spin loops: a thread re-reading an unchanged atomic is suspended until it changes (fair scheduling of "
        "spinning threads); thread_count >= 1; all n threads call wait() the same number of times; actions do not "
        "touch the barrier",
    ]
    trusted_base = ["Lean 4 kernel", "axioms: propext, Quot.sound, Classical.choice at most (audited per theorem)",
                    "hand-written transition systems TlxVerif/Model/C11Sem.lean, C11BarM.lean, C11BarS.lean tied to "
                    "semaphore.hpp / thread_barrier_mutex.hpp / thread_barrier_spin.hpp by the trace-refinement check "
                    "(real code under harness/detsched vs model under TlxVerif/Model/C10Sched.lean on identical draws)",
                    "harness/detsched scheduler and shim"]

    def extra_coverage(self, ctx, res):
        """thorough tier: the real primitives on real threads under ThreadSanitizer (supporting evidence)"""
        if ctx.tier != "thorough":
            return {}
        hb, log = core.build_harness(ctx, name="c10_tsan", sources=["c10_tsan.cpp"], repo_sources=["tlx/thread_pool.cpp"],
                                     std_flags=["-std=gnu++17", "-O1", "-g", "-fsanitize=thread", "-Wno-tsan"])
        if hb is None:
            ctx.say("tsan harness does not compile:", log[-400:])
            return {"tsan_real_threads": "not built"}
        runs, bad, inconclusive = 0, None, 0
        for _ in range(5):
            rc, out, err = core.sh([hb], timeout=600, env={"TSAN_OPTIONS": "halt_on_error=1:exitcode=66"})
            runs += 1
            txt = out + err
            if rc == 0:
                continue
            if "ThreadSanitizer: data race" in txt or "CHECK failed" in txt or "ThreadSanitizer: lock-order" in txt:
                bad = (rc, txt[-3000:])
                break
            inconclusive += 1      # watchdog, sanitizer start-up problems, resource limits: not a verdict
        if bad is not None:
            path = ctx.write_replay(f"tsan_{ctx.tier}_{ctx.seed}.txt",
                                    ["kind: real-thread ThreadSanitizer run failed (data race / failed check)",
                                     f"replay: build harness/c10_tsan.cpp with -fsanitize=thread against the repo and run it (rc={bad[0]})"],
                                    bad[1].splitlines())
            ctx.violation(path, "real-thread run under ThreadSanitizer reports a race or a failed check", True)
        ctx.say(f"tsan real-thread runs: {runs}, inconclusive (watchdog): {inconclusive}, failed: {0 if bad is None else 1}")
        return {"tsan_real_threads": {"runs": runs, "inconclusive": inconclusive, "failed": bad is not None}}

    def viol_class(self, message):
        m = re.sub(r"[0-9]+", "N", message.replace("#VIOL", "")).split(" although")[0]
        return " ".join(m.split()[:6])

    def cases(self, ctx, seed, tier, round_no=0):
        rng = random.Random(seed * 1000003 + round_no * 7919 + 11)
        n = 600 if tier == "quick" else 10000
        cs = []
        for i in range(n):
            cs.append(gen_sem(rng, i, tier) if rng.random() < 0.55 else gen_bar(rng, i, tier))
        if round_no == 0:
            cs += explore_cases(tier)
        return cs

    def nontrivial(self, case, answers):
        if case[1].startswith("sem"):
            needs = set()
            for l in case:
                if l.startswith("thread"):
                    for tok in l.split()[1:]:
                        if tok[0] == "w":
                            d, s = tok[1:].split("/")
                            needs.add(int(d) + int(s))
            if len(needs) >= 2 and any("wait(cv)" in a for a in answers):
                return tuple(case)
            return None
        p = case[1].split()
        if p[0] == "barrier" and len(p) == 5 and p[4] != "act=0" and int(p[2]) >= 2 and int(p[3]) >= 2:
            return tuple(case)
        return None


SPEC = C11()
