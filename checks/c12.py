"""C12 — CountingPtr: refcount == number of handles, object destroyed exactly once when the last
owner lets go; also under concurrent copy/release (deterministic schedules + real threads)."""
import os
import random
import re

from vlib import core, flow

NH = 6


def is_b(h):
    return h >= 4


class Sim:
    """generator-side bookkeeping (which handle exists / what it points to), only used to
    bias the generation towards valid and aliasing operations"""

    def __init__(self):
        self.h = [None] * NH       # None = no handle, "null", or object id
        self.nobj = 0

    def count(self, o):
        return sum(1 for x in self.h if x == o)

    def existing(self):
        return [i for i in range(NH) if self.h[i] is not None]

    def missing(self):
        return [i for i in range(NH) if self.h[i] is None]


def gen_seq_case(rng, cid, nops):
    lines = [f"case seq{cid}"]
    # the Deleter of the case's handle types: default / logging custom deleter / CountingPtrNoDelete over arena objects
    mode = rng.choice(["default", "default", "counting", "counting", "nodelete", None])
    if mode:
        lines.append(f"mode {mode}")
    S = Sim()
    for _ in range(nops):
        ex, mi = S.existing(), S.missing()
        k = rng.random()
        if (k < 0.22 or not ex) and mi:
            h = rng.choice(mi)
            kk = rng.random()
            if kk < 0.35 or not ex:
                if rng.random() < 0.85:
                    lines.append(f"make {h}"); S.h[h] = S.nobj; S.nobj += 1
                else:
                    lines.append(f"null {h}"); S.h[h] = "null"
                continue
            src = [s for s in ex if is_b(h) or not is_b(s)]
            if not src:
                lines.append(f"make {h}"); S.h[h] = S.nobj; S.nobj += 1
                continue
            s = rng.choice(src)
            if kk < 0.70:
                lines.append(f"copy {h} {s}"); S.h[h] = S.h[s]
            elif kk < 0.90:
                lines.append(f"move {h} {s}"); S.h[h] = S.h[s]; S.h[s] = "null"
            elif is_b(h) == is_b(s):
                lines.append(f"raw {h} {s}"); S.h[h] = S.h[s]
            else:
                lines.append(f"copy {h} {s}"); S.h[h] = S.h[s]
            continue
        if not ex:
            continue
        h = rng.choice(ex)
        if k < 0.62:
            # assignment; bias towards self / alias / converting
            cands = [s for s in ex if is_b(h) or not is_b(s)]
            alias = [s for s in cands if S.h[s] == S.h[h] and s != h]
            r = rng.random()
            if r < 0.15:
                s = h
            elif r < 0.40 and alias:
                s = rng.choice(alias)
            else:
                s = rng.choice(cands)
            if rng.random() < 0.55:
                lines.append(f"assign {h} {s}")
                S.h[h] = S.h[s]
            else:
                lines.append(f"massign {h} {s}")
                if S.h[h] != S.h[s]:
                    S.h[h] = S.h[s]; S.h[s] = "null"
        elif k < 0.70:
            cands = [s for s in ex if is_b(s) == is_b(h)]
            s = rng.choice(cands)
            lines.append(f"{rng.choice(['swap', 'fswap'])} {h} {s}")
            S.h[h], S.h[s] = S.h[s], S.h[h]
        elif k < 0.77:
            lines.append(f"reset {h}"); S.h[h] = "null"
        elif k < 0.85:
            lines.append(f"unify {h}")
            if S.h[h] != "null" and S.count(S.h[h]) > 1:
                S.h[h] = S.nobj; S.nobj += 1
        elif k < 0.90:
            lines.append(f"dtor {h}"); S.h[h] = None
        elif k < 0.92:
            cands = [s for s in ex if S.h[s] != "null"]
            if S.h[h] != "null" and cands:
                lines.append(f"objassign {h} {rng.choice(cands)}")
            else:
                lines.append(f"valid {h}")
        else:
            q = rng.choice(["use", "unique", "valid", "empty", "get", "eq"])
            if q == "use" and S.h[h] == "null":
                q = "unique"
            if q == "eq":
                s = rng.choice([s for s in ex if is_b(s) == is_b(h)])
                lines.append(f"eq {h} {s}")
            else:
                lines.append(f"{q} {h}")
    return lines


LETTERS = "cabmnrqsuvQwxyzCKABM"


def gen_conc_line(rng, small=False):
    n = rng.choice([2, 2, 3, 3, 3, 4]) if not small else rng.choice([2, 3])
    progs = []
    for _ in range(n):
        L = rng.choice([0, 1, 2, 3, 4, 6]) if not small else rng.choice([0, 1, 2])
        w = rng.choice([LETTERS, LETTERS, "cccab", "ambnrq", "csq", "QxKzy", "QKxyzr", "CABMKxz", "Qxq"])
        progs.append("".join(rng.choice(w) for _ in range(L)) or "-")
    style = rng.randrange(3)
    ln = rng.choice([0, 5, 20, 60])
    if style == 0:
        sched = [rng.randrange(6) for _ in range(ln)]
    elif style == 1:      # long runs of one thread, then switches
        sched, cur = [], 0
        for _ in range(ln):
            if rng.random() < 0.2:
                cur = rng.randrange(6)
            sched.append(cur)
    else:                 # one thread starved until the end
        sched = [rng.choice([0, 0, 1]) for _ in range(ln)]
    return f"conc {','.join(progs)} {','.join(map(str, sched)) if sched else '-'}"


class C12(flow.Spec):
    pid = "C12"
    harness = dict(name="c12", sources=["c12.cpp"])
    nontrivial_rule = ("a sequential case (random history over 4 CountingPtr<Derived> + 2 CountingPtr<Base> handle "
                       "variables) is non-trivial when it assigns between two handles that already point to the same "
                       "object (self or alias), destroys at least one object, and unify() cloned at least once; a "
                       "concurrent case is one explicit schedule of 2-4 threads and is non-trivial when the thread that "
                       "destroys the object is not the one that performed the first visible step; distinct = distinct texts")
    assumptions = [
        "the concurrent theorems quantify over all interleavings of atomic steps under sequential consistency; "
        "ReferenceCounter uses seq_cst operations (++/-- on std::atomic), weaker orders are not modelled",
        "a handle variable is only touched by its owning thread (the C++ data-race rule for the handle object itself)",
        "deterministic schedules are executed with std::atomic inside namespace tlx redirected to a scheduling shim "
        "(harness/c12.cpp); real-thread runs (ASan, TSan in the thorough tier) are supporting evidence",
        "Deleter is the default deleter; objects have a virtual destructor (required for deletion through the base handle)",
    ]
    trusted_base = ["Lean 4 kernel", "axioms: propext, Quot.sound, Classical.choice at most (audited per theorem)",
                    "hand-written models TlxVerif/Model/C12.lean, C12Conc.lean tied to tlx/counting_ptr.hpp by the "
                    "line-protocol correspondence (handle/refcount dumps and atomic-step event traces, ASan+UBSan)"]

    def __init__(self):
        self.tsan = {}

    def compare(self, op, impl, model):
        if impl == model:
            return True
        # harness-only op: the model has no fresh-object phase (see notes)
        return op.startswith("rawrace") and model == "n/a" and " ; destroyed=" in impl

    def viol_class(self, message):
        m = re.split(r" after | in conc| in stress| in rawrace| at the end", message)[0]
        return re.sub(r"[0-9]+", "N", m)[:90]

    # TSan stage (thorough tier): real threads and scheduled runs under ThreadSanitizer
    def translator(self, ctx):
        if ctx.quick():
            return []
        hb, log = core.build_harness(ctx, name="c12tsan", sources=["c12.cpp"],
                                     std_flags=["-std=gnu++17", "-O1", "-g", "-fsanitize=thread"])
        if hb is None:
            return ["TSan harness does not compile: " + log[-800:]]
        rng = random.Random(ctx.seed * 7919 + 5)
        lines = ["case tsan"]
        for i in range(12):
            lines.append(f"stress {rng.choice([2, 3, 3, 4])} {rng.choice([20000, 60000])} {rng.randrange(1 << 30)}")
        for i in range(200):
            lines.append(gen_conc_line(rng))
        out, rc, err = core.run_lines([hb, "run"], lines, timeout=1500,
                                      env={"TSAN_OPTIONS": "halt_on_error=0:exitcode=66:second_deadlock_stack=1"})
        viol = [l for l in out if l.startswith("#VIOL")]
        self.tsan = dict(lines=len(lines) - 1, rc=rc, reports=err.count("WARNING: ThreadSanitizer"), viol=len(viol))
        ctx.say(f"TSan stage: {self.tsan}")
        if rc != 0 or viol or "ThreadSanitizer" in err:
            name = f"viol_{ctx.tier}_{ctx.seed}_tsan.ops"
            msg = (viol[0] if viol else "ThreadSanitizer: " + (re.findall(r"WARNING: ThreadSanitizer: ([^\n]*)", err) or [f"rc={rc}"])[0])
            p = ctx.write_replay(name, ["kind: property violated on the real code (TSan build, real threads)",
                                        "message: " + msg,
                                        "replay: build harness/c12.cpp with -fsanitize=thread and feed these lines"], lines)
            ctx.violation(p, "TSan stage: " + msg[:200], True)
        return []

    def cases(self, ctx, seed, tier, round_no=0):
        rng = random.Random(seed * 1000003 + round_no)
        quick = tier == "quick"
        cs = []
        n = 500 if quick else 8000
        for i in range(n):
            cs.append(gen_seq_case(rng, i, rng.choice([8, 20, 40, 80])))
        for i in range(60 if quick else 600):
            cs.append([f"case conc{i}"] + [gen_conc_line(rng) for _ in range(10)])
        # small exhaustive family: every schedule prefix of length 4 over 3 choices for a few fixed programs
        progs = ["c,a,-", "a,m,r", "cq,b,s", "-,-,-", "ar,ar"]
        fam = []
        for p in progs:
            for code in range(81 if not quick else 27):
                sched = [(code // 3 ** j) % 3 for j in range(4 if not quick else 3)]
                fam.append(f"conc {p} {','.join(map(str, sched))}")
        for i, ch in enumerate([fam[j:j + 27] for j in range(0, len(fam), 27)]):
            cs.append([f"case concx{i}"] + ch)
        # the unify() window: a thread that holds a single handle tests unique(), the other thread(s)
        # release everything before / between / after its copy and its decrement.  Every binary
        # schedule prefix (round-robin afterwards) for a few two-thread programs, ternary for three threads.
        fam = []
        ln2, ln3 = (8, 5) if quick else (11, 7)
        for p in ["Qx,-", "Qx,Q", "Ky,c", "qz,K"]:
            for code in range(2 ** ln2):
                fam.append(f"conc {p} {','.join(str((code >> j) & 1) for j in range(ln2))}")
        for p in ["Qx,Q,K", "qz,Kx,-"]:
            for code in range(3 ** ln3):
                fam.append(f"conc {p} {','.join(str((code // 3 ** j) % 3) for j in range(ln3))}")
        for i, ch in enumerate([fam[j:j + 64] for j in range(0, len(fam), 64)]):
            cs.append([f"case concu{i}"] + ch)
        # construction from the raw pointer of a fresh object by 2 / 3 threads: every schedule prefix
        rr = ["case rawrace"]
        for code in range(2 ** 6):
            rr.append(f"rawrace 2 {','.join(str((code >> j) & 1) for j in range(6))}")
        for code in range(3 ** (4 if quick else 6)):
            rr.append(f"rawrace 3 {','.join(str((code // 3 ** j) % 3) for j in range(4 if quick else 6))}")
        cs.append(rr)
        st = ["case stress"]
        for i in range(3 if quick else 12):
            st.append(f"stress {rng.choice([2, 3, 3])} {5000 if quick else 40000} {rng.randrange(1 << 30)}")
        cs.append(st)
        return cs

    def nontrivial(self, case, answers):
        if len(case) < 2:
            return None
        if case[1].startswith(("conc", "stress", "rawrace")):
            ok = False
            for op, a in zip(case[1:], answers[1:]):
                ev = a.split(" ; ")[0].split()
                d = [e for e in ev if e.endswith(":del")]
                if d and ev and ev[0].split(":")[0] != d[0].split(":")[0]:
                    ok = True
            return ("conc", tuple(case[1:])) if ok else None
        alias = cloned = destroyed = False
        prev_h, prev_no = ["-"] * NH, 0
        for op, a in zip(case[1:], answers[1:]):
            parts = a.split(" ; ")
            if len(parts) != 4:
                continue
            hs = parts[1][3:-1].split(",")
            objs = [x for x in parts[2][3:-1].split(",") if x]
            t = op.split()
            if t[0] in ("assign", "massign") and len(t) == 3:
                x, y = int(t[1]), int(t[2])
                if prev_h[x] == prev_h[y] and prev_h[x].startswith("o"):
                    alias = True
            if t[0] == "unify" and len(objs) > prev_no:
                cloned = True
            if any(o.startswith("X") for o in objs):
                destroyed = True
            prev_h, prev_no = hs, len(objs)
        return ("seq", tuple(case[1:])) if (alias and cloned and destroyed) else None

    def extra_coverage(self, ctx, res):
        return {"tsan_stage": self.tsan or "thorough tier only"}


SPEC = C12()
