"""C17 — LruCacheSet/LruCacheMap evict in true LRU order; SplayTree is a correct ordered (multi)set."""
import random
import re

from vlib import flow

KU = 12


def gen_lru_case(rng, cid, nops):
    is_map = rng.random() < 0.6
    kt = rng.choice(["int", "str", "str", "mk", "mk"])     # std::string and move-sensitive keys/values
    lines = [f"case l{cid}", f"cfg {'lrumap' if is_map else 'lruset'} {kt}"]
    nkeys = rng.choice([2, 3, 5, 8, KU])
    size = 0
    present = set()
    val = 0
    for _ in range(nops):
        k = rng.randrange(nkeys)
        r = rng.random()
        if r < 0.30:
            val += 1
            lines.append(f"put {k} {val}" if is_map else f"put {k}")
            present.add(k)
        elif r < 0.45:
            lines.append(f"touch {k}")                      # throws when absent
        elif r < 0.52:
            lines.append(f"touchif {k}")
        elif r < 0.60:
            lines.append(f"erase {k}")
            present.discard(k)
        elif r < 0.66:
            lines.append(f"eraseif {k}")
            present.discard(k)
        elif r < 0.76 and is_map:
            lines.append(f"{rng.choice(['get', 'gettouch'])} {k}")
        elif r < 0.88:
            if present:
                lines.append("pop")
                present = None                               # which key left depends on the history
            else:
                lines.append("size")
        elif r < 0.93:
            lines.append(f"exists {rng.randrange(-1, KU + 1)}")
        elif r < 0.96:
            lines.append("clear")
            present = set()
        else:
            lines.append("size")
        if present is None:
            # resync cheaply: the generator tracks recency itself
            present = _lru_replay(lines)
    return lines


def _lru_replay(lines):
    """the generator's own recency list (to know whether pop is allowed)"""
    lst = []
    for l in lines[2:]:
        t = l.split()
        op = t[0]
        k = int(t[1]) if len(t) > 1 else None
        if op == "put":
            if k in lst:
                lst.remove(k)
            lst.insert(0, k)
        elif op in ("touch", "touchif", "gettouch"):
            if k in lst:
                lst.remove(k)
                lst.insert(0, k)
        elif op in ("erase", "eraseif"):
            if k in lst:
                lst.remove(k)
        elif op == "pop":
            if lst:
                lst.pop()
        elif op == "clear":
            lst = []
    return set(lst)


def gen_splay_case(rng, cid, nops):
    multi = rng.random() < 0.55
    cmp = rng.choice(["less", "less", "greater"])
    kt = rng.choice(["int", "mk"])
    lines = [f"case s{cid}", f"cfg splay {'multi' if multi else 'set'} {cmp} {kt}"]
    nkeys = rng.choice([2, 3, 4, 6, KU])
    count = 0          # exact number of stored keys (tracked through a multiset)
    ms = {}
    for _ in range(nops):
        k = rng.randrange(nkeys)
        r = rng.random()
        if r < 0.36:
            lines.append(f"insert {k}")
            if multi or ms.get(k, 0) == 0:
                ms[k] = ms.get(k, 0) + 1
                count += 1
        elif r < 0.56:
            lines.append(f"erase {k}")
            if ms.get(k, 0) > 0:
                ms[k] -= 1
                count -= 1
        elif r < 0.70:
            lines.append(f"exists {rng.randrange(-1, nkeys + 1)}")
        elif r < 0.80:
            lines.append(f"find {rng.randrange(-1, nkeys + 1)}")
        elif r < 0.84:
            lines.append("clear")
            ms = {}
            count = 0
        elif r < 0.89:
            lines.append("trav")
        elif r < 0.93:
            lines.append("check")
        elif r < 0.96 and count >= 2:
            lines.append("checkneg")
        else:
            lines.append(rng.choice(["size", "empty"]))
    return lines


def gen_dup_chain_case(rng, cid):
    """multiset with >= 4 copies of one key, other keys interleaved, then the copies are erased one by one"""
    cmp = rng.choice(["less", "greater"])
    lines = [f"case c{cid}", f"cfg splay multi {cmp} {rng.choice(['int', 'mk'])}"]
    k = rng.randrange(1, KU - 1)
    copies = rng.randint(4, 9)
    others = [x for x in range(KU) if x != k]
    for i in range(copies):
        lines.append(f"insert {k}")
        for _ in range(rng.randint(0, 2)):
            o = rng.choice(others)
            lines.append(rng.choice([f"insert {o}", f"exists {o}", f"find {o}", f"erase {o}"]))
    lines.append("trav")
    for i in range(copies + 1):
        if rng.random() < 0.5:
            lines.append(rng.choice([f"exists {rng.choice(others)}", f"find {rng.randrange(-1, KU + 1)}", f"insert {rng.choice(others)}"]))
        lines.append(f"erase {k}")
        if rng.random() < 0.3:
            lines.append("check")
    lines.append("trav")
    lines.append(f"exists {k}")
    return lines


def exhaustive_splay(multi, cmp, nkeys, length):
    """all histories of the given length over insert/erase/exists of `nkeys` keys (+ clear)"""
    alphabet = [f"{o} {k}" for o in ("insert", "erase", "exists") for k in range(nkeys)] + ["clear"]
    cases = []

    def rec(prefix):
        if len(prefix) == length:
            cases.append([f"case x{len(cases)}", f"cfg splay {'multi' if multi else 'set'} {cmp}"] + prefix + ["trav"])
            return
        for a in alphabet:
            rec(prefix + [a])
    rec([])
    return cases


class C17(flow.Spec):
    pid = "C17"
    source_files = ("tlx/container/lru_cache.hpp", "tlx/container/splay_tree.hpp")
    harness = dict(name="c17", sources=["c17.cpp"])
    nontrivial_rule = ("random histories from VERIF_SEED over a key universe of 2..12 keys; an LRU case is non-trivial when "
                       "it contains a pop after a touch/get_touch of a present key and a thrown range_error; a splay case "
                       "when it erases a present key from a tree of >= 3 nodes and continues after a clear(); "
                       "distinct = distinct operation sequences")
    assumptions = [
        "std::list / std::unordered_map meet their contracts (the iterator stored for a key designates that key's list node: "
        "observed through the dump, proved as an invariant of the model)",
        "splay tree: pointer linkage and node identity are not modelled (trees are inductive values); frees are a ledger of counts",
        "Compare is a strict weak order (std::less<int> / std::greater<int> in the harness)",
    ]
    trusted_base = ["Lean 4 kernel", "axioms: propext, Quot.sound, Classical.choice at most (audited per theorem)",
                    "hand-written models TlxVerif/Model/C17*.lean tied to lru_cache.hpp / splay_tree.hpp by the line-protocol "
                    "correspondence on list_/map_ and on the tree shape under root_ (harness/c17.cpp, ASan+UBSan, node ledger)"]

    def viol_class(self, message):
        return re.sub(r"-?[0-9]+", "N", " ".join(message.split(" after ")[0].split()[:7]))[:90]

    def cases(self, ctx, seed, tier, round_no=0):
        rng = random.Random(seed * 1000003 + round_no * 7919 + 17)
        n = 500 if tier == "quick" else 40000
        deep_quick = tier == "thorough" and getattr(ctx, "tier", tier) == "quick"
        if deep_quick:
            n = 4000       # quick run validating changed sources in depth: bounded
        cs = []
        for i in range(n):
            cs.append(gen_lru_case(rng, i, rng.choice([6, 15, 30, 60])))
        for i in range(n + n // 2):
            cs.append(gen_splay_case(rng, i, rng.choice([6, 15, 30, 60, 100])))
        for i in range(60 if tier == "quick" else (400 if deep_quick else 3000)):
            cs.append(gen_dup_chain_case(rng, i))
        if round_no == 0:
            # small exhaustive enumerations (quick: length 4 over 2 keys; thorough: length 5 over 2 keys, 4 over 3)
            for multi in (False, True):
                cs += exhaustive_splay(multi, "less", 2, 4 if (tier == "quick" or deep_quick) else 5)
                if tier != "quick" and not deep_quick:
                    cs += exhaustive_splay(multi, "greater", 3, 4)
        return cs

    def probe_lines(self, case, idx):
        """observations that turn a structural disagreement into a visible failure of the property"""
        kind = case[0].split()[1][0]
        if kind == "l":
            return ["size"] + [f"exists {k}" for k in range(-1, KU + 1)] + ["pop"] * (KU + 2) + ["size"]
        return ["trav", "size", "check"] + [f"exists {k}" for k in range(-1, KU + 1)] + ["trav", "clear", "size"]

    def nontrivial(self, case, answers):
        kind = case[0].split()[1][0]
        ops = case[2:]
        ans = answers[2:]
        if kind == "l":
            threw = any(a.startswith("range_error") for a in ans)
            touched = False
            for op, a in zip(ops, ans):
                if op.split()[0] in ("touch", "gettouch", "touchif") and not a.startswith(("range_error", "0 ;")):
                    touched = True
                if touched and op == "pop" and not a.startswith("bad-op"):
                    return ("l", tuple(ops)) if threw else None
            return None
        if kind in "xc":
            return None
        erased_big = False
        cleared = False
        prev_n = 0
        for op, a in zip(ops, ans):
            m = re.search(r" n=([0-9]+) ", a)
            n = int(m.group(1)) if m else prev_n
            if op.startswith("erase") and a.startswith("1 ;") and prev_n >= 3:
                erased_big = True
            if op == "clear" and prev_n > 0:
                cleared = True
            elif cleared and erased_big and op.startswith("insert"):
                return ("s", tuple(ops))
            prev_n = n
        return None


SPEC = C17()
