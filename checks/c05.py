"""C05 — multiway_merge emits the smallest elements in order, stably, advancing inputs."""
import os
import random
import subprocess
import sys

from vlib import core, flow

ENTRIES = ["mm", "smm", "mms", "smms", "b00", "b10", "b01", "b11"]
ALGOS = ["lt", "ltc", "lts", "bub", "def"]


def top_key(mode, keys, rng):
    """a sentinel key strictly greater than all keys under `mode`"""
    if mode == "lt":
        return (max(keys) if keys else 0) + rng.choice([1, 1, 2, 7])
    if mode == "gt":
        return (min(keys) if keys else 5) - 1          # keys are >= 1 in gt mode
    return (((max(keys) if keys else 0) >> 2) + 1) * 4 + rng.randrange(4)


def gen_seqs(rng, k, mode):
    style = rng.choice(["dups", "dups", "wide", "dominant", "tiny", "allequal"])
    lo = 1 if mode == "gt" else 0
    seqs = []
    for i in range(k):
        if style == "tiny":
            n = rng.choice([0, 0, 1, 1, 2])
        elif style == "dominant":
            n = rng.choice([0, 1, 2]) if i != (k // 2) else rng.randint(5, 12)
        else:
            n = rng.choice([0, 0, 1, 2, 3, 4, 6])
        if style == "allequal":
            q = [lo + 1] * n
        elif style == "wide":
            q = [lo + rng.randrange(40) for _ in range(n)]
        else:
            q = [lo + rng.randrange(rng.choice([2, 3, 4])) for _ in range(n)]
        if mode == "q4" and rng.random() < 0.7:
            q = [x * 2 + rng.randrange(2) for x in q]
        if mode == "q4":
            q.sort(key=lambda x: x >> 2)
            # equivalent keys may appear in any order inside a sorted sequence
        else:
            q.sort(reverse=(mode == "gt"))
        seqs.append(q)
    return seqs


def line_for(entry, algo, elem, mode, ln, seqs, rng):
    allk = [x for q in seqs for x in q]
    sen = "-"
    if entry in ("mms", "smms", "b01", "b11"):
        sen = str(top_key(mode, allk, rng))
    return (f"merge {entry} {algo} {elem} {mode} {ln} {sen} " +
            " ".join(",".join(map(str, q)) if q else "-" for q in seqs)).rstrip()


def gen_case(rng, cid, k=None, entry=None, algo=None):
    """one input (k sequences), merged by several entry points / algorithms / lengths"""
    if k is None:
        k = rng.choice(list(range(0, 10)) + [3, 4, 5, 5, 6, 8, 9])
    mode = rng.choice(["lt", "lt", "gt", "q4"])
    seqs = gen_seqs(rng, k, mode)
    total = sum(len(q) for q in seqs)
    lines = [f"case {cid}"]
    n_ops = rng.choice([4, 8, 12])
    if total <= 8 and rng.random() < 0.5:
        lens = list(range(total + 1))
    else:
        lens = sorted(set([0, total] + [rng.randint(0, total) for _ in range(3)] + ([1, total - 1] if total > 1 else [])))
    for _ in range(n_ops):
        e = entry or rng.choice(ENTRIES)
        a = algo or rng.choice(ALGOS)
        el = rng.choice(["e8", "e40", "e8", "e40", "d8", "d40"])
        ln = rng.choice(lens)
        lines.append(line_for(e, a, el, mode, ln, seqs, rng))
    return lines


def all_configs_case(rng, cid, k):
    """every entry point x algorithm x element size on one input, at one length each"""
    mode = rng.choice(["lt", "gt", "q4"])
    seqs = gen_seqs(rng, k, mode)
    total = sum(len(q) for q in seqs)
    lines = [f"case {cid}"]
    for e in ENTRIES:
        for a in ALGOS:
            for el in ("e8", "e40", rng.choice(["d8", "d40"])):
                lines.append(line_for(e, a, el, mode, rng.randint(0, total), seqs, rng))
    return lines


def all_lengths_case(rng, cid, k, entry, algo, elem):
    mode = rng.choice(["lt", "gt", "q4"])
    seqs = gen_seqs(rng, k, mode)
    total = sum(len(q) for q in seqs)
    lines = [f"case {cid}"]
    for ln in range(total + 1):
        lines.append(line_for(entry, algo, elem, mode, ln, seqs, rng))
    return lines


def huge_case(rng, cid, k, algo, elem, style):
    """more sequences than a 14-/16-bit index can count (loser tree index types, `Source`)"""
    mode = rng.choice(["lt", "gt"])
    lo = 1 if mode == "gt" else 0
    if style == "ones":            # one-element sequences, a few empty ones
        seqs = [[lo + rng.randrange(50)] if rng.random() < 0.97 else [] for _ in range(k)]
    else:                          # empty-heavy: about 40 non-empty sequences anywhere
        seqs = [[] for _ in range(k)]
        for _ in range(40):
            i = rng.randrange(k) if rng.random() < 0.7 else k - 1 - rng.randrange(min(k, 8))
            seqs[i] = sorted([lo + rng.randrange(6) for _ in range(rng.randint(1, 3))], reverse=(mode == "gt"))
    # the smallest elements sit in the last sequences: a truncated sequence count is visible at once
    for i in range(k - 3, k):
        seqs[i] = [lo + 60] if mode == "gt" else [lo]
    if mode == "gt":
        pass
    total = sum(len(q) for q in seqs)
    lines = [f"case {cid}"]
    for entry in (["smm", "mm"] if algo != "lts" else ["smms", "mms"]):
        ln = rng.choice([7, 20, min(total, 45)])
        lines.append(line_for(entry, algo, elem, mode, min(ln, total), seqs, rng))
    return lines


def gen_all(seed, tier, round_no=0):
    rng = random.Random(seed * 1000003 + round_no * 13 + 5)
    cs = []
    cid = 0
    reps = 1 if tier == "quick" else 6
    for _ in range(reps):
        for k in range(0, 10):
            cs.append(all_configs_case(rng, f"a{cid}", k)); cid += 1
        for k in range(0, 10):
            for e in ENTRIES:
                a = rng.choice(ALGOS)
                cs.append(all_lengths_case(rng, f"l{cid}", k, e, a, rng.choice(["e8", "e40"]))); cid += 1
    n = 3000 if tier == "quick" else 100000
    for _ in range(n):
        cs.append(gen_case(rng, f"g{cid}")); cid += 1
    # beyond the stated k range: more players than 9 (several loser tree levels, padding players),
    # and more than 16 sequences with heavy ties (std::sort is a stable insertion sort up to 16)
    for _ in range(60 if tier == "quick" else 4000):
        cs.append(gen_case(rng, f"b{cid}", k=rng.choice([10, 11, 12, 15, 16, 17, 20, 31, 32, 33]))); cid += 1
    for e in ENTRIES:
        for a in ALGOS:
            for _ in range(1 if tier == "quick" else 12):
                cs.append(ties_case(rng, f"t{cid}", rng.choice([17, 18, 24, 33, 48, 64]), e, a)); cid += 1
    # index types: k > 2^14 and k > 2^16 sequences
    if tier == "quick":
        if round_no == 0:
            cs.append(huge_case(rng, f"h{cid}", 65541, "lt", "e8", "sparse")); cid += 1
    else:
        for k in (16385, 40000, 65541, 70000):
            for algo, elem, style in (("lt", "e8", "ones"), ("lt", "e40", "sparse"), ("ltc", "e8", "sparse"),
                                      ("ltc", "e40", "ones"), ("lts", "e8", "sparse"), ("bub", "e8", "sparse")):
                if round_no == 0 or rng.random() < 0.25:
                    cs.append(huge_case(rng, f"h{cid}", k, algo, elem, style)); cid += 1
    return cs


def ties_case(rng, cid, k, entry, algo):
    """17..64 non-empty sequences whose heads tie heavily"""
    mode = rng.choice(["lt", "gt", "q4"])
    lo = 1 if mode == "gt" else 0
    seqs = []
    for i in range(k):
        n = rng.choice([1, 1, 2, 3])
        q = [lo + rng.randrange(2) for _ in range(n)]
        if mode == "q4":
            q = [x * 4 + rng.randrange(4) for x in q]
            q.sort(key=lambda x: x >> 2)
        else:
            q.sort(reverse=(mode == "gt"))
        seqs.append(q)
    total = sum(len(q) for q in seqs)
    lines = [f"case {cid}"]
    for ln in sorted(set([total, rng.randint(1, total), k, min(total, k + 3)])):
        lines.append(line_for(entry, algo, rng.choice(["e8", "e40"]), mode, ln, seqs, rng))
    return lines


class C05(flow.Spec):
    pid = "C05"
    case_timeout = 900
    source_files = ("tlx/algorithm/multiway_merge.hpp", "tlx/algorithm/merge_advance.hpp",
                    "tlx/container/loser_tree.hpp")
    harness = dict(name="c05", sources=["c05.cpp"])
    extra_lean_sources = ("TlxVerif/Model/C09LoserTree.lean", "TlxVerif/Model/C05Tables.lean", "TlxVerif/Proofs/C09Path.lean",
                          "TlxVerif/Proofs/C09Tournament.lean", "TlxVerif/Proofs/C09Orders.lean",
                          "TlxVerif/Proofs/C09Inv.lean", "TlxVerif/Proofs/C09Start.lean",
                          "TlxVerif/Props/C09.lean", "TlxVerif/Gen/C09Types.lean")
    nontrivial_rule = ("a case = one tuple of sorted sequences (k in 0..9, empties anywhere, heavy duplicates, one "
                       "dominant sequence, all-equal) merged by several entry points x algorithms x element sizes x "
                       "lengths; non-trivial when k >= 3, some key occurs in two different sequences and at least one "
                       "merge has 0 < len < total; distinct = distinct operation lists")
    assumptions = [
        "iterators are modelled as positions in lists; std::copy / std::lower_bound / std::upper_bound meet their "
        "standard contracts on sorted ranges",
        "the comparator is a strict weak order and every input sequence is sorted by it; len <= total size",
        "*_sentinels entry points: every sequence is followed by an element greater than all real ones",
        "element copies/assignments are value copies (no user-defined side effects)",
        "LoserTree copy/pointer selection by sizeof is represented by the `copy` flag (8-byte vs 40-byte elements in the harness)",
    ]
    trusted_base = ["Lean 4 kernel", "axioms: propext, Quot.sound, Classical.choice at most (audited per theorem)",
                    "translator tools/c05_extract.py (macro bodies, rows, entry decision trees of the 3-/4-way merges "
                    "-> Gen/C05MergeTables.lean, regenerated on every run)",
                    "hand-written model TlxVerif/Model/C05Merge.lean (+ C09LoserTree.lean) tied to multiway_merge.hpp / "
                    "merge_advance.hpp by the line-protocol correspondence on output, returned iterator and advanced "
                    "begins (harness/c05.cpp, ASan+UBSan, exactly-sized buffers)"]

    def translator(self, ctx):
        probs = []
        for tool, gen in (("c05_extract.py", "C05MergeTables.lean"), ("c09_types.py", "C09Types.lean")):
            out = os.path.join(core.LEAN, "TlxVerif", "Gen", gen)
            rc, o, e = core.sh([sys.executable, os.path.join(core.VERIF, "tools", tool), core.REPO, out])
            if rc != 0:
                probs.append(f"translator tools/{tool}: " + (e.strip() or o.strip() or f"rc={rc}"))
        return probs

    def cases(self, ctx, seed, tier, round_no=0):
        return gen_all(seed, tier, round_no)

    def viol_class(self, message):
        import re
        return re.sub(r"[0-9]+(:[0-9]+:[0-9]+)?", "N", message.split("[")[0])[:70]

    def nontrivial(self, case, answers):
        ops = [l.split() for l in case[1:]]
        if not ops:
            return None
        seqs = ops[0][7:]
        if len(seqs) < 3:
            return None
        keysets = [set(q.split(",")) for q in seqs if q != "-"]
        shared = any(a & b for i, a in enumerate(keysets) for b in keysets[i + 1:])
        total = sum(len(q.split(",")) for q in seqs if q != "-")
        partial = any(0 < int(o[5]) < total for o in ops)
        return tuple(case[1:]) if (shared and partial) else None


SPEC = C05()


if __name__ == "__main__":
    # stand-alone: run the harness' direct oracle only (no model), `python3 checks/c05.py <harness> <seed> <tier>`
    hb, seed, tier = sys.argv[1], int(sys.argv[2]), sys.argv[3]
    cases = gen_all(seed, tier)
    r = core.correspondence(None, [hb, "run"], None, cases, need_driver=False)
    print(len(cases), "cases", r.ops, "ops", len(r.viol), "viol", len(r.crash), "crash")
    seen = set()
    for c, m in r.viol[:2000]:
        key = m.split("[")[0][:60]
        if key in seen:
            continue
        seen.add(key)
        print(m)
    for c, rc, err in r.crash[:3]:
        print("CRASH", rc, err[-1500:])
        print("\n".join(c[:3]))
