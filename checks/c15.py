"""C15 — the three sorting-network families sort every input of up to 16 elements.

A  translator: tools/c15_extract_networks.cpp is compiled against TLX_REPO on every run and
   records the comparator sequence of every entry point -> lean/TlxVerif/Gen/C15Networks.lean;
   best.hpp is additionally parsed textually and compared with the recorded `best direct` rows.
B  Lean: zero-one principle + bit-parallel soundness (proved once), `decide +kernel` per table.
C  correspondence: the real entry points vs the model on random inputs (exact output incl. the
   position tags) and on ALL 2^n zero-one inputs (bit-parallel signature), n = 0..16.
D  search: `c15 zofails` enumerates every zero-one input on the real code; each failing input
   becomes a `run` case whose oracle violation is the replay.
"""
import os
import random
import re

from vlib import core, flow

FAMILIES = ["best", "bose_nelson", "bose_nelson_parameter"]
ENTRIES = ["direct", "dispatch"]
KINDS = ["ptr", "rev", "deque", "stride"]
# comparator carriers (pointer runs): std::function lvalue / temporary, heap-owning move-sensitive comparator object
# lvalue / temporary / default-constructed; rk = order by the object's rank table
CARRIER_ORDS = ["fn-lt", "fn-gt", "fnt-q4", "fnt-lt", "own-rk", "own-q4", "ownt-rk", "ownt-gt", "own-lt", "fp-lt", "fp-q4", "fp-gt"]
# named compare-exchange objects (direct entry points only): built from a temporary comparator, factory-returned,
# heap object from a scoped local comparator, implicit conversion to std::function, default-constructed
NAMED_ORDS = ["nown-rk", "nown-q4", "fact-rk", "fact-gt", "scop-rk", "scop-lt", "fconv-lt", "fconv-q4"]
GEN = os.path.join(core.LEAN, "TlxVerif", "Gen", "C15Networks.lean")


def entry_exists(entry, n):
    return (2 <= n <= 16) if entry == "direct" else (0 <= n <= 16)


def parse_best_hpp():
    """textual reading of best.hpp: {N: [(i,j), ...]} from the bodies of `sortN`"""
    src = core.repo_file("tlx/sort/networks/best.hpp")
    res = {}
    for m in re.finditer(r"static\s+void\s+sort(\d+)\s*\(\s*Iterator\s+a\s*,[^{;]*?\)\s*\{(.*?)\n\}", src, re.S):
        body = re.sub(r"//[^\n]*", "", m.group(2))
        stmts = [s.strip() for s in body.split(";") if s.strip()]
        pairs = []
        ok = True
        for s in stmts:
            mm = re.fullmatch(r"cswap\(\s*a\[(\d+)\]\s*,\s*a\[(\d+)\]\s*\)", s)
            if not mm:
                ok = False
                break
            pairs.append((int(mm.group(1)), int(mm.group(2))))
        if ok:
            res[int(m.group(1))] = pairs
    return res


class C15(flow.Spec):
    pid = "C15"
    max_reports = 3
    nontrivial_rule = ("a `run` case is non-trivial when n >= 2 and the real code moved at least one element "
                       "(output tag order differs from the input order); a `zo` case (all 2^n zero-one inputs of one "
                       "entry point, n >= 2) always is; distinct = distinct case texts")
    assumptions = [
        "element moves are std::swap on the array slots; comparator calls are cmp(right,left) exactly as in cswap.hpp "
        "(three lines, modelled by hand as `cswap`); user-supplied CSwap functors other than CS_IfSwap are outside the property",
        "the comparator is a strict weak order in the sense of C++ [alg.sorting]/4 and has no side effects",
        "sizes above 16 abort() by design (modelled as `none`, not exercised on the real code)",
        "iterator arithmetic of random-access iterators (a[i], a + k) is pointer arithmetic",
    ]
    trusted_base = [
        "Lean 4 kernel incl. its GMP-backed Nat.land/lor/shiftLeft/pow (used by `decide +kernel` on the generated tables)",
        "axioms: propext, Quot.sound, Classical.choice at most (audited per theorem)",
        "translator tools/c15_extract_networks.cpp: records (index of left, index of right) of every comparator call made "
        "through tlx's own CS_IfSwap on several inputs (obliviousness checked), cross-checked against a textual parse of best.hpp",
        "correspondence harness/c15.cpp (ASan+UBSan): exact outputs on random inputs and the bit-parallel signature of all "
        "2^n zero-one inputs of every entry point agree with the model that the theorems are about",
    ]

    def __init__(self):
        self._no_default = None
        self._extracted = {}

    # ------------------------------------------------------------------ harness (lazy: needs the compile probe)
    def _probe_default(self):
        """do the documented default-argument forms `sortN(a)` / `sort(a, b)` compile?"""
        if self._no_default is None:
            work = os.path.join(core.BUILD, "C15")
            os.makedirs(work, exist_ok=True)
            rc, o, e = core.sh([core.CXX, "-std=gnu++17", "-fsyntax-only", "-I" + core.REPO,
                                "-I" + os.path.join(core.VERIF, "harness"),
                                os.path.join(core.VERIF, "harness", "c15_default_probe.cpp")], timeout=600)
            self._no_default = (rc != 0)
            self._probe_log = (o + e)
        return self._no_default

    @property
    def harness(self):
        flags = ["-DC15_NO_DEFAULT"] if self._probe_default() else []
        # -g1: the harness instantiates every entry point for four iterator kinds; full debug info doubles the build time
        return dict(name="c15", sources=["c15.cpp"], flags=flags,
                    std_flags=["-std=gnu++17", "-O1", "-g1", "-fsanitize=address,undefined",
                               "-fno-sanitize-recover=all", "-fno-omit-frame-pointer"])

    # ------------------------------------------------------------------ A translator
    def translator(self, ctx):
        probs = []
        # compiled against the working tree; cached by the content hash of tlx/, the tool and the shared entry header
        # (an edit to any of them recompiles, exactly like the harness)
        import hashlib
        h = hashlib.sha256(core.repo_hash().encode())
        for fn in (os.path.join(core.VERIF, "tools", "c15_extract_networks.cpp"), os.path.join(core.VERIF, "harness", "c15_entry.hpp")):
            h.update(open(fn, "rb").read())
        exe = os.path.join(ctx.work, "extract-" + h.hexdigest()[:16])
        if not os.path.exists(exe):
            for old in os.listdir(ctx.work):
                if old.startswith("extract-"):
                    os.remove(os.path.join(ctx.work, old))
            rc, o, e = core.sh([core.CXX, "-std=gnu++17", "-O1", "-I" + core.REPO,
                                os.path.join(core.VERIF, "tools", "c15_extract_networks.cpp"), "-o", exe + ".tmp"], timeout=900)
            if rc != 0:
                return ["extractor does not compile against the tree: " + (o + e)[-1500:]]
            os.replace(exe + ".tmp", exe)
        tmp = os.path.join(ctx.work, "C15Networks.lean.new")
        if os.path.exists(tmp):
            os.remove(tmp)
        rc, out, err = core.sh([exe, tmp], timeout=300)
        if rc != 0:
            probs.append("extractor failed (entry point missing, access outside the sequence, output not a permutation, "
                         "input- or iterator-dependent comparator trace): " + err.strip()[:900])
        for l in out.splitlines():
            t = l.split()
            if len(t) >= 3:
                self._extracted[(t[0], t[1], int(t[2]))] = [tuple(int(x) for x in p.split(":")) for p in t[3:]]
        if os.path.exists(tmp):
            new = open(tmp).read()
            old = open(GEN).read() if os.path.exists(GEN) else None
            if new != old:
                with open(GEN, "w") as f:
                    f.write(new)
                ctx.say("translator: Gen/C15Networks.lean changed (regenerated from the tree)")
        # the model driver only needs the tables; build it on its own so that it is current even
        # when a table theorem of Props/C15 no longer checks
        ok, log = core.lean_build(ctx, ["drv_c15"])
        if not ok:
            probs.append("model driver does not build: " + " | ".join(core.lean_failed_decls(log))[:600])
        # textual cross-check of best.hpp (an independent reading of the same source)
        txt = parse_best_hpp()
        checked = 0
        for n in range(2, 17):
            if n in txt and ("best", "direct", n) in self._extracted:
                checked += 1
                if txt[n] != self._extracted[("best", "direct", n)]:
                    probs.append(f"best.hpp sort{n}: textual comparator list differs from the recorded one "
                                 f"(text {txt[n][:6]}… recorded {self._extracted[('best', 'direct', n)][:6]}…)")
        ctx.say(f"translator: {len(self._extracted)} comparator sequences recorded, {checked} of best.hpp confirmed textually")
        self._text_checked = checked
        if self._probe_default():
            probs.append("the documented default forms sortN(a) / sortN(x0,…) [CSwap cswap = CSwap()] do not compile: "
                         + " | ".join(l for l in self._probe_log.splitlines() if "error" in l)[:600])
        return probs

    # ------------------------------------------------------------------ generators
    def _keys(self, rng, n):
        k = rng.random()
        if k < 0.25:
            v = list(range(n)); rng.shuffle(v)
        elif k < 0.45:
            v = [rng.randrange(2) for _ in range(n)]
        elif k < 0.65:
            v = [rng.randrange(max(1, n // 3) + 1) for _ in range(n)]
        elif k < 0.75:
            v = sorted(rng.randrange(20) for _ in range(n))
            if rng.random() < 0.5:
                v.reverse()
        elif k < 0.9:
            v = [rng.randrange(-12, 12) for _ in range(n)]
        else:
            v = [rng.choice([-2**62, 2**62, 0, -1, 1, 2**31, -2**31]) for _ in range(n)]
        return v

    def cases(self, ctx, seed, tier, round_no=0):
        rng = random.Random(seed * 1000003 + round_no * 7919 + 15)
        cs = []
        orders = ["lt", "gt", "q4"] + ([] if self._probe_default() else ["def"])
        carrier_ords = CARRIER_ORDS + ([] if self._probe_default() else ["ownd"])
        if round_no == 0:
            # every family x entry point x n with every comparator carrier (a moved-from functor only matters where a
            # network hands its cswap on twice, e.g. sort16 = sort8, sort8, merge8_8)
            for f in FAMILIES:
                for e in ENTRIES:
                    lines = [f"case carriers-{f}-{e}"]
                    for n in range(17):
                        if not entry_exists(e, n):
                            continue
                        sweep = ["fn-lt", "fnt-q4", "own-rk", "ownt-rk", "own-lt", "fp-q4"] + ([] if self._probe_default() else ["ownd"])
                        if e == "direct":
                            sweep += ["nown-rk", "fact-rk", "scop-q4", "fconv-lt", "fp-gt"] + ([] if self._probe_default() else ["dnam"])
                        for o in sweep:
                            ks = self._keys(rng, n)
                            lines.append(f"run {f} {e} {n} {o} " + (",".join(map(str, ks)) if ks else "-"))
                    cs.append(lines)
        if round_no == 0:
            # every zero-one input of every entry point (the quantifier of the property after the
            # zero-one principle) — cheap enough for both tiers
            # … through every iterator kind (pointer, reverse_iterator over an inner slice, deque across a block
            # boundary, user-defined strided iterator); elements carry tags in these runs too (permfails)
            for kind in KINDS:
                for f in FAMILIES:
                    for e in ENTRIES:
                        for n in range(17):
                            if entry_exists(e, n):
                                cs.append([f"case zo-{kind}-{f}-{e}-{n}", f"zo {f} {e} {n}" + ("" if kind == "ptr" else " " + kind)])
            # search on the real code: failing zero-one inputs become `run` cases
            hb, _ = core.build_harness(ctx, **self.harness)
            if hb:
                rc, out, err = core.sh([hb, "zofails", "2"], timeout=1200, env=core.SAN_ENV)
                fails = [l for l in out.splitlines() if l.startswith(("run ", "runi "))]
                if rc != 0:
                    cs.append(["case zofails-crashed"] + fails[-1:])
                for i, l in enumerate(fails[:40]):
                    cs.append([f"case zofail{i}", l])
                self._zofails = len(fails)
        ncases = 400 if tier == "quick" else 30000
        for i in range(ncases):
            lines = [f"case r{round_no}-{i}"]
            for _ in range(8):
                f = rng.choice(FAMILIES)
                e = rng.choice(ENTRIES)
                n = rng.choice([0, 1, 2, 3, 4, 5, 6, 7, 8, 9, 10, 11, 12, 13, 14, 15, 16, 13, 16, 16])
                if not entry_exists(e, n):
                    e = "dispatch"
                o = rng.choice(orders)
                ks = self._keys(rng, n)
                head = "run" if rng.random() < 0.45 else f"runi {rng.choice(KINDS)} {rng.randrange(16)}"
                if head == "run" and rng.random() < 0.5:
                    o = rng.choice(carrier_ords + (NAMED_ORDS + ([] if self._probe_default() else ["dnam"]) if e == "direct" else []))
                lines.append(f"{head} {f} {e} {n} {o} " + (",".join(map(str, ks)) if ks else "-"))
            cs.append(lines)
        return cs

    def nontrivial(self, case, answers):
        ok = False
        for op, a in zip(case[1:], answers[1:]):
            t = op.split()
            if t[0] == "zo" and int(t[3]) >= 2 and a.startswith("fails="):
                ok = True
            if t[0] == "runi":
                t = ["run"] + t[3:]
            if a.startswith("exception"):
                continue
            if t[0] == "run" and int(t[3]) >= 2 and ":" in a:
                tags = [x.rsplit(":", 1)[1] for x in a.split(",")]
                if tags != [str(i) for i in range(len(tags))]:
                    ok = True
        return tuple(case[1:]) if ok else None

    def viol_class(self, message):
        return " ".join(message.split()[:5])

    def extra_coverage(self, ctx, res):
        return {
            "networks_extracted": len(self._extracted),
            "best_hpp_textually_confirmed": getattr(self, "_text_checked", 0),
            "zero_one_inputs_enumerated_on_real_code": sum(2 ** n for e in ENTRIES for n in range(17) if entry_exists(e, n)) * 3 * len(KINDS),
            "iterator_kinds": KINDS,
            "zero_one_failures_found": getattr(self, "_zofails", None),
            "default_cswap_forms_compile": not self._probe_default(),
        }


SPEC = C15()
