"""C14 — MD5 / SHA-1 / SHA-256 / SHA-512 classes and helpers equal their standards for every message and
every chunking (raw, hex, HEX); siphash equals SipHash-2-4, portable = vectorised.

A  translator tools/c14_extract_tables.py: tables, initial states, rotation amounts, loop bounds, buffer /
   padding constants, SipHash constants and macro statements -> lean/TlxVerif/Gen/C14Tables.lean; the text of
   process()/finalize()/output forms is compared with the state machine modelled in Model/C14Class.lean and
   the straight-line helper functions with recorded normal forms.
B  Lean: Props/C14.lean (+ Audit).
C  correspondence: harness/c14.cpp (real code, private members exposed: curlen_/length_/state_/buf_ after
   every process() call) vs lean/Driver/C14.lean (model), same lines.
D  oracle: Python hashlib (md5, sha1, sha256, sha512) and the independent SipHash-2-4 below; the expected value
   travels on the op line, the harness compares (`#VIOL`), and the Lean *specification* is compared with the
   same expected value in `compare` (validation of the transcribed standards).
"""
import hashlib
import importlib.util
import os
import random

from vlib import core, flow

GEN = os.path.join(core.LEAN, "TlxVerif", "Gen", "C14Tables.lean")
ALGOS = ["md5", "sha1", "sha256", "sha512"]
BLOCK = {"md5": 64, "sha1": 64, "sha256": 64, "sha512": 128}

# normal forms of the hand-transliterated straight-line code (tools/c14_extract_tables.py prints them);
# recorded from the tree the models were written against
SHAPES = {
    "hexdump": "a77076ed3e5950df", "hexdump_lc": "a77076ed3e5950df",
    "md5_F": "ed83a9069cc90311", "md5_FF": "29635dbb9100137d", "md5_G": "e44e4bc6a8f8e2c3", "md5_GG": "fe9bef634d6f433e",
    "md5_H": "604c73b83b629ce0", "md5_HH": "964533228a1fe563", "md5_I": "dad2227dce10dad5", "md5_II": "e7bf7491e0073676",
    "md5_compress": "ade0fe5c8cee9f17", "md5_load32l": "de15a1c64c5f9c13", "md5_store32l": "e90398e63163a2bd",
    "md5_store64l": "af48536021fef95d",
    "sha1_F0": "ed83a9069cc90311", "sha1_F1": "604c73b83b629ce0", "sha1_F2": "8c9de69977acb23a", "sha1_F3": "604c73b83b629ce0",
    "sha1_compress": "1bd4908b45711b43", "sha1_load32h": "abc8d57cd3400969", "sha1_store32h": "15b58c01940d7a68",
    "sha1_store64h": "3da27d4808df1c35",
    "sha256_Ch": "d81a5cc9e615f1c2", "sha256_Maj": "7975db21c684e81a", "sha256_Sh": "b09bb43c5bf7a85e",
    "sha256_compress": "dbc56bbe7f6b1eb2", "sha256_load32": "5fa6b6ee27d914fb", "sha256_store32": "15b58c01940d7a68",
    "sha256_store64": "3da27d4808df1c35",
    "sha512_Ch": "d81a5cc9e615f1c2", "sha512_Maj": "7975db21c684e81a", "sha512_Sh": "b09bb43c5bf7a85e",
    "sha512_compress": "9c29b58f2d77f333", "sha512_load64": "c32956d1f05774c6", "sha512_store64": "3da27d4808df1c35",
    "siphash_dispatch": "b215954d7455a053", "siphash_plain": "8d33693261ec8e6a", "siphash_sse2": "e65bbafc90648a79",
}


# ----------------------------------------------------------------------------- independent SipHash-2-4
def _rotl(x, b):
    return ((x << b) | (x >> (64 - b))) & 0xFFFFFFFFFFFFFFFF


def siphash24(key: bytes, data: bytes) -> int:
    """SipHash-2-4 as in the paper's §2 (written from the paper, not from tlx)."""
    M = 0xFFFFFFFFFFFFFFFF
    k0 = int.from_bytes(key[0:8], "little")
    k1 = int.from_bytes(key[8:16], "little")
    v = [k0 ^ 0x736f6d6570736575, k1 ^ 0x646f72616e646f6d, k0 ^ 0x6c7967656e657261, k1 ^ 0x7465646279746573]

    def rnd():
        v[0] = (v[0] + v[1]) & M; v[1] = _rotl(v[1], 13); v[1] ^= v[0]; v[0] = _rotl(v[0], 32)
        v[2] = (v[2] + v[3]) & M; v[3] = _rotl(v[3], 16); v[3] ^= v[2]
        v[0] = (v[0] + v[3]) & M; v[3] = _rotl(v[3], 21); v[3] ^= v[0]
        v[2] = (v[2] + v[1]) & M; v[1] = _rotl(v[1], 17); v[1] ^= v[2]; v[2] = _rotl(v[2], 32)

    b = len(data)
    padded = data + b"\x00" * (7 - b % 8) + bytes([b % 256])
    for i in range(0, len(padded), 8):
        m = int.from_bytes(padded[i:i + 8], "little")
        v[3] ^= m
        rnd(); rnd()
        v[0] ^= m
    v[2] ^= 0xff
    rnd(); rnd(); rnd(); rnd()
    return v[0] ^ v[1] ^ v[2] ^ v[3]


assert siphash24(bytes(range(16)), b"") == 0x726fdb47dd0e0e31          # paper / reference vectors
assert siphash24(bytes(range(16)), bytes(range(15))) == 0xa129ca6149be45e5


def _load_extractor():
    p = os.path.join(core.VERIF, "tools", "c14_extract_tables.py")
    spec = importlib.util.spec_from_file_location("c14_extract_tables", p)
    mod = importlib.util.module_from_spec(spec)
    spec.loader.exec_module(mod)
    return mod


BOUNDARY = [0, 1, 3, 54, 55, 56, 57, 62, 63, 64, 65, 110, 111, 112, 113, 118, 119, 120, 121, 126, 127, 128, 129,
            183, 184, 185, 191, 192, 193, 239, 240, 247, 248, 255, 256, 257, 319, 320, 383, 384]
FORMS = ["raw", "hex", "HEX", "fin", "sv-raw", "sv-hex", "sv-HEX", "ctor-raw", "ctor-hex", "ctor-HEX", "ctorsv-hex",
         "fn-hex", "fn-HEX", "fnsv-hex", "fnsv-HEX"]


def partition(rng, n, block):
    """a list of chunk sizes with sum n; biased towards the interesting shapes"""
    k = rng.random()
    if n == 0:
        return rng.choice([[], [0], [0, 0]])
    if k < 0.12:
        return [n]
    if k < 0.22 and n <= 200:
        return [1] * n
    if k < 0.34:
        step = rng.choice([block - 1, block, block + 1, 2 * block, block // 2, 7])
        out, left = [], n
        while left > 0:
            s = min(step, left); out.append(s); left -= s
        return out
    if k < 0.44:
        # fill the buffer exactly, then continue
        first = rng.randrange(1, block)
        out = [min(first, n)]
        left = n - out[0]
        if left > 0:
            s = min(block - first, left); out.append(s); left -= s
        while left > 0:
            s = min(rng.choice([block, 1, block * 2 + 3, left]), left); out.append(s); left -= s
        return out
    parts = rng.randrange(2, 9)
    cuts = sorted(rng.randrange(0, n + 1) for _ in range(parts - 1))
    sizes = [b - a for a, b in zip([0] + cuts, cuts + [n])]
    if rng.random() < 0.3:
        sizes.insert(rng.randrange(len(sizes) + 1), 0)
    return sizes


def rand_bytes(rng, n):
    k = rng.random()
    if k < 0.1:
        return bytes([rng.choice([0, 0x80, 0xff])]) * n
    if k < 0.2:
        return bytes(rng.choice([0, 0x80, 0xff, 0x7f, 1]) for _ in range(n))
    return bytes(rng.getrandbits(8) for _ in range(n))


class C14(flow.Spec):
    pid = "C14"
    harness = dict(name="c14", sources=["c14.cpp"],
                   repo_sources=["tlx/digest/md5.cpp", "tlx/digest/sha1.cpp", "tlx/digest/sha256.cpp",
                                 "tlx/digest/sha512.cpp", "tlx/string/hexdump.cpp"])
    max_reports = 4
    nontrivial_rule = ("a digest line is non-trivial when the message is split into >= 2 process() calls at least one of "
                       "which leaves a partial block buffered (curlen_ != 0 in the trace) and the total length is >= 1; "
                       "a siphash line when the message has >= 1 byte; a case is counted once per distinct text")
    assumptions = [
        "rol32/ror32/rol64/ror64 (x86 rol/ror instructions via inline asm) are bit rotations",
        "messages shorter than 2^61 bytes (length_ is a 64-bit bit counter; SHA-512's upper 64 length bits are zero by design) "
        "and every process() call with size < 2^32 (the API type; the string_view overloads truncate size_t to 32 bits)",
        "each object is finalised once (digest()/digest_hex()/digest_hex_uc()/finalize() mutate the state; a second call "
        "is outside the property)",
        "SSE2 intrinsics have their Intel SDM lane semantics as modelled in Model/C14SipHash.lean; the dispatching "
        "siphash() overloads resolve to siphash_sse2 on this platform (__SSE2__)",
        "std::string / tlx::string_view / hexdump meet their contracts (hexdump's digit table is read by the translator)",
    ]
    trusted_base = [
        "Lean 4 kernel; axioms propext, Quot.sound, Classical.choice at most (audited per theorem)",
        "the transcription of RFC 1321, FIPS 180-4 and the SipHash paper in Model/C14Spec.lean, validated on every run "
        "against Python hashlib and an independent SipHash-2-4 (checks/c14.py) on every generated message",
        "translator tools/c14_extract_tables.py (regex reading of tables/constants and text normal forms of the modelled code)",
        "correspondence harness/c14.cpp (ASan+UBSan): results and the private members after every process() call",
    ]

    def __init__(self):
        self._shapes = {}

    # ------------------------------------------------------------------ A
    def translator(self, ctx):
        probs = []
        ex = _load_extractor()
        try:
            text, p2, shapes = ex.extract(core.REPO)
        except Exception as e:  # noqa: BLE001  (any parse failure is a translator problem)
            return [f"extractor failed on the tree: {type(e).__name__}: {e}"]
        probs += p2
        self._shapes = shapes
        for k, v in SHAPES.items():
            if shapes.get(k) != v:
                probs.append(f"source text of `{k}` differs from the code the model transliterates "
                             f"(normal form {shapes.get(k)} != recorded {v})")
        old = open(GEN).read() if os.path.exists(GEN) else None
        if text != old:
            with open(GEN, "w") as f:
                f.write(text)
            ctx.say("translator: Gen/C14Tables.lean changed (regenerated from the tree)")
        ok, log = core.lean_build(ctx, ["drv_c14"])
        if not ok:
            probs.append("model driver does not build: " + " | ".join(core.lean_failed_decls(log))[:600])
        ctx.say(f"translator: {len(shapes)} code normal forms compared, tables regenerated")
        return probs

    # ------------------------------------------------------------------ generators
    def digest_line(self, rng, algo, form, msg, sizes):
        exp = hashlib.new(algo, msg).hexdigest()
        if form.startswith(("ctor", "ctorsv")) and not sizes:
            sizes = [0]
        return f"d {algo} {form} {exp} {','.join(map(str, sizes)) if sizes else '-'} {msg.hex() if msg else '-'}"

    def big_line(self, algo, form, n, a, b):
        """a message given by its length and the byte pattern (a*i + b) & 0xff, passed as one string_view"""
        pat = bytes((a * i + b) & 255 for i in range(256))
        h = hashlib.new(algo)
        blk = pat * 4096
        full = n // len(blk)
        for _ in range(full):
            h.update(blk)
        rest = n - full * len(blk)
        h.update((pat * (rest // 256 + 1))[:rest])
        return f"big {algo} {form} {h.hexdigest()} {n} {a} {b}"

    def bigz_line(self, algo, form, n):
        """sparse message in a MAP_NORESERVE mapping: bytes 1,2,3, zeros, and 16 bytes 0x40+(n-i) at the end"""
        h = hashlib.new(algo)
        h.update(bytes([1, 2, 3]))
        z = bytes(1 << 20)
        left = n - 3 - 16
        while left > 0:
            k = min(left, len(z))
            h.update(z[:k])
            left -= k
        h.update(bytes(0x40 + (n - i) for i in range(n - 16, n)))
        return f"bigz {algo} {form} {h.hexdigest()} {n}"

    def size_witness_cases(self, rng, label):
        """size-dependent slips (32-bit counters / masks): one process() call of 512 MiB+ for every class, a 4 GiB+
        message for both SipHash variants.  No real memory is used; about a minute under ASan."""
        cs = []
        for algo in ALGOS:
            form = rng.choice(["ptr-hex", "fn-hex", "ctor-hex"])
            cs.append([f"case {label}-{algo}", self.bigz_line(algo, form, (1 << 29) + 64 * rng.randrange(1, 9) + rng.randrange(64))])
        key = bytes(range(16)).hex()
        n = (1 << 32) + 8 * rng.randrange(1, 50) + rng.randrange(1, 8)
        # (the dispatching siphash() is siphash_sse2 on this platform and is covered by the small `sip auto` lines)
        cs.append([f"case {label}-siphash", f"sipz plain {key} {n}", f"sipz sse2 {key} {n}"])
        return cs

    def sip_line(self, rng, variant, key, ka, msg, ma):
        exp = siphash24(key, msg)
        return f"sip {variant} {exp:016x} {ka} {key.hex()} {ma} {msg.hex() if msg else '-'}"

    def cases(self, ctx, seed, tier, round_no=0):
        rng = random.Random(seed * 1000003 + round_no * 7919 + 14)
        cs = []
        quick = tier == "quick"
        cid = [0]
        if round_no == 1:
            # first search round (something no longer checks, e.g. a text normal form differs): look for
            # size-dependent slips before falling back to more random small messages
            return self.size_witness_cases(rng, "size-witness")

        def case(lines):
            cid[0] += 1
            cs.append([f"case r{round_no}-{cid[0]}"] + lines)

        # 1. every padding boundary x every algorithm, one-shot and split right at / around the block edge
        if round_no == 0:
            for algo in ALGOS:
                lines = []
                for n in BOUNDARY:
                    msg = rand_bytes(rng, n)
                    lines.append(self.digest_line(rng, algo, rng.choice(["raw", "hex", "HEX"]), msg, [n] if n else []))
                    lines.append(self.digest_line(rng, algo, rng.choice(FORMS[:11]), msg, partition(rng, n, BLOCK[algo])))
                    if len(lines) >= 10:
                        case(lines); lines = []
                if lines:
                    case(lines)
        # 2. random messages 0..300 with random chunkings
        nmsg = 600 if quick else 8000
        for _ in range(nmsg):
            lines = []
            for _ in range(4):
                algo = rng.choice(ALGOS)
                n = rng.choice(BOUNDARY) if rng.random() < 0.25 else rng.randrange(0, 301)
                msg = rand_bytes(rng, n)
                form = rng.choice(FORMS)
                lines.append(self.digest_line(rng, algo, form, msg, partition(rng, n, BLOCK[algo])))
            case(lines)
        # 3. a few long messages
        for _ in range(3 if quick else 40):
            algo = rng.choice(ALGOS)
            n = rng.choice([1000, 4096, 4097, 10000]) if quick else rng.choice([1000, 4096, 65535, 65536, 100000, 250001])
            msg = rand_bytes(rng, n)
            case([self.digest_line(rng, algo, rng.choice(["raw", "hex", "sv-HEX", "fn-hex"]), msg, partition(rng, n, BLOCK[algo]))])
        # 3b. strings beyond the 32-bit size parameter, through the string_view overloads (thorough tier only:
        #     hashing 4 GiB under ASan takes about a minute); smaller ones in both tiers
        if round_no == 0:
            case([self.big_line(rng.choice(ALGOS), rng.choice(["sv-hex", "ctorsv-hex", "fnsv-hex"]),
                                rng.choice([(1 << 20) + 3, (1 << 22) - 1]), 7, 3)])
            if not quick:
                cs.extend(self.size_witness_cases(rng, "size"))
                import glob
                for p in sorted(glob.glob(os.path.join(core.VERIF, "replays", "C14", "corpus_thorough", "*.ops"))):
                    cs.extend(core.split_cases([l.rstrip("\n") for l in open(p) if l.strip() and not l.startswith("#")]))
                case([self.big_line("sha1", "sv-hex", (1 << 32) + (1 << 30) + 77, 11, 1)])
        # 4. SipHash: all tail lengths x alignments x variants, random and default keys
        nsip = 150 if quick else 3000
        for i in range(nsip):
            lines = []
            for _ in range(6):
                variant = rng.choice(["plain", "plain", "sse2", "sse2", "auto", "dk", "dkc", "sv"])
                key = bytes(range(16)) if (variant in ("dk", "dkc", "sv") or rng.random() < 0.2) else rand_bytes(rng, 16)
                n = rng.randrange(0, 72) if rng.random() < 0.9 else rng.choice([255, 256, 257, 1000, 4099])
                lines.append(self.sip_line(rng, variant, key, rng.randrange(16), rand_bytes(rng, n), rng.randrange(16)))
            case(lines)
        return cs

    # ------------------------------------------------------------------ comparison / bookkeeping
    def compare(self, op, impl, model):
        t = op.split()
        if t and t[0] in ("big", "bigz", "sipz"):
            return True          # too large for the list-based model; the oracle (hashlib) judges the real code
        if not t or t[0] not in ("d", "sip"):
            return impl == model
        m, sep, spec = model.partition(" # spec=")
        if impl == "bad-op" or model == "bad-op":
            return impl == model
        if impl != m:
            return False
        # the Lean *specification* must agree with hashlib / the independent SipHash (expected on the op line)
        return spec == (t[3] if t[0] == "d" else t[2])

    def nontrivial(self, case, answers):
        ok = False
        for op, a in zip(case[1:], answers[1:]):
            t = op.split()
            if t[0] == "sip" and t[6] != "-":
                ok = True
            if t[0] == "d" and " | " in a:
                tr = a.split(" | ", 1)[1]
                steps = tr.split(";") if tr != "-" else []
                if len(steps) >= 3 and any(not s.startswith("0:") for s in steps[1:]):
                    ok = True
        return tuple(case[1:]) if ok else None

    def viol_class(self, message):
        t = message.split()
        if len(t) > 1 and t[1] == "crash":
            return " ".join(t[:8])
        return " ".join(t[:3])

    def extra_coverage(self, ctx, res):
        return {"code_normal_forms_compared": len(SHAPES),
                "spec_validated_against": "hashlib (md5, sha1, sha256, sha512) and an independent SipHash-2-4 on every generated line"}


SPEC = C14()
