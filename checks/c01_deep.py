"""Constructive deep-tree cases for C01/C02 and the branch-coverage table of the erase case analysis.

The model (lean/TlxVerif/Model/C01Trace.lean, `drv_c0x labels`) reports for every erase which branch of
`erase_one_descend` / `erase_iter_descend` each frame of the descent takes.  `plan()` builds tall trees at the
minimal capacities with `bulk_load`, walks them down with erases chosen by a shaping policy, and at every
state of the walk asks the model what *every possible* single `erase_one(key)` / `erase(iterator)` would do
(on a copy: `copy 1 0`, operation on register 1).  An operation that takes a branch not yet taken is put into
the case as exactly that pair `copy 1 0` / op on register 1, so one case per walk carries all of them.
`coverage()` runs any list of cases through `drv_c0x trace` and counts the labels.
"""
import random
import re
import subprocess

KINDS_K = ("k", "i")
ROWS = ("1a", "1b", "2a", "2b", "3a", "3b", "4a", "4b", "5a", "5b")
LK_ROWS = ("1a", "2b", "3a", "5a")      # `myres` can only carry update_lastkey in a last child: left parent == parent


def universe():
    """every label the trace can produce on a consistent tree, in table order"""
    u = []
    for k in KINDS_K:
        for f in ("L", "I1", "I2"):
            u += [f"{k}.{f}.row{r}" for r in ROWS]
            u += [f"{k}.{f}.row{r}+lk" for r in LK_ROWS]
            u += [f"{k}.{f}.nofix", f"{k}.{f}.lastkey.set", f"{k}.{f}.lastkey.fwd"]
        u += [f"{k}.L.root.emptied", f"{k}.I1.root.collapse", f"{k}.I2.root.collapse"]
        u += [f"{k}.I1.fixmerge.cur", f"{k}.I1.fixmerge.next", f"{k}.I1.fixmerge.lvl1",
              f"{k}.I2.fixmerge.cur", f"{k}.I2.fixmerge.next"]
        u += [f"{k}.I1.exec.leaves.{x}" for x in ("mergeL", "mergeR", "shiftL", "shiftR")]
        u += [f"{k}.I2.exec.inner.{x}" for x in ("mergeL", "mergeR", "shiftL", "shiftR")]
        u += [f"{k}.I1.exec.shiftleftleaf.set"]
    u += ["i.I1.scan.advance", "i.I2.scan.advance", "k.notfound", "k.empty"]
    return u


UNIVERSE = universe()
# documented as unreachable from consistent trees (the model shows them as `none` / never takes them)
UNREACHABLE = ("I1.exec.shiftleftleaf.fwd", "row4x", "ub")


def run_driver(drv, mode, lines):
    p = subprocess.run([drv, mode], input="\n".join(lines) + "\n", capture_output=True, text=True)
    out = p.stdout.split("\n")
    return out[:len(lines)]


class Node:
    __slots__ = ("level", "keys", "kids", "ents")

    def __init__(self, level, keys, kids, ents):
        self.level, self.keys, self.kids, self.ents = level, keys, kids, ents

    def fill(self):
        """children of an inner node / entries of a leaf"""
        return len(self.kids) if self.level else len(self.ents)


def parse_tree(d):
    """`s=n,l,i <tree>` -> root Node or None; leaf entries are the printed tokens (`k` or `k:v`)"""
    tree = d.split(" ", 1)[1] if " " in d else "-"
    if tree == "-":
        return None

    def node(i):
        if tree[i] == "(":
            j = tree.index(")", i)
            return j + 1, Node(0, [], [], tree[i + 1:j].split())
        j = tree.index("|", i)
        lvl = int(tree[i + 1:j])
        k = tree.index("|", j + 1)
        keys = [int(x) for x in tree[j + 1:k].split()]
        i = k + 1
        kids = []
        while tree[i] != "]":
            i, c = node(i)
            kids.append(c)
        return i + 1, Node(lvl, keys, kids, [])
    return node(0)[1]


def at(root, path):
    n = root
    for i in path:
        if n is None or n.level == 0 or i >= len(n.kids) or i < 0:
            return None
        n = n.kids[i]
    return n


def entries(n):
    if n is None:
        return []
    if n.level == 0:
        return list(n.ents)
    return [e for c in n.kids for e in entries(c)]


def key_of(tok):
    return int(tok.split(":")[0])


class Planner:
    def __init__(self, drv, rng, covered):
        self.drv, self.rng, self.covered = drv, rng, covered

    def walk(self, name, cfg, bulk_tokens, policy, max_steps, per_label=1, probe_every=1):
        """one case: cfg, bulk_load, then a walk of erases chosen by `policy`; at every `probe_every`-th state all
        possible single erases are tried on a copy and those taking rarely taken branches are put into the case"""
        rng = self.rng
        head = [f"case {name}", cfg, "bulk 0 " + " ".join(bulk_tokens)]
        state = list(head)          # what the model replays to reach the current state (register 0 only)
        case = list(head)           # what is emitted
        for step in range(max_steps):
            root = parse_tree(run_driver(self.drv, "labels", state + ["size 0"])[-1])
            if root is None:
                break
            if step % probe_every == 0:
                lines, cands, labs = probe_all(self.drv, state, root, self.covered, per_label, rng)
                case += lines
                mv = policy(rng, cands, labs)
            else:
                ents = entries(root)
                r = rng.randrange(len(ents))
                mv = f"eri 1 {r}" if rng.random() < 0.5 else f"er1 1 {key_of(ents[r])}"
            mv0 = mv.replace(" 1 ", " 0 ", 1)
            state.append(mv0)
            case.append(mv0)
        return case


def quiet(labels):
    return all(l.endswith(".nofix") or ".lastkey." in l for l in labels)


def pol_random(rng, cands, labs):
    return rng.choice(cands)


def pol_thin(rng, cands, labs):
    """reduce fills without rebalancing while possible, then anything"""
    q = [c for c, l in zip(cands, labs) if quiet(l)]
    if q and rng.random() < 0.9:
        return rng.choice(q)
    return rng.choice(cands)


def pol_front(rng, cands, labs):
    return cands[0] if rng.random() < 0.8 else rng.choice(cands)


def pol_back(rng, cands, labs):
    return cands[-1] if rng.random() < 0.8 else rng.choice(cands)


def pol_loud(rng, cands, labs):
    """prefer erases that rebalance"""
    q = [c for c, l in zip(cands, labs) if not quiet(l)]
    if q and rng.random() < 0.7:
        return rng.choice(q)
    return rng.choice(cands)


POLICIES = {"random": pol_random, "thin": pol_thin, "front": pol_front, "back": pol_back, "loud": pol_loud}


# ------------------------------------------------------------------ constructive shaping
# position of the underflowing node X among its parent's children, fill class of its left / right neighbour
# (F = few = at minimum, R = above minimum, S = two above minimum); the rows each shape is aimed at
SHAPES = [
    ("middle", "F", "F", "1a"), ("middle", "F", "R", "2a"), ("middle", "R", "F", "3a"),
    ("middle", "R", "R", "4a"), ("middle", "S", "R", "4b"),
    ("first", "F", "F", "1b"), ("first", "R", "F", "3b"), ("first", "R", "R", "5b"),
    ("last", "F", "F", "1a+lk"), ("last", "F", "R", "2b 2b+lk"), ("last", "R", "F", "3a+lk"),
    ("last", "R", "R", "5a 5a+lk"),
]


_SKELETON_N = {}


class Shaper:
    """a case under construction; the model is asked for the structure after every step"""

    def __init__(self, drv, name, kind, leaf, inner, binsearch, mode):
        self.drv = drv
        self.is_map = kind in ("map", "mmap")
        self.leaf, self.inner, self.mode = leaf, inner, mode
        self.ops = [f"case {name}", f"cfg {kind} {leaf} {inner} {binsearch} {mode}"]
        self.root = None

    def tok(self, k):
        return f"{k}:{k % 7}" if self.is_map else str(k)

    def refresh(self):
        out = run_driver(self.drv, "labels", self.ops + ["size 0"])
        self.root = parse_tree(out[-1])
        return self.root

    def height(self):
        return 0 if self.root is None else self.root.level + 1

    def do(self, op):
        self.ops.append(op)
        return self.refresh()

    def minfill(self, level):
        return self.leaf // 2 if level == 0 else self.inner // 2 + 1

    def skeleton(self, height, spacing=4096, limit=1500):
        """ascending (in the container's order) range insert: every node off the last spine is at minimum fill"""
        memo = (self.leaf, self.inner, self.mode, height)
        n = _SKELETON_N.get(memo, 4)
        while n < limit:
            ks = [spacing * i for i in range(1, n + 1)]
            if self.mode == 1:
                ks.reverse()
            op = "insr 0 " + " ".join(self.tok(k) for k in ks)
            out = run_driver(self.drv, "labels", self.ops + [op, "size 0"])
            root = parse_tree(out[-1])
            if root is not None and root.level + 1 >= height and root.fill() >= 3:
                _SKELETON_N[memo] = n
                self.ops.append(op)
                self.root = root
                return True
            n += max(1, n // 8)
        return False

    def insert_into(self, leafnode):
        """one insert that lands in this leaf: a new key strictly between two of its entries"""
        ks = [key_of(e) for e in leafnode.ents]
        best = None
        for a, b in zip(ks, ks[1:]):
            if abs(a - b) >= 2 and (best is None or abs(a - b) > abs(best[0] - best[1])):
                best = (a, b)
        if best is None:
            return False
        k = (best[0] + best[1]) // 2
        self.do(f"ins 0 {k} {k % 7}")
        return True

    def bump(self, path):
        """one insert into the subtree at `path`, aimed at splitting a child of that node"""
        n = at(self.root, path)
        if n is None:
            return False
        while n.level > 0:
            fills = [c.fill() for c in n.kids]
            m = max(fills)
            idx = [i for i, f in enumerate(fills) if f == m]
            mid = (len(fills) - 1) / 2
            n = n.kids[min(idx, key=lambda i: abs(i - mid))]
        return self.insert_into(n)

    def grow(self, path, want, limit=250):
        for _ in range(limit):
            n = at(self.root, path)
            if n is None:
                return False
            if n.fill() >= want:
                return True
            if not self.bump(path):
                return False
        return False


def neighbours(root, path):
    """paths of the left and right neighbour of the node at `path` as the erase descents see them (sibling or
    cousin), or None.  The left cousin is `left->childid[left->slotuse - 1]` at every step down (sic: the
    child before the last one), the right cousin `right->childid[0]`."""
    def last_index(p):
        n = at(root, p)
        return None if n is None or n.level == 0 else len(n.kids) - 1
    left = right = None
    p = list(path)
    # left
    i = len(p) - 1
    while i >= 0 and p[i] == 0:
        i -= 1
    if i >= 0:
        q = p[:i] + [p[i] - 1]
        while len(q) < len(p):
            q.append(last_index(q) - 1)
        left = tuple(q)
    i = len(p) - 1
    while i >= 0 and p[i] == last_index(p[:i]):
        i -= 1
    if i >= 0:
        q = p[:i] + [p[i] + 1]
        while len(q) < len(p):
            q.append(0)
        right = tuple(q)
    return left, right


def shaped_case(drv, name, kind, leaf, inner, binsearch, mode, level, pos, lfill, rfill):
    """a tree of height level + 3 in which the node X = child `pos` of the middle child of the root, on level
    `level`, is at minimum fill (as is everything below it) and its neighbours have the wanted fills"""
    sh = Shaper(drv, name, kind, leaf, inner, binsearch, mode)
    if not sh.skeleton(level + 3):
        return None
    # X lives `depth` levels below the root; walk down the middle
    depth = sh.height() - 1 - level
    path = [1] * (depth - 1)
    par = at(sh.root, path)
    if par is None or par.level != level + 1:
        return None
    xi = {"first": 0, "middle": 1, "last": len(par.kids) - 1}[pos]
    xpath = tuple(path + [xi])
    lp, rp = neighbours(sh.root, xpath)
    mn = sh.minfill(level)
    extra = {"F": 0, "R": 1, "S": 2}
    for np_, f in ((lp, lfill), (rp, rfill)):
        if np_ is None:
            return None
        if extra[f] and not sh.grow(np_, mn + extra[f]):
            return None
    x = at(sh.root, xpath)
    if x is None or x.fill() != mn:
        return None
    return sh


def probe_all(drv, ops, root, covered, per_label=1, rng=None):
    """every possible single erase of the current tree on a copy; returns the probe lines that take a branch
    taken fewer than `per_label` times so far (and counts them)"""
    ents = entries(root)
    cands, seen = [], set()
    for rank, e in enumerate(ents):
        cands.append(f"eri 1 {rank}")
        k = key_of(e)
        if k not in seen:
            seen.add(k)
            cands.append(f"er1 1 {k}")
    probe = []
    for c in cands:
        probe += ["copy 1 0", c]
    out = run_driver(drv, "labels", ops + probe)
    labs = [out[len(ops) + 2 * i + 1].split() for i in range(len(cands))]
    order = list(range(len(cands)))
    if rng is not None:
        rng.shuffle(order)
    # most new labels first
    order.sort(key=lambda i: -len([l for l in set(labs[i]) if covered.get(l, 0) < per_label]))
    lines = []
    for i in order:
        if any(covered.get(l, 0) < per_label for l in labs[i]):
            lines += ["copy 1 0", cands[i]]
            for l in labs[i]:
                covered[l] = covered.get(l, 0) + 1
    return lines, cands, labs


KINDS = ("set", "mset", "map", "mmap")


def drain_case(drv, rng, covered, name, kind, leaf, inner, binsearch, mode, height, dup_run=1, per_label=1,
               max_steps=400):
    """a small tree erased down to nothing (root collapses, emptied root leaf, erases on an empty tree,
    absent keys); with `dup_run > 1` every key occurs that often, so that the search loop of
    erase_iter_descend has to go on to further children"""
    sh = Shaper(drv, name, kind, leaf, inner, binsearch, mode)
    n = 4
    while True:
        ks = [64 * (i // dup_run + 1) for i in range(n)]
        if mode == 1:
            ks.reverse()
        op = "insr 0 " + " ".join(sh.tok(k) for k in ks)
        root = parse_tree(run_driver(drv, "labels", sh.ops + [op, "size 0"])[-1])
        if (root is not None and root.level + 1 >= height) or n > 2000:
            break
        n += max(1, n // 6)
    case = sh.ops + [op, "er1 0 1"]                    # an absent key
    covered["k.notfound"] = covered.get("k.notfound", 0) + 1
    state = sh.ops + [op]
    steps = 0
    while steps < max_steps:
        root = parse_tree(run_driver(drv, "labels", state + ["size 0"])[-1])
        if root is None:
            break
        lines, cands, labs = probe_all(drv, state, root, covered, per_label, rng)
        case += lines
        # towards the ends and the middle alternately, so that both spines and inner positions are visited
        r = rng.random()
        mv = cands[0] if r < 0.3 else cands[-1] if r < 0.6 else rng.choice(cands)
        mv = mv.replace(" 1 ", " 0 ", 1)
        state.append(mv)
        case.append(mv)
        steps += 1
    case += ["er1 0 64", "size 0"]                      # erase on the empty tree
    covered["k.empty"] = covered.get("k.empty", 0) + 1
    return case


def plan(drv, seed, tier, log=None):
    """the deep-tree cases of one run (deterministic in seed and tier) and the labels the planner saw"""
    rng = random.Random(seed * 7919 + (1 if tier == "quick" else 2))
    covered = {}
    cases = []
    n = 0
    per = 1 if tier == "quick" else 3
    configs = [(4, 4), (4, 5), (5, 4)] if tier == "quick" else [(4, 4), (4, 5), (5, 4), (5, 5), (6, 6), (4, 7), (7, 4)]
    modes = (0,) if tier == "quick" else (0, 1)
    for ci, (leaf, inner) in enumerate(configs):
        cov = {} if (leaf, inner) in ((4, 4), (4, 5), (5, 4)) else covered   # every minimal capacity covers the table itself
        for mode in modes:
            if mode and cov is not covered:
                cov = {}                                    # ... and so does every key order
            for level in (0, 1, 2):
                if (leaf, inner) not in ((4, 4), (4, 5), (5, 4)) and level == 2:
                    continue
                for (pos, lf, rf, aim) in SHAPES:
                    kind = KINDS[(n + seed) % 4]
                    sh = shaped_case(drv, f"deep{n}", kind, leaf, inner, (n + seed) % 2, mode, level, pos, lf, rf)
                    n += 1
                    if sh is None:
                        if log:
                            log(f"deep-tree planner: shape {leaf}/{inner} level {level} {pos} {lf}{rf} not reached")
                        continue
                    lines, _, _ = probe_all(drv, sh.ops, sh.root, cov, per, rng)
                    if lines:
                        cases.append(sh.ops + lines)
            if cov is not covered:
                for l, c in cov.items():
                    covered[l] = covered.get(l, 0) + c
    # small trees drained to nothing, duplicate runs
    for j, (kind, dup_run, height) in enumerate((("set", 1, 3), ("mmap", 1, 3), ("mset", 7, 4), ("mmap", 5, 3))):
        leaf, inner = configs[j % len(configs)]
        cases.append(drain_case(drv, rng, covered, f"drain{j}", kind, leaf, inner, j % 2, 0, height, dup_run, per))
    if tier != "quick":
        P = Planner(drv, rng, covered)
        for j, (leaf, inner) in enumerate(configs[:3]):
            for pol in ("thin", "loud", "random"):
                nk = 108 if leaf == 4 else 140
                toks = [str(i) for i in range(1, nk + 1)]
                cases.append(P.walk(f"walk{j}{pol}", f"cfg {KINDS[j % 4]} {leaf} {inner} {j % 2} 0",
                                    [t if j % 4 < 2 else t + ":1" for t in toks], POLICIES[pol], nk, 6, 4))
    return cases, covered


def coverage(drv, cases):
    """label -> count over the erase operations of `cases` (model trace)"""
    cnt = {}
    chunk = []

    def flush():
        for o in run_driver(drv, "labels", chunk):
            for l in o.split():
                if l[:2] in ("k.", "i."):
                    cnt[l] = cnt.get(l, 0) + 1
        del chunk[:]
    for c in cases:
        chunk.extend(c)
        if len(chunk) > 150000:
            flush()
    if chunk:
        flush()
    return cnt
