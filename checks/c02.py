"""C02 — the tlx B+ tree keeps its balance/order invariants after every mutating call and returns
every node to its allocator exactly once (element lifetimes follow node lifetimes).

Harness, model and generators are shared with C01 (checks/c01.py, harness/c01*.cpp,
lean/TlxVerif/Model/C01*.lean); here the harness runs its invariant / allocation / lifetime oracles
(`run c02`), the generator profile contains more copies, assignments, swaps, clears and range
constructions, and the theorems are the ones of lean/TlxVerif/Props/C02.lean.
"""
import glob
import os

from vlib import core, flow
from checks.c01 import BTreeSpec, harness_spec


class C02(BTreeSpec):
    pid = "C02"
    profile = "c02"
    harness_args = ("run", "c02")
    harness = harness_spec([])
    # the model and every helper proof are shared with C01: scan all of them
    extra_lean_sources = tuple(sorted(
        os.path.relpath(f, core.LEAN)
        for sub in ("Model", "Gen", "Proofs")
        for f in glob.glob(os.path.join(core.LEAN, "TlxVerif", sub, "C01*.lean"))))
    assumptions = [
        "node identity is not modelled: the model counts allocations and frees per node type and per allocator "
        "instance; that the *right* node is freed is observed by the allocator registry (unknown/double free, block "
        "returned through an instance other than the one that produced it), ASan and the leaf-chain walk only",
        "LeafNode/InnerNode construct all slotdata[]/slotkey[] objects with the node and destroy them with it, so "
        "element lifetime reduces to node lifetime; the harness checks after every call that the live Tracked objects "
        "are exactly the slot arrays of the live nodes",
        "pointer linkage of the leaf chain is represented by the left-to-right order of leaves (checked by the harness "
        "against the real chain in both directions after every mutating call)",
        "allocation failure and exceptions thrown by element operations are outside the model",
        "unsigned short slotuse / size_t counters are modelled by Nat",
    ]
    trusted_base = ["Lean 4 kernel", "axioms: propext, Quot.sound, Classical.choice at most (audited per theorem)",
                    "hand-written model TlxVerif/Model/C01*.lean tied to tlx/container/btree.hpp by the structural "
                    "line-protocol correspondence incl. stats_ and per-operation allocation counts "
                    "(harness/c01*.cpp through tlx's TLX_BTREE_FRIENDS hook, counting allocator, Tracked ledger, ASan+UBSan)",
                    "BTree::verify() with die switched to exceptions as an additional oracle"]


SPEC = C02()


def replay(path):
    ctx = core.Ctx(SPEC.pid, "quick", 0)
    SPEC.translator(ctx)
    return flow.replay(SPEC, path)
