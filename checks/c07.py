"""C07 — parallel multiway merge equals the sequential merge for every thread count, both splittings."""
import random

from vlib import core, flow

def csv(run):
    return ",".join(str(x) for x in run) if run else "-"


def key_of(cmp):
    return {"lt": (lambda v: v), "gt": (lambda v: -v), "half": (lambda v: v >> 1)}[cmp]


def make_run(rng, cmp, length, vals):
    xs = [rng.choice(vals) for _ in range(length)]
    rng.shuffle(xs)
    xs.sort(key=key_of(cmp))
    return xs


def uses_parallel(force, threads, k, size, mink, minn):
    if force == "seq":
        return False
    return force == "par" or (threads > 1 and k >= mink and size >= minn)


def gen_op_many(rng):
    """>= 17 sequences, heavy duplicates, >= 17 threads, every splitting: the partition's initial sample has more
    than 16 equal-key entries, ties across many sequences at every split point"""
    cmp = rng.choice(["lt", "lt", "gt", "half"])
    k = rng.choice([17, 18, 20, 24, 32, 33, 40])
    nv = rng.choice([2, 2, 3, 4])
    vals = list(range(nv)) if cmp != "half" else list(range(2 * nv))
    # (almost) equal lengths: every sequence then contributes a real sample to the initial partition
    L = rng.choice([1, 1, 2, 3, 4])
    lens = [0 if rng.random() < 0.05 else (L if rng.random() < 0.85 else rng.randrange(1, L + 2)) for _ in range(k)]
    runs = [make_run(rng, cmp, l, vals) for l in lens]
    total = sum(lens)
    variant = rng.choice(["s", "s", "s", "u"])
    split = rng.choice(["exact", "exact", "sampling"])
    threads = rng.choice([2, 3, 5, 17, 17, 19, 24, 32])
    osf = rng.choice([1, 2, 10])
    algo = rng.choice(["lt", "ltc", "bubble"])
    size = total if rng.random() < 0.5 else rng.randrange(total + 1)
    return f"pm {variant} {cmp} {split} {threads} {osf} {algo} par 2 1000 {size} " + " ".join(csv(r) for r in runs)


def gen_op_default_cmp(rng):
    """every front end called WITHOUT a comparator, input value type != output value type, negative keys:
    the default order must be operator< of the INPUT value type"""
    front = rng.choice(["pm", "spm", "pms", "spms", "pm", "spm", "mm", "smm", "mms", "smms"])
    types = rng.choice(["iu", "iu", "il", "st", "st"])
    k = rng.choice([1, 2, 2, 3, 4, 5, 8, 17])
    nv = rng.choice([2, 3, 4, 8, 1000])
    vals = [v - nv // 2 for v in range(nv)] if rng.random() < 0.85 else list(range(nv))
    if rng.random() < 0.1:
        vals = vals + [-1000000, 1000000]
    runs = [make_run(rng, "lt", 0 if rng.random() < 0.1 else rng.randrange(1, 9), vals) for _ in range(k)]
    total = sum(len(r) for r in runs)
    size = total if rng.random() < 0.6 else rng.randrange(total + 1)
    force = "seq" if rng.random() < 0.15 else "par"
    return f"pmd {front} {types} {force} {size} " + " ".join(csv(r) for r in runs)


def gen_op(rng, tier):
    r0 = rng.random()
    if r0 < 0.06:
        return gen_op_many(rng)
    if r0 < 0.14:
        return gen_op_default_cmp(rng)
    if r0 < 0.22:
        # std::string keys: the same operation with an element type whose moved-from state is observable
        for _ in range(20):
            t = gen_op(rng, tier).split()
            if t[0] == "pm" and t[2] in ("lt", "gt") and t[1] in ("u", "s"):
                t[0] = "pmstr"
                return " ".join(t)
        return gen_op_default_cmp(rng)
    cmp = rng.choice(["lt", "lt", "lt", "gt", "half"])
    k = rng.choice([1, 2, 2, 3, 3, 4, 4, 5, 5, 6, 8])
    if rng.random() < 0.03:
        k = 0
    style = rng.random()
    lens = []
    for s in range(k):
        if rng.random() < 0.15:
            lens.append(0)
        elif style < 0.7:
            lens.append(rng.randrange(1, 9))
        elif style < 0.85:
            lens.append(rng.choice([1, 2, 15, 16, 17, 33]))
        else:
            lens.append(rng.randrange(1, 4))
    if k and style >= 0.85:
        lens[rng.randrange(k)] = rng.choice([40, 64, 100])       # one dominant sequence
    nv = rng.choice([1, 2, 2, 3, 3, 4, 4, 8, 1000])
    vals = list(range(nv)) if cmp != "half" else list(range(2 * nv))
    runs = [make_run(rng, cmp, l, vals) for l in lens]
    total = sum(lens)
    variant = rng.choice(["s", "s", "s", "u", "u", "ss", "us"])
    split = rng.choice(["exact", "exact", "sampling"])
    threads = rng.choice([1, 1, 2, 2, 3, 3, 4, 5, 6, 7, 8, 8, 12, 16, 17, 31, 32])
    if rng.random() < 0.2:
        threads = min(32, total + rng.choice([0, 1, 2, 5]))       # around / above the element count
        threads = max(1, threads)
    osf = rng.choice([1, 1, 2, 3, 5, 10, 10])
    algo = rng.choice(["lt", "ltc", "ltc", "lts", "bubble"])
    f = rng.random()
    force, mink, minn = "par", 2, 1000
    if f < 0.72:
        force = "par"
    elif f < 0.78:
        force = "seq"
    else:
        force = "auto"
        mink = rng.choice([0, 1, 2, 2, 3, 5])
        minn = rng.choice([0, 1, 2, 5, 10, 1000])
    r = rng.random()
    if r < 0.45:
        size = total
    elif r < 0.55:
        size = max(0, total - 1)
    elif r < 0.62:
        size = min(total, 1)
    elif r < 0.66:
        size = 0
    else:
        size = rng.randrange(total + 1)
    return f"pm {variant} {cmp} {split} {threads} {osf} {algo} {force} {mink} {minn} {size} " + " ".join(csv(r) for r in runs)


def parse_pm(op):
    t = op.split()
    if t[0] != "pm" or len(t) < 11:
        return None
    runs = [[] if r == "-" else [int(x) for x in r.split(",")] for r in t[11:]]
    return dict(variant=t[1], cmp=t[2], split=t[3], threads=int(t[4]), osf=int(t[5]), algo=t[6], force=t[7],
                mink=int(t[8]), minn=int(t[9]), size=int(t[10]), runs=runs)


class C07(flow.Spec):
    pid = "C07"
    source_files = ('tlx/algorithm/parallel_multiway_merge.hpp', 'tlx/algorithm/parallel_multiway_merge.cpp', 'tlx/algorithm/multiway_merge_splitting.hpp', 'tlx/algorithm/multisequence_partition.hpp')
    harness = dict(name="c07", sources=["c07.cpp"], repo_sources=["tlx/algorithm/parallel_multiway_merge.cpp"])
    nontrivial_rule = ("a `pm` operation is non-trivial when it ran on the parallel path with >= 2 non-empty thread "
                       "windows and some key occurs in two different input sequences on both sides of a window "
                       "boundary (duplicates across a split point); distinct = distinct operation lines")
    assumptions = [
        "the per-thread sequential multiway_merge_base<Stable,false> is represented by its specification (first "
        "`len` elements of the stable merge; verified under C05); for the unstable variants the order inside runs "
        "of equivalent keys is canonicalised on both sides",
        "multisequence_partition is the transliterated C08 model (its all-inputs correctness is the C08 open item; "
        "the C07 theorems assume the C08 specification `IsPartition` for the offsets)",
        "the IEEE-double sample index of the sampling splitter is computed with Lean `Float` in the driver; the "
        "theorems hold for an arbitrary sample index function",
        "threads are real std::threads; which thread wrote which output position is observed through a per-thread "
        "serial stored by the element's assignment operator.  Freedom from data races is argued from the proved "
        "disjointness of the windows and supported by the ThreadSanitizer build of the thorough tier",
        "num_threads >= 1, oversampling factor >= 1, size <= total (documented preconditions)",
    ]
    trusted_base = ["Lean 4 kernel", "axioms: propext, Quot.sound, Classical.choice at most (audited per theorem)",
                    "hand-written model TlxVerif/Model/C07Pmm.lean tied to parallel_multiway_merge.hpp / "
                    "multiway_merge_splitting.hpp by the line-protocol correspondence on output, return value, "
                    "advanced begins and per-thread output windows (harness/c07.cpp, ASan+UBSan)",
                    "harness brute-force oracle (std::stable_sort of tagged elements)"]

    def viol_class(self, message):
        m = message.replace("#VIOL ", "")
        if m.startswith("crash"):
            return " ".join(m.split()[:8])
        return " ".join(m.split(" in pm")[0].split()[:6])

    def compare(self, op, impl, model):
        if impl == model:
            return True
        t = op.split()
        if (t[0] == "pmd" and not t[1].startswith("s")) or (t[0] == "pmstr" and t[1] == "u" and t[7] != "par"):
            # unstable front end, sequential fall-back or machine-dependent default thread count: which of several
            # equivalent elements is taken from which sequence (`begins`) is not determined; keys and return value
            # are (the harness oracle checks that `begins` sums up to `size` and stays inside the sequences)
            a, b = impl.split(), model.split()
            return len(a) == 6 and len(b) == 6 and a[:4] == b[:4]
        d = parse_pm(op) if op.startswith("pm ") else None
        if d is None or d["variant"] in ("s", "ss"):
            return False
        # unstable variants on the sequential fall-back: which of several equivalent elements the
        # sequential merge takes (hence `begins` and the tags in `out`) is not determined; compare keys,
        # return value and windows (the harness oracle checks the prefix property of `begins`)
        if " win m" not in impl and " win - " not in impl:
            return False

        def strip(a):
            t = a.split()
            if len(t) < 8 or t[0] != "out":
                return None
            kf = key_of(d["cmp"])
            keys = [kf(int(e.split(":")[0])) for e in t[1].split(",")] if t[1] != "-" else []
            return (keys, t[3], t[7], t[9] if len(t) > 9 else None)
        return strip(impl) is not None and strip(impl) == strip(model)

    tsan_stats = None

    def _tsan(self, ctx, seed):
        """supporting evidence only: the same harness built with ThreadSanitizer, real threads, parallel path"""
        hb, log = core.build_harness(ctx, name="c07t", sources=["c07.cpp"],
                                     repo_sources=["tlx/algorithm/parallel_multiway_merge.cpp"],
                                     std_flags=["-std=gnu++17", "-O1", "-g", "-fsanitize=thread"])
        if hb is None:
            ctx.say("TSan harness does not compile: " + log[-300:])
            self.tsan_stats = dict(tsan="build failed")
            return
        rng = random.Random(seed * 31 + 7)
        lines = []
        for i in range(400):
            t = gen_op(rng, "quick").split()
            if t[0] == "pmd":
                t[3] = "par"
            else:
                t[7] = "par"
            lines.append(f"case t{i}")
            lines.append(" ".join(t))
        out, rc, err = core.run_lines([hb, "run"], lines, timeout=1500,
                                      env={"TSAN_OPTIONS": "halt_on_error=1:exitcode=66:report_signal_unsafe=0"})
        races = err.count("WARNING: ThreadSanitizer")
        self.tsan_stats = dict(tsan_cases=400, tsan_rc=rc, tsan_reports=races)
        ctx.say(f"TSan run: rc={rc} reports={races}")
        if rc != 0 or races:
            k = max(0, len([l for l in out if not l.startswith("#VIOL")]) // 2 - 1)
            case = lines[2 * k: 2 * k + 2] if 2 * k + 1 < len(lines) else lines[-2:]
            p = ctx.write_replay(f"viol_tsan_{seed}.ops", ["kind: ThreadSanitizer report on real threads",
                                                           "message: " + err[:1500].replace("\n", " | ")], case)
            ctx.violation(p, "data race reported by ThreadSanitizer: " + err[:300].replace("\n", " | "), True)

    def extra_coverage(self, ctx, res):
        return dict(self.tsan_stats or {})

    def cases(self, ctx, seed, tier, round_no=0):
        rng = random.Random(seed * 1000003 + round_no * 7919 + 7)
        n = 3000 if tier == "quick" else 12000
        if tier != "quick" and ctx.tier == "quick":
            n = 6000          # deeper validation requested by the flow (modelled sources changed) inside the quick tier
        cs = []
        if tier != "quick" and ctx.tier != "quick" and round_no == 0:
            self._tsan(ctx, seed)
        for i in range(n):
            lines = [f"case c{round_no}_{i}"]
            for _ in range(rng.choice([1, 2, 4])):
                lines.append(gen_op(rng, tier))
            if rng.random() < 0.1:
                lines.append(f"es {rng.choice([0, 1, 2, 3, 7, 10, 100, rng.randrange(1000)])} {rng.randrange(1, 40)}")
            cs.append(lines)
        return cs

    def nontrivial(self, case, answers):
        keys = []
        for op, a in zip(case[1:], answers[1:]):
            d = parse_pm(op) if op.startswith("pm ") else None
            if d is None or not a.startswith("out "):
                continue
            t = a.split()
            if len(t) < 8 or t[7] == "-" or t[7].startswith("m"):
                continue
            wins = t[7].split(",")
            if len(wins) < 2:
                continue
            elems = [tuple(int(x) for x in e.split(":")) for e in t[1].split(",")] if t[1] != "-" else []
            k = key_of(d["cmp"])
            ok = False
            for w in wins[1:]:
                b = int(w.split("+")[0])
                if 0 < b < len(elems) and k(elems[b - 1][0]) == k(elems[b][0]) and elems[b - 1][1] != elems[b][1]:
                    ok = True
            if ok:
                keys.append(op)
        return tuple(keys) if keys else None


SPEC = C07()
