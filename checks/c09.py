"""C09 — loser trees report a minimum-holding source; stable ones break ties by index."""
import itertools
import random

from vlib import flow

VARIANTS = ["cgu", "cgs", "pgu", "pgs", "cuu", "cus", "puu", "pus"]


def key_le(mode, a, b):
    """not cmp(b, a)"""
    if mode == "lt":
        return not (b < a)
    if mode == "gt":
        return not (b > a)
    return not ((b >> 2) < (a >> 2))


def top_key(mode, keys, strict, rng):
    """a sentinel not smaller than any key under `mode` (strictly greater if `strict`)"""
    if mode == "lt":
        m = max(keys)
        return m + (rng.choice([1, 2, 5]) if strict else rng.choice([0, 0, 1]))
    if mode == "gt":
        m = min(keys)
        return max(0, m - (1 if strict else rng.choice([0, 0, 1])))
    m = max(keys)
    if strict:
        return ((m >> 2) + 1) * 4 + rng.randrange(4)
    return (m >> 2) * 4 + rng.randrange(4)


def gen_case(rng, cid, variant=None, k=None, fresh_p=0.3):
    v = variant or rng.choice(VARIANTS)
    guarded = v[1] == "g"
    mode = rng.choice(["lt", "lt", "gt", "q4"])
    if k is None:
        k = rng.choice(list(range(1, 18)) + [1, 2, 3, 5, 7, 8, 9, 16, 17])
    alpha = rng.choice([2, 3, 4, 8, 30])
    lo = 1 if mode == "gt" else 0       # leave room below for a strict sentinel in gt mode
    if mode == "q4":
        alpha *= rng.choice([1, 4])
    maxlen = rng.choice([1, 2, 3, 5])
    sorted_seqs = rng.random() < 0.6
    seqs = []
    for i in range(k):
        if guarded:
            n = rng.choice([0, 0, 1, 2, maxlen, rng.randint(0, maxlen)])
        else:
            n = rng.randint(1, maxlen)
        q = [lo + rng.randrange(alpha) for _ in range(n)]
        if sorted_seqs:
            q.sort(reverse=(mode == "gt"))
        seqs.append(q)
    sen = "-"
    if not guarded:
        allk = [x for q in seqs for x in q]
        r = rng.random()
        if r < 0.45:       # sentinel not smaller than any key (ties possible)
            s = top_key(mode, allk, False, rng)
        elif r < 0.85:     # strictly greater
            s = top_key(mode, allk, True, rng)
        else:              # arbitrary sentinel (the padding players take part in the tournament)
            s = lo + rng.randrange(alpha + 1)
        if mode == "gt" and s == 0 and min(allk) == 0:
            pass
        sen = str(s)
        if rng.random() < 0.7:
            # like multiway_merge_sentinels: every sequence is followed by a copy of the sentinel,
            # so that no player runs out while real keys remain
            seqs = [q + [s] for q in seqs]
    total = sum(len(q) for q in seqs)
    lines = [f"case {cid}",
             f"new {v} {mode} {k} {sen} " + " ".join(",".join(map(str, q)) if q else "-" for q in seqs)]
    lines += storage_lines(rng, v, fresh_p)
    if rng.random() < 0.6:
        lines.append("ctor " + rng.choice(["temp", "mutate", "factory"]))
    lines.append(init_line(rng, k))
    lines += ["replace"] * (total + 1)
    return lines


def storage_lines(rng, v, fresh_p=0.3):
    """where the keys handed to the tree live: the pointer classes must never read a key the
    caller has consumed (head slot refilled in place / consumed keys freed)"""
    r = rng.random()
    if v[0] == "p":
        # `fresh` turns every stale read into an ASan abort (one harness restart each): keep the
        # share small when many cases are generated
        if r < 0.35:
            return ["storage slot"]
        if r < 0.35 + fresh_p:
            return ["storage fresh"]
        return []
    if r < 0.1:
        return [rng.choice(["storage slot", "storage fresh"])]
    return []


def init_line(rng, k):
    """players are registered (insert_start) in ascending, descending, random order or with
    player 0 last"""
    r = rng.random()
    if r < 0.3 or k == 1:
        return "init"
    if r < 0.5:
        order = list(range(k - 1, -1, -1))
    elif r < 0.7:
        order = list(range(1, k)) + [0]
    else:
        order = list(range(k))
        rng.shuffle(order)
    return "init " + ",".join(map(str, order))


def exhaustive_cases(kmax, variants, start_id):
    """all key tuples over {0,1} with at most 2 keys per player"""
    seq_choices = [[]] + [[a] for a in (0, 1)] + [[a, b] for a in (0, 1) for b in (0, 1)]
    cs = []
    cid = start_id
    for v in variants:
        guarded = v[1] == "g"
        for k in range(1, kmax + 1):
            for seqs in itertools.product(seq_choices if guarded else seq_choices[1:], repeat=k):
                sen = "-" if guarded else "1"
                total = sum(len(q) for q in seqs)
                order = ["init", "init " + ",".join(map(str, range(k - 1, -1, -1))),
                         "init " + ",".join(map(str, list(range(1, k)) + [0]))][cid % 3]
                st = ([[], ["storage slot"], ["storage fresh"]][(cid // 3) % 3]) if v[0] == "p" else []
                cs.append([f"case x{cid}",
                           f"new {v} lt {k} {sen} " + " ".join(",".join(map(str, q)) if q else "-" for q in seqs)]
                          + st + [["ctor named"], ["ctor temp"], ["ctor mutate"], ["ctor factory"]][(cid // 9) % 4]
                          + [order] + ["replace"] * (total + 1))
                cid += 1
    return cs


def huge_case(rng, cid, variant, k):
    """more players than a 14-/16-bit index type can address (`Source`)"""
    guarded = variant[1] == "g"
    seqs = []
    for i in range(k):
        if guarded and rng.random() < 0.5:
            seqs.append([])
        else:
            seqs.append([5 + rng.randrange(20)])
    for i in (k - 1, k - 2, k // 2, 3):          # the smallest keys far from player 0
        seqs[i] = [rng.randrange(3), 1 + rng.randrange(3)]
    sen = "-" if guarded else "99"
    if not guarded:
        seqs = [q + [99] for q in seqs]
    order = rng.choice(["init", "init " + ",".join(map(str, range(k - 1, -1, -1)))])
    return [f"case {cid}",
            f"new {variant} lt {k} {sen} " + " ".join(",".join(map(str, q)) if q else "-" for q in seqs),
            order] + ["replace"] * 12


class C09(flow.Spec):
    pid = "C09"
    case_timeout = 900
    search_budget_s = 120
    source_files = ("tlx/container/loser_tree.hpp",)
    harness = dict(name="c09", sources=["c09.cpp"])
    nontrivial_rule = ("a case = one tree (class, comparator, k in 1..17, per-player key sequences, sentinel) with "
                       "init and replace-the-winner until nothing is left; non-trivial when k >= 3, at least 3 "
                       "replaces were executed and some key occurs twice; distinct = distinct (class, keys) lines")
    assumptions = [
        "Source is uint32_t: theorems assume 2*k_ <= 2^32 (the constructor's `2 * k_` overflows beyond that)",
        "copy vs pointer classes differ only in representation (sup flag vs null key pointer); the key "
        "members of supremum entries and the first_insert_ fill are not modelled",
        "the comparator is a strict weak order (irreflexive, transitive, transitive incomparability)",
        "unguarded classes: the caller never lets a player run out (documented precondition); the padding "
        "players carry the sentinel and take part in the tournament",
        "round_up_to_power_of_two is modelled by its specification (verified in C20)",
    ]
    trusted_base = ["Lean 4 kernel", "axioms: propext, Quot.sound, Classical.choice at most (audited per theorem)",
                    "hand-written model TlxVerif/Model/C09LoserTree.lean tied to loser_tree.hpp by the line-protocol "
                    "correspondence on the whole losers_ array (harness/c09.cpp, protected members exposed, ASan+UBSan)"]

    extra_lean_sources = ("TlxVerif/Gen/C09Types.lean",)

    def translator(self, ctx):
        import os, sys
        from vlib import core
        out = os.path.join(core.LEAN, "TlxVerif", "Gen", "C09Types.lean")
        rc, o, e = core.sh([sys.executable, os.path.join(core.VERIF, "tools", "c09_types.py"), core.REPO, out])
        if rc != 0:
            return ["translator tools/c09_types.py: " + (e.strip() or o.strip() or f"rc={rc}")]
        return []

    def cases(self, ctx, seed, tier, round_no=0):
        rng = random.Random(seed * 1000003 + round_no * 7 + 9)
        n = 2500 if tier == "quick" else 150000
        cs = []
        cid = 0
        # every class x every k once, then random
        for v in VARIANTS:
            for k in range(1, 18):
                cs.append(gen_case(rng, f"g{cid}", v, k)); cid += 1
        for _ in range(n):
            cs.append(gen_case(rng, f"g{cid}", fresh_p=0.3 if tier == "quick" else 0.02)); cid += 1
        if round_no == 0:
            cs += exhaustive_cases(3 if tier == "quick" else 4, VARIANTS, 0)
            if tier == "quick":
                cs.append(huge_case(rng, f"h{cid}", "cgs", 65541))
            else:
                for k in (16385, 40000, 65541, 70000):
                    for v in ("cgu", "cgs", "pgs", "cuu", "pus"):
                        cs.append(huge_case(rng, f"h{cid}", v, k)); cid += 1
        return cs

    def probe_lines(self, case, idx):
        """a structural disagreement of losers_ is turned into an observable one by draining the tree"""
        t = case[1].split()
        total = sum(len(q.split(",")) for q in t[5:] if q != "-")
        return ["replace"] * (total + 1)

    def nontrivial(self, case, answers):
        t = case[1].split()
        if len(t) < 5 or int(t[3]) < 3:
            return None
        done = sum(1 for op, a in zip(case[2:], answers[2:]) if op == "replace" and a.startswith("w="))
        keys = [x for q in t[5:] if q != "-" for x in q.split(",")]
        if done >= 3 and len(set(keys)) < len(keys):
            return (case[1], case[2])
        return None


SPEC = C09()
