"""C04 — sort_strings_parallel is correct, race-free and memory-safe under every schedule.

Stages (DESIGN §3): B Lean theorems (functional layer + step-object protocol), C/D the
harness harness/c04*.cpp (real threads, ASan+UBSan, asserts enabled) against the model
driver and its direct oracle; thorough tier: the same cases once more on a ThreadSanitizer
build and on an NDEBUG ASan build (oracle only), and the counter-event monitor."""
import hashlib
import os
import random
import subprocess
import time

from vlib import core, flow

HDIR = os.path.join(core.VERIF, "harness")
HSRC = ["c04.cpp", "c04_pa.cpp", "c04_pb.cpp", "c04_pc.cpp", "c04_pd.cpp"]
TLX_SRC = ["tlx/thread_pool.cpp", "tlx/multi_timer.cpp", "tlx/logger/core.cpp", "tlx/die/core.cpp"]
SHIM = os.path.join(HDIR, "c04_detsched", "shim.hpp")
VARIANTS = {
    # name -> (sanitizer flags, optimisation of the parameter translation units)
    "c04": (["-fsanitize=address,undefined", "-fno-sanitize-recover=all"], "-O0"),
    "c04nd": (["-fsanitize=address,undefined", "-fno-sanitize-recover=all", "-DNDEBUG"], "-O0"),
    "c04tsan": (["-fsanitize=thread", "-DNDEBUG"], "-O1"),
    # the sorter under the deterministic scheduler: every translation unit force-includes the shim
    "c04d": (["-fsanitize=address,undefined", "-fno-sanitize-recover=all"], "-O0"),
    # the same without the assertions of the library: the harness oracles (phase protocol, result) must see it
    "c04dn": (["-fsanitize=address,undefined", "-fno-sanitize-recover=all", "-DNDEBUG"], "-O0"),
}
# watchdog marker of the harnesses (see harness/c04.cpp): fresh for every check run
os.makedirs(os.path.join(core.BUILD, "C04"), exist_ok=True)
os.environ["C04_WATCHDOG"] = os.path.join(core.BUILD, "C04", f"watchdog-{os.getpid()}")
for _f in os.listdir(os.path.join(core.BUILD, "C04")):
    if _f.startswith("watchdog-"):
        try:
            os.remove(os.path.join(core.BUILD, "C04", _f))
        except OSError:
            pass
# a sort that no longer terminates (broken classifier, ...) must not eat the machine
core.SAN_ENV["ASAN_OPTIONS"] = core.SAN_ENV["ASAN_OPTIONS"] + ":hard_rss_limit_mb=8192"
core.SAN_ENV["UBSAN_OPTIONS"] = "print_stacktrace=0:halt_on_error=1:exitcode=98"   # message must fit the kept stderr tail
os.environ.setdefault("TSAN_OPTIONS", "halt_on_error=1:exitcode=66:second_deadlock_stack=1")


def build_c04(ctx, name="c04", sources=(), flags=(), repo_sources=(), sanitize=True,
              include_repo=True, std_flags=None):
    """Replacement of core.build_harness for this check: the parameter sets of
    the sorter are compiled as separate translation units, four at a time
    (each PS5 parameter set costs seconds of compile time under ASan)."""
    san, opt = VARIANTS[name]
    h = hashlib.sha256()
    h.update(core.repo_hash().encode())
    for root, dirs, files in os.walk(HDIR):
        dirs.sort()
        for fn in sorted(files):
            if (fn.startswith("c04") or fn == "common.hpp" or "c04_detsched" in root) and fn.endswith((".cpp", ".hpp")):
                with open(os.path.join(root, fn), "rb") as f:
                    h.update(fn.encode()); h.update(f.read())
    h.update((" ".join(san) + opt + core.CXX).encode())
    tag = h.hexdigest()[:16]
    out = os.path.join(ctx.work, f"{name}-{tag}")
    if os.path.exists(out):
        return out, "cached"
    for old in os.listdir(ctx.work):
        if old.startswith(name + "-"):
            p = os.path.join(ctx.work, old)
            try:
                if os.path.isdir(p):
                    for f in os.listdir(p):
                        os.remove(os.path.join(p, f))
                    os.rmdir(p)
                else:
                    os.remove(p)
            except OSError:
                pass
    odir = out + ".obj"
    os.makedirs(odir, exist_ok=True)
    base = [core.CXX, "-std=gnu++17", "-g", "-fno-omit-frame-pointer"] + san + ["-I" + core.REPO, "-I" + HDIR]
    jobs = []
    if name in ("c04d", "c04dn"):
        base += ["-include", SHIM]
        jobs.append((os.path.join(HDIR, "c04d.cpp"), opt))
    else:
        for s in HSRC:
            o = opt if s != "c04_pa.cpp" else "-O1"      # default parameters run on million-string inputs
            jobs.append((os.path.join(HDIR, s), o))
    for s in TLX_SRC:
        jobs.append((os.path.join(core.REPO, s), "-O1"))
    # biggest translation units first
    order = {"c04_pc.cpp": 0, "c04_pd.cpp": 1, "c04_pb.cpp": 2, "c04_pa.cpp": 3}
    jobs.sort(key=lambda j: order.get(os.path.basename(j[0]), 9))
    t = time.time()
    running, objs, log, failed = [], [], "", False
    pending = list(jobs)
    while pending or running:
        while pending and len(running) < 4:
            src, o = pending.pop(0)
            obj = os.path.join(odir, src.replace("/", "_") + ".o")
            objs.append(obj)
            running.append((subprocess.Popen(base + [o, "-c", src, "-o", obj], stdout=subprocess.PIPE,
                                             stderr=subprocess.STDOUT, text=True), src))
        p, src = running.pop(0)
        o, _ = p.communicate()
        if p.returncode != 0:
            failed = True
            log += f"--- {src}\n{o[-3000:]}\n"
    if not failed:
        rc, o, e = core.sh([core.CXX] + san + objs + ["-o", out + ".tmp", "-pthread"], timeout=600)
        if rc != 0:
            failed = True
            log += o + e
    ctx.say(f"build harness {name}: {'FAILED' if failed else 'ok'} ({time.time()-t:.1f}s)")
    for f in os.listdir(odir):
        os.remove(os.path.join(odir, f))
    os.rmdir(odir)
    if failed:
        return None, log[-6000:]
    os.replace(out + ".tmp", out)
    return out, log


core.build_harness = build_c04     # only inside this check's process (flow.run / flow.replay)

_orig_crash_message = core.crash_message


def crash_message_c04(rc, err):
    """one-line class of a harness death: the harness prints `C04-DEATH: <kind> in <innermost
    tlx/sort frame>` (no addresses, template arguments, line numbers) from its ASan report
    callback / its __assert_fail; otherwise UBSan's or TSan's own one-line summary"""
    import re
    if rc == 91:
        return "#VIOL sort did not terminate within the time limit"
    m = re.search(r"C04-DEATH: (.*)", err)
    if m:
        return f"#VIOL crash rc={rc} {m.group(1).strip()[:200]}"
    for l in err.splitlines():
        if "runtime error:" in l:
            return f"#VIOL crash rc={rc} ubsan " + re.sub(r"^.*?/tlx/", "tlx/", l.strip())[:160]
    for l in err.splitlines():
        if l.startswith("SUMMARY: ThreadSanitizer"):
            l = re.sub(r"\(.*?\)", "", l)
            l = re.sub(r"<.*", "", l)
            return f"#VIOL crash rc={rc} tsan " + re.sub(r"/\S*/tlx/", "tlx/", l[25:].strip())[:160]
    return _orig_crash_message(rc, err)


core.crash_message = crash_message_c04

# --------------------------------------------------------------------------- generators

PARAMS_SMALL = ["t2s8i4", "t1s4i4", "t2s16i8", "t3s16i4", "t2s8i4n", "t2s8i4r", "t4s64i16",
                "t2s8i4u", "t2s8i4e", "t2s8i4k", "t1s4i3", "t1s4i2", "t1s2i1"]
PARAM_NUM = {"t2s8i4": (2, 8, 4), "t1s4i4": (1, 4, 4), "t2s16i8": (2, 16, 8), "t3s16i4": (3, 16, 4),
             "t2s8i4n": (2, 8, 4), "t2s8i4r": (2, 8, 4), "t4s64i16": (4, 64, 16), "t2s8i4u": (2, 8, 4),
             "t2s8i4e": (2, 8, 4), "t2s8i4k": (2, 8, 4), "t1s4i3": (1, 4, 3), "t1s4i2": (1, 4, 2),
             "t1s2i1": (1, 2, 1), "def": (10, 1 << 20, 32)}
REPR4 = ["uc", "c", "vuc", "vc"]
REPR10 = REPR4 + ["cuc", "cc", "vcuc", "vcc", "s", "vs"]
ALPHAS = [b"a", b"ab", b"abc", b"\x01\xff", b"\x01\x7f\x80\xff", bytes(range(1, 256))]


def hexs(b):
    return b.hex() if b else "-"


def rstr(rng, alpha, lo, hi):
    return bytes(rng.choice(alpha) for _ in range(rng.randint(lo, hi)))


def gen_strings(rng, n):
    k = rng.randrange(11)
    alpha = rng.choice(ALPHAS)
    if k == 0:      # all equal (shorter than, exactly, longer than one or two keys)
        s = rstr(rng, alpha, 0, rng.choice([3, 8, 9, 17]))
        return [s] * n
    if k == 1:      # short strings
        return [rstr(rng, alpha, 0, 3) for _ in range(n)]
    if k == 2:      # prefix chain
        base = rstr(rng, alpha, 20, 30)
        return [base[:rng.randint(0, len(base))] for _ in range(n)]
    if k == 3:      # one bucket: common prefix of at least one key
        pre = rstr(rng, alpha, 8, 18)
        return [pre + rstr(rng, alpha, 0, 3) for _ in range(n)]
    if k == 4:      # few distinct values
        d = [rstr(rng, alpha, 0, 12) for _ in range(rng.randint(1, 4))]
        return [rng.choice(d) for _ in range(n)]
    if k == 5:      # skewed: most strings share a long prefix (deep recursion into one bucket)
        pre = rstr(rng, alpha, 5, 10)
        return [pre + rstr(rng, alpha, 0, 10) if rng.random() < 0.85 else rstr(rng, alpha, 0, 6) for _ in range(n)]
    if k == 6:      # lengths around multiples of the key width
        return [rstr(rng, alpha, 0, 0) + bytes(rng.choice(alpha) for _ in range(rng.choice([7, 8, 9, 15, 16, 17]))) for _ in range(n)]
    if k == 7:      # everything distinct and short: only singleton buckets, no sub-job
        return [bytes([1 + (i * 7) % 255]) + (b"" if i < 255 else bytes([1 + i // 255])) for i in range(n)]
    if k == 8:      # two heavy values and noise: children finish before the creator returns
        a, b = rstr(rng, alpha, 1, 9), rstr(rng, alpha, 1, 9)
        return [a if rng.random() < 0.45 else b if rng.random() < 0.8 else rstr(rng, alpha, 0, 5) for _ in range(n)]
    return [rstr(rng, alpha, 0, 20) for _ in range(n)]


def sort_case(rng, cid, reps, params=None, n=None, threads=None):
    p = params or rng.choice(PARAMS_SMALL)
    if n is None:
        n = rng.choice([0, 1, 2, 3, 4, 5, 7, 8, 9, 12, 16, 17, 20, 33, 40, 64, 65, 100, 150, 300])
    strs = gen_strings(rng, n)
    thr = threads or rng.choice([1, 2, 2, 3, 3, 4, 4, 8])
    reprs = REPR10 if p in ("def", "t2s8i4") else REPR4
    lines = [f"case s{cid}", f"cfg {p} {rng.choice(reprs)} {thr} {rng.randrange(2)} {reps}"]
    # runs of equal strings are written compactly
    i = 0
    while i < len(strs):
        j = i
        while j < len(strs) and strs[j] == strs[i]:
            j += 1
        lines.append(f"s {hexs(strs[i])}" + (f" {j - i}" if j - i > 1 else ""))
        i = j
    lines.append("go")
    return lines


LP_LENGTHS = [100, 250, 255, 256, 257, 300, 1000]     # through the model; 70000 via `big ... prefix` (oracle only)


def lp_tails(rng, n, alpha):
    """tails behind a long common prefix: the MKQS / sample sort partitions (<, =, >) and the
    group borders of insertion_sort_cache then lie at depth >= len(prefix)"""
    k = rng.randrange(4)
    if k == 0:      # random short tails
        return [rstr(rng, alpha, 0, 12) for _ in range(n)]
    if k == 1:      # a second shared stretch, then one differing byte, duplicates
        mid = rstr(rng, alpha, 0, 9)
        return [mid + rstr(rng, alpha, 0, 2) for _ in range(n)]
    if k == 2:      # few distinct tails (large `=` parts), some longer than one key
        d = [rstr(rng, alpha, 0, 20) for _ in range(rng.randint(2, 5))]
        return [rng.choice(d) for _ in range(n)]
    return [rstr(rng, alpha, 7, 9) if rng.random() < 0.5 else rstr(rng, alpha, 0, 30) for _ in range(n)]


def lp_case(rng, cid, reps, L, params=None, rep=None, lcp=None, n=None, threads=None):
    """sort case whose strings share a prefix of L characters (`px` line)"""
    p = params or rng.choice(PARAMS_SMALL + ["def"])
    reprs = REPR10 if p in ("def", "t2s8i4") else REPR4
    rep = rep or rng.choice(reprs)
    if n is None:
        n = rng.choice([33, 40, 64, 100]) if p in ("def", "t4s64i16", "t2s16i8") else rng.choice([9, 17, 33, 40, 70])
    alpha = rng.choice(ALPHAS[1:])
    pat = rstr(rng, alpha, 1, 3)
    thr = threads or rng.choice([1, 2, 3, 4])
    lcp = rng.randrange(2) if lcp is None else lcp
    lines = [f"case lp{cid}", f"cfg {p} {rep} {thr} {lcp} {reps}", f"px {hexs(pat)} {L}"]
    tails = lp_tails(rng, n, alpha)
    i = 0
    while i < len(tails):
        j = i
        while j < len(tails) and tails[j] == tails[i]:
            j += 1
        lines.append(f"s {hexs(tails[i])}" + (f" {j - i}" if j - i > 1 else ""))
        i = j
    lines.append("go")
    return lines


def key_of(s, depth):
    w = s[depth:depth + 8]
    return int.from_bytes(w + b"\0" * (8 - len(w)), "big")


def classify_case(rng, cid):
    kind = rng.choice([0, 0, 1])
    tb = rng.choice([1, 2, 3]) if kind == 0 else rng.choice([2, 3])
    ns = (1 << tb) - 1
    pre = rstr(rng, rng.choice(ALPHAS), 0, 3)
    depth = len(pre)
    alpha = rng.choice(ALPHAS[:5])
    pool = [pre + rstr(rng, alpha, 0, rng.choice([2, 4, 9, 12])) for _ in range(rng.choice([1, 2, 3, 6, 12]))]
    if rng.random() < 0.4:
        samples = [rng.choice(pool) for _ in range(2 * ns)]
    else:
        samples = [pre + rstr(rng, alpha, 0, 10) for _ in range(2 * ns)]
    samples.sort(key=lambda s: key_of(s, depth))
    strs = [rng.choice(pool + samples) if rng.random() < 0.6 else pre + rstr(rng, alpha, 0, 12)
            for _ in range(rng.choice([0, 1, 3, 5, 8, 13, 20]))]
    op = rng.choice(["classify", "step", "step"])
    return [f"case c{cid}", f"{op} {kind} {tb} {depth} " + ",".join(hexs(s) for s in samples) + " " +
            (",".join(hexs(s) for s in strs) if strs else "none")]


def keyfn_case(rng, cid):
    lines = [f"case k{cid}"]
    for _ in range(20):
        a = rng.getrandbits(64)
        k = rng.random()
        if k < 0.3:
            b = a ^ (rng.getrandbits(8) << (8 * rng.randrange(8)))     # differ in one byte
        elif k < 0.5:
            b = a ^ (1 << rng.randrange(64))
        elif k < 0.6:
            b = a
        else:
            b = rng.getrandbits(64)
        if rng.random() < 0.3:
            a &= ~((1 << (8 * rng.randrange(9))) - 1) & (2 ** 64 - 1)    # trailing zero bytes
        lines.append(f"keyfn {a} {b} {rng.randrange(8)}")
    for _ in range(6):
        s = rstr(rng, rng.choice(ALPHAS), 0, 12)
        lines.append(f"key {rng.randint(0, len(s))} {hexs(s)}")
    return lines


DET_PARAMS = ["t2s8i4", "t1s4i4", "t1s2i1"]


def det_case(rng, cid):
    """one run of the sorter under the deterministic scheduler (harness/c04d.cpp)"""
    p = rng.choice(DET_PARAMS)
    n = rng.choice([0, 1, 2, 3, 5, 8, 9, 12, 17, 20, 33, 40, 64])
    strs = gen_strings(rng, n)
    px = None
    if rng.random() < 0.08:       # long shared prefix (narrow LCP fields)
        alpha = rng.choice(ALPHAS[1:])
        px = f"px {hexs(rstr(rng, alpha, 1, 3))} {rng.choice([250, 255, 256, 257, 300])}"
        strs = lp_tails(rng, max(n, 9), alpha)
    mode = rng.choice(["prng", "pct"])
    arg = rng.choice([0, 32, 128, 230]) if mode == "prng" else rng.choice([1, 2, 3, 5])
    # flags: 1 = scheduling point after every atomic write / unlock, 2 = race-directed (check-then-act
    # windows between two accesses of one thread to the same atomic get a priority change / a pause)
    lines = [f"case d{cid}", f"dcfg {p} {rng.choice([1, 2, 2, 3, 3, 4])} {rng.randrange(2)} {mode} "
                             f"{rng.randrange(1, 10 ** 6)} {arg} {rng.choice([0, 1, 1, 2, 2, 3, 3, 3])}"]
    if px:
        lines.append(px)
    i = 0
    while i < len(strs):
        j = i
        while j < len(strs) and strs[j] == strs[i]:
            j += 1
        lines.append(f"s {hexs(strs[i])}" + (f" {j - i}" if j - i > 1 else ""))
        i = j
    lines.append("dgo")
    return lines


def det_corpus():
    import glob
    cs = []
    for p in sorted(glob.glob(os.path.join(core.VERIF, "replays", "C04", "corpus_det", "*.ops"))):
        cs += core.split_cases([l.rstrip("\n") for l in open(p) if l.strip() and not l.startswith("#")])
    return cs


def det_stage(ctx, cases, spec, label="detsched", variant="c04d"):
    """Runs `cases` on the scheduler harness; compares order + LCP with the functional model and
    replays every event trace through the protocol transition system (driver op `trace`).
    Returns (stats, failures) with failures = [(case, message)]."""
    hb, log = build_c04(ctx, name=variant)
    if hb is None:
        return {"built": False}, [([], "detsched harness does not compile: " + log[-600:].replace("\n", " | "))]
    t = time.time()
    # one process per run: the sorter seeds its sampling PRNG with a heap address, so a run is a
    # function of (input, schedule seed) only when it starts from a fresh process image (ASLR is
    # switched off by the harness) -- this is what makes a replay file reproduce the schedule
    from concurrent.futures import ThreadPoolExecutor
    with ThreadPoolExecutor(max_workers=4) as ex:
        res = list(ex.map(lambda c: core._run_impl_cases([hb, "run"], [c], 300)[0], cases))
    fails, dlines, idx = [], [], []
    steps = events = 0
    for ci, (c, (answers, viols, crash)) in enumerate(zip(cases, res)):
        for v in viols:
            fails.append((c, v))
        if crash is not None:
            fails.append((c, core.crash_message(crash[0], crash[1])))
            continue
        a = answers[-1] if answers else ""
        if not a.startswith("ok ") or a.count(" | ") < 3:
            if not viols:
                fails.append((c, "#VIOL detsched run gave no result: " + a[:120]))
            continue
        parts = a.split(" | ")
        steps += int(parts[2].split("steps=")[1])
        events += len(parts[3].split())
        cfg = c[1].split()
        # the same input through the functional model, then the trace through the protocol model
        dl = ["case", f"cfg {cfg[1]} uc {cfg[2]} {cfg[3]} 1"] + [l for l in c[2:] if l.startswith(("s ", "px "))] + ["go", "trace " + parts[3]]
        dlines.append(dl)
        idx.append((ci, parts[0] + " | " + parts[1]))
    if dlines:
        mout, mrc, merr = core.run_lines([core.driver_path("C04")], [l for d in dlines for l in d], timeout=1500)
        pos = 0
        for d, (ci, want) in zip(dlines, idx):
            out = mout[pos:pos + len(d)]
            pos += len(d)
            if len(out) < len(d):
                fails.append((cases[ci], "#VIOL model driver died: " + merr[-200:]))
                break
            if out[-2] != want:
                fails.append((cases[ci], f"#VIOL result under the scheduler differs from the model: impl `{want[:80]}` model `{out[-2][:80]}`"))
            if not out[-1].startswith("trace-ok"):
                fails.append((cases[ci], "#VIOL event trace is not a run of the protocol model: " + out[-1][:300]))
    ctx.say(f"stage {label}: {len(cases)} runs, {steps} scheduler steps, {events} events replayed through the protocol model, "
            f"{len(fails)} failures ({time.time()-t:.1f}s)")
    return {"built": True, "runs": len(cases), "scheduler_steps": steps, "events_replayed": events}, fails


class C04(flow.Spec):
    pid = "C04"
    harness = dict(name="c04")
    case_timeout = 1500
    nontrivial_rule = ("a `go` case is non-trivial when its input is larger than the sequential threshold "
                       "max(smallsort_threshold, n / threads), i.e. the run starts with a PS5BigSortStep whose "
                       "count/distribute jobs and sub-steps are spread over >= 2 workers; distinct = distinct "
                       "(parameters, representation, threads, lcp, input) tuples; `step`/`classify` cases with "
                       ">= 2 non-empty buckets are counted as well")
    assumptions = [
        "real-thread stage: schedules are whatever the OS produces over the repetitions and thread counts; "
        "the for-all-schedules claim rests on the Lean protocol theorems (sequentially consistent interleavings) "
        "and on the bucket-disjointness theorems, not on these runs",
        "C++ memory model below sequential consistency is not covered (TSan run in the thorough tier as support)",
        "insertion_sort() is the model and theorem of property C03 (C03.insertionSort, LCP overload; its correspondence lives in C03); std::sort of the sample and the key sort inside insertion_sort_cache are taken by their specification (List.mergeSort)",
        "the end-to-end theorems assume EnvOk: thresholds >= 1, 1 <= TreeBits <= 31, sample indices < n, no empty range sent to a parallel step; input strings NUL-free (C strings)",
        "object order inside a bucket, pivot and sample choice are abstracted (theorems quantify over them)",
        "32-bit key_type parameter sets are covered by the correspondence only",
    ]
    trusted_base = ["Lean 4 kernel", "axioms: propext, Quot.sound, Classical.choice at most (audited per theorem)",
                    "hand-written models TlxVerif/Model/C04*.lean tied to parallel_sample_sort.hpp / sample_sort_tools.hpp "
                    "by the correspondence on results (order + LCP), classifier internals (splitters, splitter_lcp, "
                    "bucket ids, bucket bounds, border LCPs) and key helper functions",
                    "harness/c04*.cpp incl. the interposed std::thread::hardware_concurrency()",
                    "AddressSanitizer / UndefinedBehaviorSanitizer / ThreadSanitizer of g++ 12"]

    def viol_class(self, message):
        import re
        m = re.sub(r"\[.*?\]", "", message)
        m = re.sub(r"[0-9]+", "N", m)
        return m[:90]

    def cases(self, ctx, seed, tier, round_no=0):
        rng = random.Random(seed * 1000003 + round_no * 7919 + 4)
        quick = tier == "quick"
        self.case_timeout = 300 if quick else 1500      # a batch that hangs is cut off and blamed on the case it is in
        reps = 3 if quick else 8
        cs = []
        for i in range(30 if quick else 300):
            cs.append(keyfn_case(rng, i))
        for i in range(150 if quick else 3000):
            cs.append(classify_case(rng, i))
        for i in range(320 if quick else 5000):
            cs.append(sort_case(rng, i, reps))
        # public API with the default parameters on small inputs (sequential path) ...
        for i in range(12 if quick else 100):
            cs.append(sort_case(rng, f"d{i}", reps, params="def"))
        # long shared prefixes: depth_ reaches / passes every narrow integer width (uint8 LCP fields:
        # 250..257, 300; uint16: 70000) -- every parameter set and representation, with and without LCP
        combos = [(p, r) for p in PARAMS_SMALL + ["def"] for r in (REPR10 if p in ("def", "t2s8i4") else REPR4)]
        if quick:
            rng.shuffle(combos)
            k = 0
            for L in LP_LENGTHS:
                cs.append(lp_case(rng, f"{L}a", 2, L, params="def", rep=combos[k][1] if combos[k][0] == "def" else None, lcp=1, n=rng.choice([40, 64])))
                cs.append(lp_case(rng, f"{L}b", 2, L, params=rng.choice(PARAMS_SMALL), lcp=1))
                k += 1
            for i in range(6):
                cs.append(lp_case(rng, f"r{i}", 2, rng.choice(LP_LENGTHS)))
        else:
            for ci, (p, r) in enumerate(combos):
                for L in LP_LENGTHS:
                    for lcp in (0, 1):
                        cs.append(lp_case(rng, f"{ci}_{L}_{lcp}", 2, L, params=p, rep=r, lcp=lcp))
        if round_no == 0:
            lpb = [("def", "uc", 1, 64)] if quick else [(p, r, l, 48) for (p, r) in combos for l in (0, 1)]
            for j, (p, r, l, n) in enumerate(lpb):
                cs.append([f"case lpb{j}", f"big {p} {r} {rng.choice([1, 2, 3])} {l} 1 prefix {n} {seed * 17 + j} {rng.choice([2, 3, 255])} 70000"])
        # ... and on inputs large enough for the parallel step (generated inside the harness)
        big = [("equal", 1100000, 3, 3, 2, 0, "uc"), ("skew", 2200000, 3, 6, 2, 1, "cuc"),
               ("random", 1300000, 4, 10, 3, 1, "s")]
        if not quick:
            big += [("few", 1500000, 3, 5, 4, 0, "vc"), ("equal", 1200000, 2, 9, 3, 1, "vs"),
                    ("chain", 1200000, 1, 40, 4, 1, "c"), ("prefix", 1400000, 3, 12, 2, 0, "vcuc"),
                    ("skew", 3300000, 3, 6, 3, 1, "uc"), ("random", 2500000, 2, 6, 8, 0, "cc")]
        if round_no == 0:
            for j, (kind, n, alpha, ln, thr, lcp, rp) in enumerate(big):
                cs.append([f"case b{j}", f"big def {rp} {thr} {lcp} 1 {kind} {n} {seed * 31 + j} {alpha} {ln}"])
        if round_no == 0:
            self._cases0 = cs
        return cs

    def nontrivial(self, case, answers):
        if len(case) >= 2 and case[1].startswith(("step", "classify")):
            a = answers[1] if len(answers) > 1 else ""
            if "bkt=" in a:
                ids = a.split("bkt=")[1].split(" ")[0]
                if len(set(ids.split(","))) >= 2:
                    return ("cl", case[1])
            return None
        if len(case) >= 2 and case[1].startswith("big"):
            return ("big", case[1])
        if len(case) >= 2 and case[1].startswith("cfg"):
            t = case[1].split()
            n = sum(int(l.split()[2]) if len(l.split()) == 3 else 1 for l in case[2:] if l.startswith("s "))
            tb, small, ins = PARAM_NUM.get(t[1], (0, 1 << 60, 0))
            thr = int(t[3])
            if n > max(small, n // thr):
                return ("go", tuple(case[1:]))
        return None

    # ---- thorough tier: the same cases on a TSan build and on an NDEBUG ASan build
    def extra_coverage(self, ctx, res):
        cov = {"stages": ["asan+ubsan (asserts on) vs model"]}
        # deterministic scheduler: PRNG and PCT schedules, traces replayed through the Lean protocol model
        rng = random.Random(ctx.seed * 7907 + 11)
        dcases = det_corpus() + [det_case(rng, i) for i in range(120 if ctx.quick() else 4000)]
        dstats, dfails = det_stage(ctx, dcases, self)
        cov["detsched"] = dstats
        cov["stages"].append("detsched: real sorter under PRNG/PCT schedules (1-4 workers), ASan, results vs model, "
                             "event traces replayed through the protocol transition system")
        # a rejected trace / a result that differs from the model is a broken correspondence, not
        # (by itself) an input on which the property fails
        corr = [(c, m) for c, m in dfails if _is_corr(m)]
        real = [(c, m) for c, m in dfails if not _is_corr(m)]
        seen = set()
        for c, msg in real:
            cls = self.viol_class(msg)
            if cls in seen or len(seen) >= 3:
                continue
            seen.add(cls)
            name = f"viol_{ctx.tier}_{ctx.seed}_detsched{len(seen)}.ops"
            small = c
            if c:
                try:
                    small = core.ddmin(c, lambda ls, cls=cls: any(self.viol_class(m) == cls
                                                                   for _, m in det_stage(_Quiet(ctx), [ls], self)[1]),
                                       keep_first=2, budget=60)
                except Exception as ex:
                    ctx.say("shrink failed:", ex)
            p = ctx.write_replay(name, ["stage: detsched", "kind: property violated on the real code under a deterministic schedule",
                                        "message: " + msg[:300],
                                        f"replay: python3 check.py C04 --replay replays/C04/{name}"], small)
            ctx.violation(p, f"property fails on the implementation (deterministic scheduler): {msg[:200]}", bool(c))
        if corr and not real:
            c, msg = corr[0]
            name = f"unproved_{ctx.tier}_{ctx.seed}_detsched.ops"
            p = ctx.write_replay(name, ["stage: detsched", "kind: the run of the real code is no longer a run of the Lean models "
                                        "(protocol trace or result); no failing input found",
                                        "message: " + msg[:400], f"replay: python3 check.py C04 --replay replays/C04/{name}"], c)
            ctx.violation(p, f"property no longer shown: {msg[:200]}", False)
        if ctx.quick():
            return cov
        # the same schedules without the library's assertions (the harness oracles must do the work)
        nstats, nfails = det_stage(ctx, dcases[:1200], self, label="detsched-ndebug", variant="c04dn")
        cov["detsched_ndebug"] = nstats
        cov["stages"].append("detsched-ndebug: 1200 of the runs on an NDEBUG build")
        nreal = [(c, m) for c, m in nfails if not _is_corr(m)]
        for k, (c, msg) in enumerate(nreal[:2]):
            name = f"viol_{ctx.tier}_{ctx.seed}_detschednd{k + 1}.ops"
            p = ctx.write_replay(name, ["stage: detsched-ndebug", "kind: property violated on the real code (NDEBUG) under a deterministic schedule",
                                        "message: " + msg[:300], f"replay: python3 check.py C04 --replay replays/C04/{name}"], c)
            ctx.violation(p, f"property fails on the implementation (deterministic scheduler, NDEBUG): {msg[:200]}", bool(c))
        cases = [c for c in getattr(self, "_cases0", []) if any(l == "go" or l.startswith("big") for l in c)]
        # the long-prefix classes are many and slow under TSan: every 6th of them in these two stages
        lp = [c for c in cases if c[0].startswith("case lp")]
        cases = [c for c in cases if not c[0].startswith("case lp")] + lp[::6]
        for variant, label, sub in (("c04tsan", "tsan", 1), ("c04nd", "asan-ndebug", 2)):
            hb, log = build_c04(ctx, name=variant)
            if hb is None:
                p = ctx.write_replay(f"unproved_{ctx.tier}_{ctx.seed}_{label}.ops",
                                     [f"kind: {label} harness does not compile", log[-800:].replace("\n", " | ")], [])
                ctx.violation(p, f"{label} harness does not compile", False)
                continue
            use = cases[::sub]
            t = time.time()
            r = core.correspondence(ctx, [hb, "run"], None, use, timeout=self.case_timeout, need_driver=False)
            ctx.say(f"stage {label}: {r.cases} cases, {len(r.viol)} oracle violations, {len(r.crash)} aborts "
                    f"({time.time()-t:.1f}s)")
            cov["stages"].append(f"{label}: {r.cases} cases, oracle + sanitizer only")
            bad = [(c, m) for c, m in r.viol] + [(c, core.crash_message(rc, err)) for c, rc, err in r.crash]
            seen = set()
            for c, msg in bad:
                cls = self.viol_class(msg)
                if cls in seen or len(seen) >= 3:
                    continue
                seen.add(cls)
                name = f"viol_{ctx.tier}_{ctx.seed}_{label}{len(seen)}.ops"
                p = ctx.write_replay(name, [f"stage: {label}", "kind: property violated on the real code",
                                            "message: " + msg[:300],
                                            f"replay: python3 check.py C04 --replay replays/C04/{name}"], c)
                ctx.violation(p, f"property fails on the implementation ({label} build): {msg[:200]}", True)
        return cov


def _is_corr(msg):
    return "event trace is not a run of the protocol model" in msg or "differs from the model" in msg


class _Quiet:
    """a Ctx that does not talk (shrinking)"""
    def __init__(self, ctx):
        self.__dict__.update(ctx.__dict__)

    def say(self, *a):
        pass


SPEC = C04()


def replay(path):
    """replay on the build named in the file's `# stage:` header (default: ASan vs model)"""
    stage = None
    for l in open(path):
        if l.startswith("# stage:"):
            stage = l.split(":", 1)[1].strip()
    if stage in ("detsched", "detsched-ndebug"):
        ctx = core.Ctx("C04", "quick", 0)
        lines = [l.rstrip("\n") for l in open(path)]
        for l in lines:
            if l.startswith("#"):
                print(l)
        core.lean_build(ctx, ["drv_c04"])
        cases = core.split_cases([l for l in lines if l.strip() and not l.startswith("#")])
        stats, fails = det_stage(ctx, cases, SPEC, variant="c04dn" if stage == "detsched-ndebug" else "c04d")
        for c, m in fails:
            print(m)
        print("replay: " + ("FAILS" if fails else "passes"))
        return 1 if fails else 0
    if stage in ("tsan", "asan-ndebug"):
        ctx = core.Ctx("C04", "quick", 0)
        hb, log = build_c04(ctx, name="c04tsan" if stage == "tsan" else "c04nd")
        if hb is None:
            print(log)
            return 1
        lines = [l.rstrip("\n") for l in open(path)]
        for l in lines:
            if l.startswith("#"):
                print(l)
        cases = core.split_cases([l for l in lines if l.strip() and not l.startswith("#")])
        bad = False
        for attempt in range(5):       # schedules vary: a race needs not show on the first run
            r = core.correspondence(ctx, [hb, "run"], None, cases, need_driver=False)
            for c, m in r.viol:
                print(m)
            for c, rc, err in r.crash:
                print(f"CRASH rc={rc}\n{err}")
            bad = bad or bool(r.viol or r.crash)
            if bad:
                break
        print("replay: " + ("FAILS" if bad else "passes (5 attempts)"))
        return 1 if bad else 0
    return flow.replay(SPEC, path)
