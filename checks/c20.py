"""C20 — integer math helpers equal their mathematical definition on the whole domain;
fall-backs agree with the intrinsics; Aggregate + / += equals one Aggregate fed with all values."""
import math
import os
import random
import re
import time
from fractions import Fraction

from vlib import core, flow

TYPES = {"u8": (8, False), "i8": (8, True), "u16": (16, False), "i16": (16, True),
         "u32": (32, False), "i32": (32, True), "u64": (64, False), "i64": (64, True)}
ONE = ["clz", "clz_t", "ctz", "ctz_t", "ffs", "ffs_t", "popcount", "popcount_g", "log2f", "log2f_t", "log2c",
       "ispow2", "ispow2_t", "rup2", "rup2_t", "rdown2", "bswap", "bswap_g", "sgn"]
TWO = ["rol", "rol_g", "ror", "ror_g", "divceil", "roundup", "absdiff"]


def exists(fn, ty):
    w, sg = TYPES[ty]
    wide = w >= 32
    if fn in ("clz", "ctz", "ffs", "popcount", "log2f", "log2c", "ispow2", "rup2", "rdown2"):
        return wide
    if fn == "popcount_g":
        return not sg
    if fn in ("bswap", "bswap_g"):
        return not sg and w >= 16
    if fn in ("rol", "rol_g", "ror", "ror_g"):
        return not sg and wide
    return True


def chunks(lst, n):
    for i in range(0, len(lst), n):
        yield lst[i:i + n]


def structured(w, rng, nrand):
    """bit patterns of width w: all one- and two-bit patterns, their complements, neighbours of powers
    of two and of the two-bit patterns, extremes, plus nrand random ones of random bit length"""
    m = (1 << w) - 1
    s = set()
    for i in range(w):
        for d in (-2, -1, 0, 1, 2):
            s.add(((1 << i) + d) & m)
        s.add(m ^ (1 << i))
        for j in range(i):
            v = (1 << i) | (1 << j)
            s.update(((v + d) & m) for d in (-1, 0, 1))
            s.add(m ^ v)
    for d in range(0, 4):
        s.update((d, m - d, (1 << (w - 1)) - 1 - d & m, (1 << (w - 1)) + d & m))
    for _ in range(nrand):
        bl = rng.randrange(1, w + 1)
        s.add(rng.getrandbits(bl))
        s.add(m ^ rng.getrandbits(bl))
    return sorted(s)


def small_structured(w, rng, nrand):
    m = (1 << w) - 1
    s = {0, 1, 2, 3, 5, 7, 10, m, m - 1, m - 2, m // 2, m // 2 + 1, m // 2 - 1, m // 3, m // 3 + 1, 2 * (m // 3)}
    for i in range(1, w):
        s.update((((1 << i) + d) & m) for d in (-1, 0, 1))
    for _ in range(nrand):
        s.add(rng.getrandbits(rng.randrange(1, w + 1)))
    return sorted(s)


class C20(flow.Spec):
    pid = "C20"
    harness = dict(name="c20", sources=["c20.cpp"])
    case_timeout = 3000
    nontrivial_rule = ("an integer case is one (function, type, sweep kind): exhaustive sweep of the 8/16-bit "
                       "instantiations, dense/strided/boundary sweeps of the 32-bit ones, structured 64-bit values "
                       "(all one- and two-bit patterns, complements, neighbours of powers of two, extremes, random); "
                       "it is non-trivial when it reaches the upper half of the type's range (top bit set) and at "
                       "least one call was executed; an Aggregate case is non-trivial when it combines (+ or +=) two "
                       "non-empty aggregates and also combines with an empty one; distinct = distinct case texts")
    assumptions = [
        "compiler intrinsics / inline asm (__builtin_clz/ctz/ffs/popcount/bswap, rol/ror) are specified, not modelled: "
        "their specification functions (Model/C20Bits spec*) are compared with the real overloads by the correspondence "
        "(exhaustively for 32 bit in the thorough tier) and the fall-back templates are proved equal to the same specification",
        "LP64: long and long long are both 64 bit (the harness calls both overloads and requires agreement)",
        "Aggregate is modelled over exact rationals; double rounding is outside the theorems and enters only through the "
        "tolerance (1e-9 * (1 + sum of squares)) of the correspondence and of the harness oracle",
        "arguments outside the documented domain are not executed: negative arguments of log2 / power-of-two rounding, "
        "n < 0 or k <= 0 for div_ceil/round_up, signed results that are not representable; round_*_to_power_of_two(0) "
        "and integer_log2_*(0) return 0 by the code's convention and are compared with the model but not with a "
        "mathematical definition",
    ]
    trusted_base = ["Lean 4 kernel", "axioms: propext, Quot.sound, Classical.choice at most (audited per theorem)",
                    "hand-written models TlxVerif/Model/C20Bits.lean, C20Agg.lean tied to tlx/math/*.hpp by the "
                    "line-protocol correspondence (harness/c20.cpp, ASan+UBSan)",
                    "specification of the compiler intrinsics (spec* functions)"]

    def __init__(self):
        self.evals = 0
        self.full32 = {}

    # Exhaustive 32-bit stage (thorough tier): every value of every single-argument 32-bit overload /
    # template on the real code against the definition oracle.  Harness-only (`x` lines; the Lean
    # model takes part in the dense sweeps of the correspondence instead), built -O2 with UBSan
    # because 2^32 evaluations per function are too slow under ASan.  Time-boxed: the functions are
    # visited in a seed-rotated order and the ones reached are recorded in the evidence.
    def translator(self, ctx):
        if ctx.quick():
            return []
        hb, log = core.build_harness(ctx, name="c20fast", sources=["c20.cpp"],
                                     std_flags=["-std=gnu++17", "-O2", "-g", "-fsanitize=undefined",
                                                "-fno-sanitize-recover=all"])
        if hb is None:
            return ["fast harness does not compile: " + log[-800:]]
        M = (1 << 32) - 1
        jobs = [(fn, ty) for fn in ONE for ty in ("u32", "i32") if exists(fn, ty)]
        k = ctx.seed % len(jobs)
        jobs = jobs[k:] + jobs[:k]
        budget = float(os.environ.get("VERIF_C20_FULL32_BUDGET", "420"))
        t0 = time.time()
        done, nviol = [], 0
        for fn, ty in jobs:
            if time.time() - t0 > budget:
                break
            lines = [f"case full32 {fn} {ty}", f"x {fn} {ty} 0 {M}"]
            out, rc, err = core.run_lines([hb, "run"], lines, timeout=3000)
            viol = [l for l in out if l.startswith("#VIOL")]
            if rc != 0 and not viol:
                viol = [core.crash_message(rc, err)]
            if viol:
                nviol += 1
                if nviol <= 3:
                    w = re.search(r"witness: (.*)$", viol[0])
                    body = [lines[0]] + ([w.group(1)] if w else []) + [lines[1]]
                    name = f"viol_{ctx.tier}_{ctx.seed}_full32_{fn}_{ty}.ops"
                    p = ctx.write_replay(name, ["kind: property violated on the real code (exhaustive 32-bit sweep)",
                                                "message: " + viol[0],
                                                f"replay: python3 check.py C20 --replay replays/C20/{name}"], body)
                    ctx.violation(p, "exhaustive 32-bit sweep: " + viol[0][:200], True)
            else:
                done.append(f"{fn}/{ty}")
        self.full32 = dict(swept_all_2_32_values=done, seconds=round(time.time() - t0, 1),
                           of=len(jobs), violations=nviol)
        ctx.say(f"exhaustive 32-bit stage: {len(done)}/{len(jobs)} (function, type) pairs swept in {time.time()-t0:.0f}s, {nviol} with violations")
        return []

    def viol_class(self, message):
        m = message.split(" witness:")[0].split(", after")[0]
        return re.sub(r"-?[0-9][0-9.e+]*", "N", m)[:80]

    # ------------------------------------------------------------------ comparison
    def compare(self, op, impl, model):
        if impl == model:
            return True
        t = op.split()
        if t and t[0] == "x":
            return model == "n/a" and impl.startswith("n=")
        if t and t[0] == "agg" and impl.startswith("count=") and model.startswith("count="):
            # impl = real doubles, model = exact rationals.  Checked bound (see notes/C20.md), u = 2^-53, C = 8:
            #   |nvar - S| <= C n u sqrt(S Q) + C n u^2 Q,  |mean - m| <= C n u sqrt(Q/n),
            #   |var(d) - S/(n-d)| <= tol_nvar/(n-d) + 4 u S/(n-d);  count, min, max, span exact
            fi = dict(x.split("=", 1) for x in impl.split())
            fm = dict(x.split("=", 1) for x in model.split())
            if fi["count"] != fm["count"]:
                return False
            n = int(fm["count"])
            lim = {"d": (Fraction(2) ** 1024 - Fraction(2) ** 971), "i": Fraction(2) ** 63}[t[1]]
            u, C = 2.0 ** -53, 8.0
            mean, S = Fraction(fm["mean"]), Fraction(fm["nvar"])
            Q = S + n * mean * mean
            tol_nvar = C * n * u * math.sqrt(float(S * Q)) + C * n * u * u * float(Q)
            tol_mean = C * n * u * math.sqrt(float(Q) / n) if n else 0.0
            tols = {"mean": tol_mean, "nvar": tol_nvar, "min": 0.0, "max": 0.0, "span": 0.0}
            for d in (0, 1):
                tols[f"var{d}"] = (tol_nvar + 4 * u * float(S)) / (n - d) if n > 1 else 0.0
            for k in ("mean", "nvar", "min", "max", "var0", "var1", "span"):
                a = fi[k]
                if a == "-" or fm[k] == "-":
                    if a != fm[k]:
                        return False
                    continue
                if a in ("nan", "inf", "-inf"):
                    return False
                a = Fraction(float(a))
                b = fm[k]
                if b in ("TMAX", "TLOWEST"):
                    b = lim if b == "TMAX" else -lim
                    if abs(a - b) > abs(b) / 10 ** 9:      # long long limits are printed as rounded doubles
                        return False
                    continue
                if abs(a - Fraction(b)) > Fraction(tols[k]):
                    return False
            return True
        return False

    # ------------------------------------------------------------------ generation
    def int_cases(self, rng, tier, round_no):
        quick = tier == "quick"
        cs = []

        def case(name, lines):
            if lines:
                cs.append([f"case {name}"] + lines)

        # 8 bit: exhaustive, also all pairs
        for ty in ("u8", "i8"):
            for fn in ONE:
                if exists(fn, ty):
                    case(f"exh8 {fn} {ty}", [f"r {fn} {ty} 0 255 1"])
            for fn in TWO:
                if exists(fn, ty):
                    case(f"exh8 {fn} {ty}", [f"r2 {fn} {ty} 0 255 1 0 255 1"])
        # 16 bit: exhaustive single argument; grids + boundary blocks for pairs
        for ty in ("u16", "i16"):
            for fn in ONE:
                if exists(fn, ty):
                    case(f"exh16 {fn} {ty}", [f"r {fn} {ty} 0 65535 1"])
            for fn in TWO:
                if not exists(fn, ty):
                    continue
                st1, st2 = (rng.choice([251, 257, 263]), rng.choice([241, 269, 271])) if quick else (61, 67)
                lines = [f"r2 {fn} {ty} {rng.randrange(st1)} 65535 {st1} {rng.randrange(st2)} 65535 {st2}"]
                blocks = [(0, 200), (32768 - 100, 32768 + 100), (65535 - 200, 65535)]
                for (a0, a1) in blocks:
                    for (b0, b1) in blocks:
                        lines.append(f"r2 {fn} {ty} {a0} {a1} 1 {b0} {b1} 1")
                case(f"grid16 {fn} {ty}", lines)
        # 32 bit: boundary blocks, a strided sweep of the whole range, random dense blocks
        M = (1 << 32) - 1
        blk = 20000 if quick else 600000
        nblk = 2 if quick else 6
        for ty in ("u32", "i32"):
            for fn in ONE:
                if not exists(fn, ty):
                    continue
                lines = [f"r {fn} {ty} 0 {blk} 1",
                         f"r {fn} {ty} {(1 << 31) - blk // 2} {(1 << 31) + blk // 2} 1",
                         f"r {fn} {ty} {(1 << 30) - blk // 2} {(1 << 30) + blk // 2} 1",
                         f"r {fn} {ty} {M - blk} {M} 1"]
                st = rng.choice([65521, 65537, 65539]) if quick else rng.choice([4093, 4099, 4111])
                lines.append(f"r {fn} {ty} {rng.randrange(st)} {M} {st}")
                for _ in range(nblk):
                    lo = rng.randrange(0, M - blk)
                    lines.append(f"r {fn} {ty} {lo} {lo + blk // 2} 1")
                lines.append("v %s %s %s" % (fn, ty, " ".join(str(((1 << k) + d) & M) for k in range(32) for d in (-1, 0, 1))))
                case(f"dense32 {fn} {ty}", lines)
            for fn in TWO:
                if not exists(fn, ty):
                    continue
                lines = []
                if fn in ("rol", "rol_g", "ror", "ror_g"):
                    xs = [0, 1, 0x80000000, 0x12345678, 0xFFFFFFFF, 0x80000001, rng.getrandbits(32), rng.getrandbits(32)]
                    for x in xs:
                        lines.append(f"r2 {fn} {ty} {x} {x} 1 0 130 1")
                        lines.append(f"r2 {fn} {ty} {x} {x} 1 {(1 << 32) - 130} {M} 1")
                        lines.append(f"r2 {fn} {ty} {x} {x} 1 {(1 << 31) - 70} {(1 << 31) + 70} 1")
                    lines.append(f"r2 {fn} {ty} {rng.randrange(4093)} {M} {rng.choice([16777213, 16777259])} {rng.randrange(97)} {M} {rng.choice([33554393, 33554467])}")
                else:
                    blocks = [(0, 60), ((1 << 31) - 30, (1 << 31) + 30), (M - 60, M), ((1 << 30) - 30, (1 << 30) + 30)]
                    for (a0, a1) in blocks:
                        for (b0, b1) in blocks:
                            lines.append(f"r2 {fn} {ty} {a0} {a1} 1 {b0} {b1} 1")
                    st1, st2 = (rng.choice([16777213, 16777259]), rng.choice([33554393, 33554467])) if quick else (1048573, 2097143)
                    lines.append(f"r2 {fn} {ty} {rng.randrange(4093)} {M} {st1} {rng.randrange(97)} {M} {st2}")
                    lines.append(f"r2 {fn} {ty} {M - 3000} {M} 7 1 3000 11")
                    lines.append(f"r2 {fn} {ty} {(1 << 31) - 3000} {(1 << 31) - 1} 7 1 3000 11")
                    S = small_structured(32, rng, 12)
                    pairs = [(a, b) for a in S for b in S]
                    for ch in chunks(pairs, 24):
                        lines.append("v2 %s %s %s" % (fn, ty, " ".join(f"{a} {b}" for a, b in ch)))
                case(f"dense32 {fn} {ty}", lines)
        # div_ceil / round_up with arguments of DIFFERENT types: all 64 type pairs; structured sets of both
        # types (powers of two and neighbours, maxima) + random values of random bit lengths, k often a power of two
        for fn in ("divceil", "roundup"):
            for tn in TYPES:
                lines = []
                for tk in TYPES:
                    wn, wk = TYPES[tn][0], TYPES[tk][0]
                    lines.append(f"sm {fn} {tn} {tk}")
                    pairs = []
                    for _ in range(24 if quick else 200):
                        a = rng.getrandbits(rng.randrange(1, wn + 1))
                        r = rng.random()
                        if r < 0.5:
                            b = 1 << rng.randrange(wk)
                        elif r < 0.6:
                            b = ((1 << rng.randrange(wk)) + rng.choice([-1, 1])) & ((1 << wk) - 1)
                        else:
                            b = rng.getrandbits(rng.randrange(1, wk + 1))
                        pairs.append((a, b))
                    for ch in chunks(pairs, 24):
                        lines.append("vm %s %s %s %s" % (fn, tn, tk, " ".join(f"{a} {b}" for a, b in ch)))
                case(f"mixed {fn} {tn}", lines)
        # 64 bit: structured + random values
        for ty in ("u64", "i64"):
            S = structured(64, rng, 200 if quick else 20000)
            for fn in ONE:
                if not exists(fn, ty):
                    continue
                case(f"struct64 {fn} {ty}", ["v %s %s %s" % (fn, ty, " ".join(map(str, ch))) for ch in chunks(S, 32)])
            S2 = small_structured(64, rng, 10 if quick else 150)
            cnts = sorted(set(list(range(0, 130)) + [(1 << 32) - d for d in range(1, 130)] + [(1 << 31) + d for d in range(-3, 4)]
                              + [rng.getrandbits(32) for _ in range(20)]))
            for fn in TWO:
                if not exists(fn, ty):
                    continue
                if fn in ("rol", "rol_g", "ror", "ror_g"):
                    xs = [1, 1 << 63, 0x0123456789ABCDEF, (1 << 64) - 1, (1 << 63) | 1] + [rng.getrandbits(64) for _ in range(3 if quick else 40)]
                    pairs = [(x, c) for x in xs for c in cnts]
                else:
                    pairs = [(a, b) for a in S2 for b in S2]
                case(f"struct64 {fn} {ty}", ["v2 %s %s %s" % (fn, ty, " ".join(f"{a} {b}" for a, b in ch)) for ch in chunks(pairs, 24)])
        return cs

    def agg_case(self, rng, cid, nops):
        bank = rng.choice("ddi")
        lines = [f"case agg{cid} {bank}"]
        p = lambda *a: lines.append(f"agg {bank} " + " ".join(str(x) for x in a))
        style = rng.randrange(4)

        def value():
            if style == 0:
                return rng.randrange(-20, 21)
            if style == 1:
                return rng.choice([0, 1, 1000, 1001, -1000, 999999, 1000000])
            if style == 2 and bank == "d":
                return f"{rng.randrange(-4000, 4000)}/{rng.choice([1, 2, 4, 8, 1024])}"
            return rng.randrange(-1000, 1000)
        for _ in range(nops):
            k = rng.random()
            r = rng.randrange(4)
            if k < 0.45:
                for _ in range(rng.choice([1, 1, 2, 3, 6])):
                    p("add", r, value())
            elif k < 0.53:
                p("new", r)
            elif k < 0.73:
                p("plus", r, rng.randrange(4), rng.randrange(4))
            elif k < 0.93:
                p("pluseq", r, rng.randrange(4))
            elif k < 0.97:
                p("copy", r, rng.randrange(4))
            else:
                p("get", r)
        return lines

    def agg_offset_case(self, rng, cid):
        """large common offset, small spread (|mean| >> stddev: the ill-conditioned case), 1..50 values per
        side, combined with + and += (and the combination fed further)"""
        bank = rng.choice("di")
        off = rng.choice([10 ** 6, 10 ** 9, 10 ** 12, -10 ** 6, -10 ** 9, -10 ** 12, 10 ** 9 + 7, 2 ** 40])
        spread = rng.choice([1, 2, 10, 10, 100])
        q = 1 if bank == "i" else rng.choice([1, 1, 2, 8])
        lines = [f"case aggoff{cid} {bank} off={off} spread={spread}"]

        def value():
            if q == 1:
                return str(off + rng.randrange(spread))
            return f"{off * q + rng.randrange(spread * q)}/{q}"
        for r in (0, 1):
            same = rng.random() < 0.1
            v0 = value()
            for _ in range(rng.randrange(1, 51)):
                lines.append(f"agg {bank} add {r} {v0 if same else value()}")
        tail = rng.choice([["plus 2 0 1", "pluseq 0 1"], ["pluseq 0 1", "plus 2 0 1"], ["plus 2 0 1", "pluseq 2 0", "pluseq 2 1"],
                           ["pluseq 0 1", "pluseq 0 0"], ["plus 2 0 1", f"add 2 {value()}", "plus 3 2 2", "pluseq 3 3"],
                           ["plus 2 3 0", "pluseq 2 1", "pluseq 1 3"]])
        lines += [f"agg {bank} {x}" for x in tail]
        return lines

    def cases(self, ctx, seed, tier, round_no=0):
        rng = random.Random(seed * 1000003 + round_no)
        cs = self.int_cases(rng, tier, round_no)
        n = 300 if tier == "quick" else 6000
        for i in range(n):
            cs.append(self.agg_case(rng, i, rng.choice([6, 12, 25, 50])))
        for i in range(150 if tier == "quick" else 3000):
            cs.append(self.agg_offset_case(rng, i))
        # popcount(const void*, size_t): every length 0..40 at every misalignment, random / extreme bytes
        lines = ["case popcount_buf"]
        for ln in list(range(0, 41)) + [rng.randrange(41, 400) for _ in range(4 if tier == "quick" else 60)]:
            for off in range(8):
                kind = rng.randrange(4)
                if kind == 0:
                    bs = bytes([0xFF] * ln)
                elif kind == 1:
                    bs = bytes(rng.choice([0, 0x80, 1, 0xFF]) for _ in range(ln))
                else:
                    bs = bytes(rng.getrandbits(8) for _ in range(ln))
                lines.append(f"pb {off} {bs.hex() or '-'}")
        cs.append(lines)
        # all short combination scripts over two registers (empty / one value / several values)
        fills = [[], [3], [1, 2, 3], [10, 20], [-5, -5, -5, -5]]
        k = 0
        for fa in fills:
            for fb in fills:
                for comb in (["plus 2 0 1"], ["pluseq 0 1"], ["pluseq 0 1", "pluseq 0 0"], ["plus 0 0 1", "pluseq 1 0"],
                             ["plus 2 0 1", "add 2 7", "add 2 9"], ["pluseq 0 1", "add 0 7", "add 0 9"], ["pluseq 0 0"]):
                    bank = "di"[k % 2]
                    lines = [f"case aggs{k} {bank}"]
                    lines += [f"agg {bank} add 0 {v}" for v in fa] + [f"agg {bank} add 1 {v}" for v in fb]
                    lines += [f"agg {bank} {c}" for c in comb] + [f"agg {bank} get {r}" for r in range(3)]
                    cs.append(lines)
                    k += 1
        return cs

    def nontrivial(self, case, answers):
        name = case[0]
        if len(case) < 2:
            return None
        if case[1].startswith("pb"):
            return ("pb", tuple(case[1:]))
        if case[1].startswith("agg"):
            counts = [0, 0, 0, 0]
            nonempty = empty = False
            for op, a in zip(case[1:], answers[1:]):
                t = op.split()
                m = re.match(r"count=(\d+)", a)
                if not m:
                    continue
                if t[2] == "plus":
                    x, y = counts[int(t[4])], counts[int(t[5])]
                elif t[2] == "pluseq":
                    x, y = counts[int(t[3])], counts[int(t[4])]
                else:
                    x = y = None
                if x is not None:
                    if x > 0 and y > 0:
                        nonempty = True
                    if x == 0 or y == 0:
                        empty = True
                counts[int(t[3])] = int(m.group(1))
            return ("agg", tuple(case[1:])) if (nonempty and empty) else None
        executed = 0
        top = False
        if case[1].startswith(("sm", "vm")):
            ex = 0
            for op, a in zip(case[1:], answers[1:]):
                m = re.search(r"n=(\d+) skip", a)
                ex += int(m.group(1)) if m else sum(1 for v in a.split() if v != "-")
            self.evals += ex
            return (name, tuple(case[1:3])) if ex else None
        for op, a in zip(case[1:], answers[1:]):
            t = op.split()
            w = TYPES[t[2]][0]
            m = re.match(r"n=(\d+) skip=(\d+)", a)
            if m:
                executed += int(m.group(1))
                hi = int(t[4])
            else:
                vals = a.split()
                executed += sum(1 for v in vals if v != "-")
                hi = max(int(x) for x in t[3:][::2 if t[0] == "v2" else 1])
            if hi >> (w - 1):
                top = True
        self.evals += executed
        return (name, tuple(case[1:3])) if (top and executed) else None

    def extra_coverage(self, ctx, res):
        return {"integer_function_evaluations": self.evals,
                "exhaustive_32bit_stage": self.full32 or "thorough tier only"}


SPEC = C20()
