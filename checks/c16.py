"""C16 — RingBuffer is a bounded deque; RingBuffer/SimpleVector element lifetimes are exact."""
import random

from vlib import flow


class Reg:
    def __init__(self):
        self.exists = False
        self.data = False
        self.max = 0
        self.size = 0


def gen_rb_case(rng, cid, nops):
    lines = [f"case rb{cid}"]
    regs = [Reg() for _ in range(3)]
    val = [0]

    def nv():
        val[0] += 1
        return val[0] if rng.random() < 0.8 else -val[0]

    for _ in range(nops):
        r = rng.randrange(3)
        R = regs[r]
        if not R.exists:
            # create: fresh, copy of / move from another existing register
            others = [i for i in range(3) if regs[i].exists and i != r]
            k = rng.random()
            if others and k < 0.2:
                s = rng.choice(others)
                if regs[s].data:
                    lines.append(f"copyctor {r} {s}")
                    R.exists, R.data, R.max, R.size = True, True, regs[s].max, regs[s].size
                    continue
            if others and k < 0.35:
                s = rng.choice(others)
                lines.append(f"movector {r} {s}")
                S = regs[s]
                R.exists, R.data, R.max, R.size = True, S.data, S.max, S.size
                S.data, S.size = False, 0
                continue
            m = rng.choice([0, 1, 2, 3, 3, 4, 5, 6, 7, 7, 8, 9])
            lines.append(f"new {r} {m}")
            R.exists, R.data, R.max, R.size = True, True, m, 0
            continue
        if not R.data:
            k = rng.random()
            if k < 0.6:
                m = rng.choice([0, 1, 2, 3, 4, 5, 7, 8, 9])
                lines.append(f"alloc {r} {m}")
                R.data, R.max, R.size = True, m, 0
            elif k < 0.75:
                lines.append(f"dtor {r}")
                R.exists = False
            else:
                others = [i for i in range(3) if regs[i].exists and i != r and regs[i].data]
                if others:
                    s = rng.choice(others)
                    if rng.random() < 0.5:
                        lines.append(f"assign {r} {s}")
                        R.data, R.max, R.size = True, regs[s].max, regs[s].size
                    else:
                        lines.append(f"massign {r} {s}")
                        R.data, R.max, R.size = True, regs[s].max, regs[s].size
                        regs[s].data, regs[s].size = False, 0
                else:
                    lines.append(f"size {r}")
            continue
        k = rng.random()
        full = R.size >= R.max
        # bias: keep the buffer cycling around its capacity so both cursors wrap
        if k < 0.40 and not full:
            op = rng.choice(["pushb", "pushb", "pushf", "pushf", "emplb", "emplf"])
            lines.append(f"{op} {r} {nv()}")
            R.size += 1
        elif k < 0.40 and full and R.size > 0:
            lines.append(f"{rng.choice(['popf', 'popb'])} {r}")
            R.size -= 1
        elif k < 0.65 and R.size > 0:
            lines.append(f"{rng.choice(['popf', 'popb', 'popb'])} {r}")
            R.size -= 1
        elif k < 0.80:
            q = rng.choice(["front", "back", "at", "size", "empty", "copyto"])
            if q in ("front", "back") and R.size == 0:
                q = "size"
            if q == "at":
                if R.size == 0:
                    q = "empty"
                else:
                    lines.append(f"at {r} {rng.randrange(R.size)}")
                    continue
            lines.append(f"{q} {r}")
        elif k < 0.84:
            lines.append(f"clear {r}")
            R.size = 0
        elif k < 0.86:
            lines.append(f"moveto {r}")
            R.size = 0
        elif k < 0.88:
            lines.append(f"dealloc {r}")
            R.data, R.size = False, 0
        elif k < 0.91:
            lines.append(f"dtor {r}")
            R.exists = False
        else:
            others = [i for i in range(3) if regs[i].exists and regs[i].data]
            s = rng.choice(others)
            if rng.random() < 0.6:
                lines.append(f"assign {r} {s}")
                if s != r:
                    R.max, R.size = regs[s].max, regs[s].size
            else:
                lines.append(f"massign {r} {s}")
                if s != r:
                    R.max, R.size = regs[s].max, regs[s].size
                    regs[s].data, regs[s].size = False, 0
    return lines


def gen_sv_case(rng, cid, nops):
    lines = [f"case sv{cid}"]
    ex = [False] * 3
    size = [0] * 3
    arr = [False] * 3
    for _ in range(nops):
        r = rng.randrange(3)
        if not ex[r]:
            others = [i for i in range(3) if ex[i] and i != r]
            if others and rng.random() < 0.3:
                s = rng.choice(others)
                lines.append(f"sv movector {r} {s}")
                ex[r], size[r], arr[r] = True, size[s], arr[s]
                size[s], arr[s] = 0, False
            elif rng.random() < 0.15:
                n = rng.choice([1, 2, 3, 5, 8])
                kk = rng.randrange(1, n + 3)
                lines.append(f"sv tnew {r} {n} {kk}")
                ex[r] = True
                size[r], arr[r] = (n, True) if kk > n else (0, False)
            else:
                n = rng.choice([0, 0, 1, 2, 3, 5, 8])
                lines.append(f"sv new {r} {n}")
                ex[r], size[r], arr[r] = True, n, n > 0
            continue
        k = rng.random()
        if k < 0.08:
            # an element constructor throws in the middle of resize(): the vector must be unchanged
            n = rng.choice([1, 2, 3, 4, 6, 9])
            kk = rng.randrange(1, n + 3)
            lines.append(f"sv tresize {r} {n} {kk}")
            if kk > n:
                size[r], arr[r] = n, True
        elif k < 0.25:
            n = rng.choice([0, 1, 2, 3, 4, 6, 9])
            lines.append(f"sv resize {r} {n}")
            size[r], arr[r] = n, True
        elif k < 0.45 and size[r] > 0:
            lines.append(f"sv set {r} {rng.randrange(size[r])} {rng.randrange(-50, 50)}")
        elif k < 0.60 and size[r] > 0:
            lines.append(f"sv get {r} {rng.randrange(size[r])}")
        elif k < 0.65:
            lines.append(f"sv fill {r} {rng.randrange(100)}")
        elif k < 0.72:
            lines.append(f"sv destroy {r}")
            size[r], arr[r] = 0, False
        elif k < 0.80:
            lines.append(f"sv dtor {r}")
            ex[r] = False
        elif k < 0.88:
            s = rng.choice([i for i in range(3) if ex[i]])
            lines.append(f"sv swap {r} {s}")
            size[r], size[s] = size[s], size[r]
            arr[r], arr[s] = arr[s], arr[r]
        elif k < 0.96:
            s = rng.choice([i for i in range(3) if ex[i]])
            lines.append(f"sv massign {r} {s}")
            if s != r:
                size[r], arr[r] = size[s], arr[s]
                size[s], arr[s] = 0, False
        else:
            lines.append(f"sv size {r}")
    return lines


class C16(flow.Spec):
    pid = "C16"
    harness = dict(name="c16", sources=["c16.cpp"])
    source_files = ("tlx/container/ring_buffer.hpp", "tlx/container/simple_vector.hpp")
    nontrivial_rule = ("random operation histories over 3 RingBuffer / 3 SimpleVector registers, capacities 0..9, "
                       "generated from VERIF_SEED; a RingBuffer case is non-trivial when begin_ or end_ wrapped "
                       "around (a push_front from begin_=0 or a cursor reaching 0 again after being positive) and it "
                       "contains a copy/move/assign; a SimpleVector case when it resizes a non-empty vector; "
                       "distinct = distinct operation sequences")
    assumptions = [
        "C++ object model (placement construction, destructor calls) is represented by the per-slot alive flag; "
        "the harness observes it through a ledger keyed by object address",
        "allocator propagation and allocator inequality in operator= are not modelled (std::allocator only)",
        "std::move / std::fill / new[] / delete[] meet their standard contracts",
        "SimpleVector modes NoInitButDestroy / NoInitNoDestroy are outside the property ('default mode')",
    ]
    trusted_base = ["Lean 4 kernel", "axioms: propext, Quot.sound, Classical.choice at most (audited per theorem)",
                    "hand-written model TlxVerif/Model/C16*.lean tied to ring_buffer.hpp/simple_vector.hpp by the "
                    "line-protocol correspondence (harness/c16.cpp with private members exposed, ASan+UBSan)",
                    "round_up_to_power_of_two modelled by its specification (verified separately in C20)"]

    def viol_class(self, message):
        return " ".join(message.split(" after ")[0].split()[:4])

    def cases(self, ctx, seed, tier, round_no=0):
        rng = random.Random(seed * 1000003 + round_no)
        n = 2000 if tier == "quick" else 30000
        cs = []
        for i in range(n):
            cs.append(gen_rb_case(rng, i, rng.choice([10, 30, 60, 120])))
        for i in range(n // 4):
            cs.append(gen_sv_case(rng, i, rng.choice([10, 30, 60])))
        return cs

    def nontrivial(self, case, answers):
        if case[0].startswith("case sv"):
            ok = any(l.startswith("sv resize") for l in case)
            return ("sv", tuple(case[1:])) if ok else None
        wrapped = False
        prev = {}
        for op, a in zip(case[1:], answers[1:]):
            parts = a.split(" ; ")
            for i, d in enumerate(parts[1:]):
                if "b=" not in d:
                    continue
                f = dict(x.split("=", 1) for x in d.split(" ") if "=" in x)
                b, e = int(f["b"]), int(f["e"])
                pb, pe = prev.get(i, (0, 0))
                if (b > pb and pb == 0 and op.startswith(("pushf", "emplf"))) or (e < pe and op.startswith(("pushb", "emplb"))) \
                        or (b < pb and op.startswith("popf")) or (e > pe and op.startswith("popb")):
                    wrapped = True
                prev[i] = (b, e)
        multi = any(l.split()[0] in ("copyctor", "movector", "assign", "massign") for l in case[1:])
        return ("rb", tuple(case[1:])) if (wrapped and multi) else None


SPEC = C16()
