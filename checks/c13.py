"""C13 — DAryHeap, DAryAddressableIntHeap and RadixHeap surface a minimum and track membership/size."""
import bisect
import random

from vlib import flow

U = 48                      # key universe of the d-ary heaps (same constant in harness and driver)
RADICES = [2, 4, 8, 16, 64]
# build_heap entry points: (first,last) over vector / deque / list / forward_list / a genuine single-pass
# input iterator, build_heap(const vector&), build_heap(vector&&)
BUILD_KINDS = ['it', 'dq', 'li', 'fl', 'sp', 'sp', 'cv', 'mv']
KTYPES = {"i8": (8, True), "u8": (8, False), "i16": (16, True),
          "u32": (32, False), "i64": (64, True), "u64": (64, False)}


def _kp(rng, keys, lo=-6, hi=6):
    return ",".join(f"{k}:{rng.randint(lo, hi)}" for k in keys) or "-"


class _Prio:
    """the generator's copy of the external priority table"""
    def __init__(self, rev):
        self.p = list(range(U))
        self.rev = rev

    def set(self, rng, keys, lo=-6, hi=6):
        out = []
        for k in keys:
            self.p[k] = rng.randint(lo, hi)
            out.append(f"{k}:{self.p[k]}")
        return ",".join(out) or "-"

    def minima(self, keys):
        best = (max if self.rev else min)(self.p[k] for k in keys)
        return [k for k in keys if self.p[k] == best]


def gen_dary_case(rng, cid, nops):
    arity = rng.randint(1, 8)
    rev = rng.randint(0, 1)
    pr = _Prio(rev)
    # key type: plain integers, a move-sensitive struct (moved-from objects are poisoned), std::string
    kt = rng.choice(["u32", "mk", "mk", "str"])
    lines = [f"case d{cid}", f"cfg dary {arity} {rev} {kt}"]
    invalid = rng.random() < 0.06           # few cases also contain operations that must be refused
    content = []                            # multiset of stored keys (exact: equal keys are indistinguishable
    pool = rng.sample(range(U), rng.choice([3, 6, 12, 30]))   # … but equal priorities of different keys are not)
    unsure = False                          # a pop with tied priorities: contents known only as a superset
    if rng.random() < 0.7:                  # many equal priorities: ties everywhere
        lines.append("setp " + pr.set(rng, pool, -3, 3))
    for _ in range(nops):
        k = rng.random()
        if k < 0.06 and content:
            # push(const&) with an argument aliasing a stored element: push(top()) or push(heap_[i])
            i = 0 if rng.random() < 0.5 else rng.randrange(len(content))
            lines.append(f"pushat {i}")
            m = pr.minima(content)
            if i == 0 and len(set(m)) == 1:
                content.append(m[0])
            else:
                unsure = True
                content.append(m[0] if i == 0 else rng.choice(content))
        elif k < 0.40:
            key = rng.choice(pool)
            lines.append(f"push {key}")
            content.append(key)
        elif k < 0.62:
            if content:
                op = rng.choice(["pop", "pop", "xtop", "top"])
                lines.append(op)
                if op != "top":
                    m = pr.minima(content)
                    if len(set(m)) > 1:
                        unsure = True       # which of the tied keys left is the heap's choice
                    content.remove(m[0])    # the count stays exact, the identity may be off when unsure
            else:
                lines.append(rng.choice(["size", "empty", "pop" if invalid else "sanity"]))   # pop on empty: bad-op
        elif k < 0.72:
            m = rng.choice([0, 1, 2, 3, arity, arity + 1, arity + 2, 2 * arity + 1, 9, 17, 26])
            ks = [rng.choice(pool) for _ in range(m)]
            lines.append(f"build {rng.choice(BUILD_KINDS)} " + (",".join(map(str, ks)) or "-"))
            content = ks
            unsure = False
        elif k < 0.82:
            ks = rng.sample(pool, min(len(pool), rng.randint(1, 4)))
            lines.append("reprio " + pr.set(rng, ks))
        elif k < 0.86:
            free = [] if unsure else [x for x in pool if x not in content]
            if free:
                lines.append("setp " + pr.set(rng, rng.sample(free, min(len(free), 2))))
            else:
                lines.append("sanity")
        elif k < 0.89:
            lines.append("clear")
            content = []
            unsure = False
        elif k < 0.92:
            lines.append("drain")
            content = []
            unsure = False
        elif k < 0.96:
            lines.append(rng.choice([f"reserve {rng.choice([0, 1, len(content), len(content) + 1, 17, 64, 300])}",
                                     "capacity", "copy", "move"]))
        else:
            lines.append(rng.choice(["size", "empty", "sanity", "top"]) if content else "size")
    return lines


def gen_addr_case(rng, cid, nops):
    arity = rng.randint(1, 8)
    rev = rng.randint(0, 1)
    pr = _Prio(rev)
    kt = "u8" if rng.random() < 0.25 else "u32"
    lines = [f"case a{cid}", f"cfg addr {arity} {rev} {kt}"]
    invalid = rng.random() < 0.06
    pool = rng.sample(range(U), rng.choice([4, 8, 16, 40]))
    if rng.random() < 0.6:
        lines.append("setp " + pr.set(rng, pool, -3, 3))
    inheap = set()       # keys certainly stored
    unc = set()          # keys of which exactly one left in a pop with tied priorities
    for _ in range(nops):
        k = rng.random()
        if unc and k < 0.7:
            # resolve: update(key) is valid for present and absent keys and makes the key present
            key = sorted(unc)[0]
            pr.p[key] = rng.randint(-8, 8)
            lines.append(f"upd {key} {pr.p[key]}")
            unc.discard(key)
            inheap.add(key)
            continue
        absent = [x for x in pool if x not in inheap and x not in unc]
        if k < 0.28 and absent:
            key = rng.choice(absent)
            lines.append(f"push {key}")
            inheap.add(key)
        elif k < 0.40 and inheap:
            key = rng.choice(sorted(inheap))
            lines.append(f"remove {key}")
            inheap.discard(key)
        elif k < 0.52:
            if inheap and not unc:
                op = rng.choice(["pop", "xtop", "top"])
                lines.append(op)
                if op != "top":
                    m = pr.minima(sorted(inheap))
                    if len(m) == 1:
                        inheap.discard(m[0])
                    else:
                        for x in m:
                            inheap.discard(x)
                            unc.add(x)
            else:
                lines.append("pop" if (invalid and not inheap and not unc) else "size")
        elif k < 0.55 and inheap and not unc:
            # update(heap_[0]) = update(top()): the generator knows the key only when the minimum is unique
            m = pr.minima(sorted(inheap))
            if len(m) == 1:
                pr.p[m[0]] = rng.randint(-8, 8)
                lines.append(f"updat 0 {pr.p[m[0]]}")
            else:
                lines.append("sanity")
        elif k < 0.70:
            key = rng.choice(pool)
            pr.p[key] = rng.randint(-8, 8)
            lines.append(f"upd {key} {pr.p[key]}")
            unc.discard(key)
            inheap.add(key)
        elif k < 0.80:
            m = rng.choice([0, 1, 2, 3, arity + 1, 2 * arity + 1, 9, 17])
            ks = rng.sample(pool, min(m, len(pool)))
            lines.append(f"build {rng.choice(BUILD_KINDS)} " + (",".join(map(str, ks)) or "-"))
            inheap = set(ks)
            unc = set()
        elif k < 0.86:
            ks = rng.sample(pool, min(len(pool), rng.randint(1, 4)))
            lines.append("reprio " + pr.set(rng, ks))
        elif k < 0.92:
            lines.append(f"contains {rng.choice(pool + [rng.randrange(0, 70)])}")
        elif k < 0.94:
            lines.append("clear")
            inheap = set()
            unc = set()
        elif k < 0.96:
            lines.append("drain")
            inheap = set()
            unc = set()
        elif invalid and inheap:
            lines.append(f"push {sorted(inheap)[0]}")      # already present: must be refused
        elif k < 0.985:
            # reserve(n) with n below / at / above the largest stored key, the size and the (small) capacity
            stored = sorted(inheap | unc)
            big = stored[-1] if stored else rng.randrange(U)
            n = rng.choice([0, 1, len(stored), len(stored) + 1, len(stored) + 3, 2 * len(stored) + 1,
                            max(0, big - 1), big, big + 1, big // 2, 17, U, 100])
            lines.append(f"reserve {n}")
            if rng.random() < 0.6 and stored:
                # the handles of the stored keys must have survived
                lines.append(f"contains {big}")
                kk = rng.choice(stored)
                if kk in inheap:
                    lines.append(rng.choice([f"remove {kk}", f"upd {kk} {rng.randint(-8, 8)}"]))
                    if lines[-1].startswith("remove"):
                        inheap.discard(kk)
                    else:
                        pr.p[kk] = int(lines[-1].split()[2])
        elif k < 0.992:
            lines.append(rng.choice(["capacity", "copy", "move"]))
        else:
            lines.append(rng.choice(["size", "empty", "sanity"]))
    return lines


def _interesting_keys(rng, w, signed, radix):
    lo = -(1 << (w - 1)) if signed else 0
    hi = (1 << (w - 1)) - 1 if signed else (1 << w) - 1
    pts = [lo, lo + 1, hi, hi - 1, 0, 1, -1 if signed else hi // 2, hi // 2 + 1]
    for j in range(1, 12):
        p = radix ** j
        for b in (lo, 0):
            for d in (-1, 0, 1):
                if lo <= b + p + d <= hi:
                    pts.append(b + p + d)
    return lo, hi, [p for p in pts if lo <= p <= hi]


def gen_radix_case(rng, cid, nops):
    radix = rng.choice(RADICES)
    kt = rng.choice(list(KTYPES))
    w, signed = KTYPES[kt]
    lo, hi, pts = _interesting_keys(rng, w, signed, radix)
    lines = [f"case r{cid}", f"cfg radix {radix} {kt}"]
    keys = []            # sorted multiset of stored keys
    frontier = None
    start = rng.choice(pts + [lo, lo, rng.randint(lo, hi)])
    span = rng.choice([3, radix, radix * radix, 1000, 1 << (w // 2), hi - lo])

    def pick():
        base = frontier if frontier is not None else start
        r = rng.random()
        if r < 0.25:
            d = rng.randint(0, 3)
        elif r < 0.5:
            d = rng.choice([radix - 1, radix, radix + 1, radix * radix - 1, radix * radix, radix ** 3])
        elif r < 0.8:
            d = rng.randint(0, span)
        elif r < 0.9:
            cand = [p for p in pts if p >= base]
            return rng.choice(cand) if cand else hi
        else:
            return hi - rng.randint(0, 2) if hi - 2 >= base else hi
        return min(hi, base + d)

    invalid = rng.random() < 0.06      # few cases also contain operations that must be refused
    for _ in range(nops):
        k = rng.random()
        if not keys and 0.45 <= k < 0.88 and not invalid:
            k = 0.0
        if k < 0.45:
            key = pick()
            if invalid and rng.random() < 0.1 and frontier is not None and frontier > lo:
                key = frontier - 1 - rng.randint(0, 2)       # below the frontier: must be bad-op
                key = max(lo, key)
                lines.append(f"push {key}")
                continue
            # incl. the hint overloads push_to_bucket / emplace_in_bucket (index from get_bucket[_key])
            lines.append(f"{rng.choice(['push', 'push', 'emplace', 'emplacekf', 'pushb', 'pushb', 'emplaceb'])} {key}")
            bisect.insort(keys, key)
        elif k < 0.49 and keys:
            # by-reference entry points with references to the stored top element
            lines.append(rng.choice(["pushtop", "pushbtop", "emplacetop"]))
            frontier = keys[0]
            keys.insert(0, keys[0])
        elif k < 0.55:
            lines.append("top")
            if keys:
                frontier = keys[0]
        elif k < 0.75:
            lines.append("pop")
            if keys:
                frontier = keys.pop(0)
        elif k < 0.80:
            lines.append("swap")
            if keys:
                frontier = keys[0]
                keys = [x for x in keys if x != frontier]
        elif k < 0.88:
            lines.append("peak")
        elif k < 0.92:
            lines.append(rng.choice(["size", "empty", "copy", "move"]))
        elif k < 0.935 and keys:
            lines.append("drain")
            frontier = keys[-1]
            keys = []
        elif k < 0.95:
            lines.append("clear")
            keys = []
            frontier = None
            if rng.random() < 0.5:
                start = rng.choice(pts)
        else:
            lines.append(f"getb {pick()}")
    return lines


def gen_radix_clear_reuse_case(rng, cid):
    """clear() after an extraction that made a first-row bucket != 0 the current one, then a key of the same
    rank digit and a smaller one: a stale current_bucket_ would report the larger key first"""
    radix = rng.choice(RADICES)
    kt = rng.choice(list(KTYPES))
    w, signed = KTYPES[kt]
    lo = -(1 << (w - 1)) if signed else 0
    lines = [f"case q{cid}", f"cfg radix {radix} {kt}"]
    c = rng.randint(1, radix - 1)
    # only keys of the first row at or behind digit c: the first non-empty bucket is c
    first = [lo + c] + [lo + rng.randint(c, radix - 1) for _ in range(rng.randint(0, 3))]
    for k in first:
        lines.append(f"{rng.choice(['push', 'pushb', 'emplace'])} {k}")
    lines.append(rng.choice(["top", "pop", "swap"]))
    for _ in range(rng.randint(0, 2)):
        lines.append(rng.choice(["pop", "peak", "size"]))
    lines.append("clear")
    d = rng.randint(0, c - 1)
    second = [lo + c, lo + d]
    if rng.random() < 0.5:
        second.append(lo + rng.randint(0, radix * radix))
    if rng.random() < 0.5:
        second.reverse()
    for k in second:
        lines.append(f"{rng.choice(['push', 'pushb', 'emplaceb'])} {k}")
    lines.append(rng.choice(["top", "peak", "pop"]))
    lines.append("drain")
    lines.append("size")
    return lines


class C13(flow.Spec):
    pid = "C13"
    source_files = ("tlx/container/d_ary_heap.hpp", "tlx/container/d_ary_addressable_int_heap.hpp",
                    "tlx/container/radix_heap.hpp")
    # -O0: thirty RadixHeap instantiations take 95 s to compile at -O1 and 20 s at -O0
    harness = dict(name="c13", sources=["c13.cpp"], flags=["-O0"], repo_sources=["tlx/die/core.cpp"])
    nontrivial_rule = ("random histories from VERIF_SEED; a d-ary / addressable case is non-trivial when it rebuilds "
                       "(build) a NON-EMPTY heap and later pops/removes/updates; a radix case when its insertion "
                       "limit was raised by at least two bucket reorganisations and keys were pushed in between; "
                       "distinct = distinct operation sequences")
    assumptions = [
        "keys are machine integers modelled as Nat (d-ary heaps; handles_ positions assumed to fit KeyType) / BitVec w (radix heap)",
        "std::vector / std::array / std::swap meet their contracts; __builtin_clz/ffs are modelled by their specification",
        "radix heap: the documented monotonicity discipline is read as 'no key below the key most recently reported by "
        "top()/pop()/swap_top_bucket()' (DESIGN §5)",
        "BitArray is modelled with one or two levels of 64-bit words (num_buckets <= 4096 holds for every Radix <= 64)",
    ]
    trusted_base = ["Lean 4 kernel", "axioms: propext, Quot.sound, Classical.choice at most (audited per theorem)",
                    "hand-written models TlxVerif/Model/C13*.lean tied to d_ary_heap.hpp, d_ary_addressable_int_heap.hpp, "
                    "radix_heap.hpp by the line-protocol correspondence on the internal arrays (harness/c13.cpp, "
                    "private members exposed, ASan+UBSan)"]

    def viol_class(self, message):
        import re
        return re.sub(r"-?[0-9]+", "N", " ".join(message.split(" after ")[0].split()[:6]))[:80]

    def cases(self, ctx, seed, tier, round_no=0):
        rng = random.Random(seed * 1000003 + round_no * 7919 + 13)
        n = 250 if tier == "quick" else 12000
        if tier == "thorough" and getattr(ctx, "tier", tier) == "quick":
            n = 2500       # quick run validating changed sources in depth: bounded (a broken tree crashes often)
        cs = []
        for i in range(n):
            cs.append(gen_dary_case(rng, i, rng.choice([8, 20, 40, 80])))
        for i in range(n):
            cs.append(gen_addr_case(rng, i, rng.choice([8, 20, 40, 80])))
        for i in range(n + n // 2):
            cs.append(gen_radix_case(rng, i, rng.choice([10, 30, 60, 120])))
        for i in range(max(40, n // 6)):
            cs.append(gen_radix_clear_reuse_case(rng, i))
        return cs

    def probe_lines(self, case, idx):
        """observations that turn a structural disagreement into a visible failure of the property"""
        kind = case[0].split()[1][0]
        if kind == "d":
            return ["sanity", "top", "drain", "size"]
        if kind == "a":
            return ["sanity"] + [f"contains {k}" for k in range(U)] + ["drain", "size"]
        return ["peak", "size", "drain", "size"]

    def nontrivial(self, case, answers):
        kind = case[0].split()[1][0]
        if kind in "da":
            # a build is on a non-empty heap iff the previous answer showed a non-empty array
            prev_nonempty = False
            seen = False
            for op, a in zip(case[1:], answers[1:]):
                if a.startswith("bad-op") or " ; " not in a:
                    continue
                if op.startswith("build") and prev_nonempty:
                    seen = True
                elif seen and op.split()[0] in ("pop", "xtop", "remove", "upd", "drain"):
                    return (kind, tuple(case[1:]))
                prev_nonempty = " ; h=-" not in a
            return None
        lims = []
        for a in answers[1:]:
            if " lim=" in a:
                lim = a.split(" lim=")[1].split()[0]
                if not lims or lims[-1] != lim:
                    lims.append(lim)
        raises = sum(1 for x, y in zip(lims, lims[1:]) if int(y) > int(x))
        return ("r", tuple(case[1:])) if raises >= 2 else None


SPEC = C13()
