"""C19 — string codecs round-trip; string helpers match their documented semantics.

Every op line carries, behind `=`, the answer of a *direct definition* computed here with
Python's base64 / binascii / bytes methods or a textbook implementation; harness/c19.cpp runs
the real tlx function, compares (a difference is a `#VIOL`) and the Lean driver (Driver/C19.lean)
answers the same line from the executable model, whose theorems are in Props/C19.lean.
The base64 / hexdump tables of the model are regenerated from the sources (tools/c19_tables.py).
"""
import base64
import binascii
import itertools
import os
import random

from vlib import core, flow

NPOS = "n"
B64 = b"ABCDEFGHIJKLMNOPQRSTUVWXYZabcdefghijklmnopqrstuvwxyz0123456789+/"
B64WS = b"\t\n\r ="     # what base64_decode skips ('=' is skipped like white space)


def hx(b):
    return bytes(b).hex() if len(b) else "-"


def hxv(v):
    return ",".join(hx(x) for x in v) if v else "[]"


def num(n):
    return NPOS if n is None else str(n)


# ------------------------------------------------------------------------------ direct definitions
def ref_b64decode(text, strict):
    if strict and any(c not in B64 and c not in B64WS for c in text):
        return None
    sext = [B64.index(bytes([c])) for c in text if c in B64]
    out = bytearray()
    for i in range(0, len(sext) - len(sext) % 4, 4):
        v = (sext[i] << 18) | (sext[i + 1] << 12) | (sext[i + 2] << 6) | sext[i + 3]
        out += bytes([v >> 16, (v >> 8) & 255, v & 255])
    tail = sext[len(sext) - len(sext) % 4:]
    if len(tail) == 2:
        out.append(((tail[0] << 2) | (tail[1] >> 4)) & 255)
    elif len(tail) == 3:
        out.append(((tail[0] << 2) | (tail[1] >> 4)) & 255)
        out.append(((tail[1] << 4) | (tail[2] >> 2)) & 255)
    return bytes(out)


def ref_parse_hex(text):
    if len(text) % 2 or any(c not in b"0123456789abcdefABCDEF" for c in text):
        return None
    return binascii.unhexlify(text)


def ref_split(sep, s, limit):
    """limit None = npos"""
    if limit == 0:
        return []
    if len(sep) == 0:
        # one part per byte; when the limit is reached the last part takes the rest
        k = len(s) if limit is None else min(len(s), limit - 1)
        parts = [s[i:i + 1] for i in range(k)]
        if len(s) > k:
            parts.append(s[k:])
        return parts
    return s.split(sep, -1 if limit is None else limit - 1)


def occurrences(s, sep):
    return [i for i in range(len(s) - len(sep) + 1) if s[i:i + len(sep)] == sep]


def ref_split_quoted(s, sep, quote, esc):
    """reference reader for the documented format; None = malformed"""
    out, i, n = [], 0, len(s)
    while i < n:
        if s[i] == sep:
            i += 1
            continue
        entry = bytearray()
        if s[i] == quote:
            i += 1
            while True:
                if i >= n:
                    return None
                c = s[i]
                if c == quote:
                    i += 1
                    break
                if c == esc:
                    if i + 1 >= n:
                        return None
                    d = s[i + 1]
                    if d == quote or d == esc:
                        entry.append(d)
                    elif d == ord("n"):
                        entry.append(10)
                    elif d == ord("r"):
                        entry.append(13)
                    elif d == ord("t"):
                        entry.append(9)
                    else:
                        return None
                    i += 2
                    continue
                entry.append(c)
                i += 1
            if i < n and s[i] != sep:
                return None
            i += 1
        else:
            while i < n and s[i] != sep:
                entry.append(s[i])
                i += 1
            i += 1
        out.append(bytes(entry))
    return out


def ref_lev(a, b, icase):
    if icase:
        a, b = a.lower(), b.lower()
    d = [[0] * (len(b) + 1) for _ in range(len(a) + 1)]
    for i in range(len(a) + 1):
        d[i][0] = i
    for j in range(len(b) + 1):
        d[0][j] = j
    for i in range(1, len(a) + 1):
        for j in range(1, len(b) + 1):
            d[i][j] = min(d[i - 1][j] + 1, d[i][j - 1] + 1, d[i - 1][j - 1] + (a[i - 1] != b[j - 1]))
    return d[len(a)][len(b)]


def sgn(x, y):
    return "<" if x < y else ">" if x > y else "="


def cz(b):
    i = b.find(b"\0")
    return b if i < 0 else b[:i]


# ------------------------------------------------------------------------------ op lines with expectations
def L(op, *args, expect=None):
    s = op + " " + " ".join(args)
    return s if expect is None else s + " = " + expect


def op_b64e(d, lb):
    return L("b64e", hx(d), str(lb), expect=hx(base64.b64encode(d)) if lb == 0 else "*")


def op_b64d(t, strict):
    r = ref_b64decode(t, strict)
    return L("b64d", hx(t), "1" if strict else "0", expect="X" if r is None else hx(r))


def op_b64rt(d, lb):
    return L("b64rt", hx(d), str(lb), expect=hx(d))


def op_hexd(d):
    return L("hexd", hx(d), expect=hx(binascii.hexlify(d).upper()))


def op_hexl(d):
    return L("hexl", hx(d), expect=hx(binascii.hexlify(d)))


def op_hexp(t):
    r = ref_parse_hex(t)
    return L("hexp", hx(t), expect="X" if r is None else hx(r))


def op_hexrt(d):
    return L("hexrt", hx(d), expect=hx(d) + "," + hx(d))


def op_split(sep, s, limit, min_fields=None):
    r = ref_split(sep, s, limit)
    if min_fields is None:
        return L("splits", hx(sep), hx(s), num(limit), expect=hxv(r))
    r = r + [b""] * max(0, min_fields - len(r))
    return L("splitsm", hx(sep), hx(s), str(min_fields), num(limit), expect=hxv(r))


def op_splitc(c, s, limit, min_fields=None):
    r = ref_split(bytes([c]), s, limit)
    if min_fields is None:
        return L("splitc", hx([c]), hx(s), num(limit), expect=hxv(r))
    r = r + [b""] * max(0, min_fields - len(r))
    return L("splitcm", hx([c]), hx(s), str(min_fields), num(limit), expect=hxv(r))


def op_join(sep, v):
    return L("joins", hx(sep), hxv(v), expect=hx(sep.join(v)))


def op_joinc(c, v):
    return L("joinc", hx([c]), hxv(v), expect=hx(bytes([c]).join(v)))


def op_sjrt(sep, v):
    """split(sep, join(sep, v)) = v when v is not empty and the separator occurs in the joined
    text exactly at the glue positions (it neither occurs in nor straddles the parts)"""
    j = sep.join(v)
    glue, pos = [], 0
    for p in v[:-1]:
        pos += len(p)
        glue.append(pos)
        pos += len(sep)
    ok = len(v) > 0 and len(sep) > 0 and occurrences(j, sep) == glue
    e = None
    if ok:
        e = hxv(v) + ("|" + hxv(v) if len(sep) == 1 else "")
    return L("sjrt", hx(sep), hxv(v), expect=e), ok


def quoted_ok(sep, quote, esc):
    return len({sep, quote, esc}) == 3 and quote not in b"nrt" and esc not in b"nrt"


def op_qrt(sep, quote, esc, v):
    ok = quoted_ok(sep, quote, esc)
    return L("qrt", hx([sep]), hx([quote]), hx([esc]), hxv(v), expect=hxv(v) if ok else None), ok


def op_splitq(s, sep, quote, esc):
    e = None
    if quoted_ok(sep, quote, esc):
        r = ref_split_quoted(s, sep, quote, esc)
        e = "X" if r is None else hxv(r)
    return L("splitq", hx(s), hx([sep]), hx([quote]), hx([esc]), expect=e)


def op_joinq(sep, quote, esc, v):
    return L("joinq", hx([sep]), hx([quote]), hx([esc]), hxv(v))


def op_rep(s, needle, instead, all_):
    return L("repa" if all_ else "repf", hx(s), hx(needle), hx(instead),
             expect=hx(s.replace(needle, instead) if all_ else s.replace(needle, instead, 1)))


def op_repc(s, a, b, all_):
    A, Bb = bytes([a]), bytes([b])
    return L("repac" if all_ else "repfc", hx(s), hx(A), hx(Bb),
             expect=hx(s.replace(A, Bb) if all_ else s.replace(A, Bb, 1)))


def strip_def(s, drop, left, right):
    i, j = 0, len(s)
    if left:
        while i < j and s[i] in drop:
            i += 1
    if right:
        while j > i and s[j - 1] in drop:
            j -= 1
    return s[i:j]


def op_trim(kind, s, drop):
    r = strip_def(s, drop, kind in ("trim", "triml"), kind in ("trim", "trimr"))
    return L(kind, hx(s), hx(drop), expect=",".join([hx(r)] * 3))


def op_sw(s, m):
    bits = [s.startswith(m), s.endswith(m), s.lower().startswith(m.lower()), s.lower().endswith(m.lower())]
    return L("sw", hx(s), hx(m), expect="".join("1" if b else "0" for b in bits))


def op_contains(s, p):
    return L("contains", hx(s), hx(p), expect="1" if p in s else "0")


def op_case(s, lower):
    return L("lower" if lower else "upper", hx(s), expect=hx(s.lower() if lower else s.upper()))


def op_icmp(a, b):
    pairs = [(cz(a), cz(b)), (cz(a), b), (a, cz(b)), (a, b)]
    c = "".join(sgn(x.lower(), y.lower()) for x, y in pairs)
    e = "".join("1" if x.lower() == y.lower() else "0" for x, y in pairs)
    l = "".join("1" if x.lower() < y.lower() else "0" for x, y in pairs)
    return L("icmp", hx(a), hx(b), expect=f"c={c} e={e} l={l}")


def op_erase(s, drop):
    r = s.translate(None, drop)
    return L("erase", hx(s), hx(drop), expect=hx(r) + "," + hx(r))


def op_pad(s, n, c):
    return L("pad", hx(s), str(n), hx([c]), expect=hx(s[:n].ljust(n, bytes([c]))))


def op_lev(a, b):
    return L("lev", hx(a), hx(b), expect=f"{ref_lev(a, b, False)} {ref_lev(a, b, True)}")


def al_lines(rng, buf):
    """ops whose view arguments are slices of ONE buffer (needle inside / overlapping / equal to the subject);
    expectations from the same direct definitions applied to the sliced bytes"""
    n = len(buf)

    def sl():
        o = rng.randrange(n + 1)
        return o, rng.randrange(n - o + 1)

    def tk(ol):
        return f"{ol[0]}:{ol[1]}"

    def by(ol):
        return buf[ol[0]:ol[0] + ol[1]]
    a, b, c = sl(), sl(), sl()
    if rng.random() < 0.4:
        b = (a[0], rng.randrange(a[1] + 1))                       # same start, shorter or equal
    elif rng.random() < 0.3:
        b = (a[0] + a[1] - min(a[1], b[1]), min(a[1], b[1]))       # tail of the subject
    A, Bv, C = by(a), by(b), by(c)
    out = []
    k = rng.randrange(9)
    B = hx(buf)
    if k == 0:
        bits = [A.startswith(Bv), A.endswith(Bv), A.lower().startswith(Bv.lower()), A.lower().endswith(Bv.lower())]
        out.append(L("al", "sw", B, tk(a), tk(b), expect="".join("1" if x else "0" for x in bits)))
    elif k == 1:
        out.append(L("al", "contains", B, tk(a), tk(b), expect="1" if Bv in A else "0"))
    elif k == 2:
        x, y = A.lower(), Bv.lower()
        out.append(L("al", "icmp", B, tk(a), tk(b),
                     expect=f"c={sgn(x, y)} e={'1' if x == y else '0'} l={'1' if x < y else '0'}"))
    elif k == 3 and len(Bv):
        allv = rng.random() < 0.5
        out.append(L("al", "repa" if allv else "repf", B, tk(a), tk(b), tk(c),
                     expect=hx(A.replace(Bv, C) if allv else A.replace(Bv, C, 1))))
    elif k == 4:
        r = A.translate(None, Bv)
        out.append(L("al", "erase", B, tk(a), tk(b), expect=hx(r)))
    elif k == 5:
        kind = rng.choice(["trim", "triml", "trimr"])
        r = strip_def(A, Bv, kind in ("trim", "triml"), kind in ("trim", "trimr"))
        out.append(L("al", kind, B, tk(a), tk(b), expect=hx(r) + "," + hx(r)))
    elif k == 6:
        lim = rlimit(rng)
        out.append(L("al", "splits", B, tk(b), tk(a), num(lim), expect=hxv(ref_split(Bv, A, lim))))
    elif k == 7:
        out.append(L("al", "lev", B, tk(a), tk(b), expect=f"{ref_lev(A, Bv, False)} {ref_lev(A, Bv, True)}"))
    else:
        # the whole buffer as the subject, a prefix of it as the other argument
        w, pre = (0, n), (0, rng.randrange(n + 1))
        bits = [True, buf.endswith(by(pre)), True, buf.lower().endswith(by(pre).lower())]
        out.append(L("al", "sw", B, tk(w), tk(pre), expect="".join("1" if x else "0" for x in bits)))
    return out


# ------------------------------------------------------------------------------ generators
ALPHAS = [
    b"ab",                               # heavy repetition / overlapping needles
    b"ab:",                              # with a separator
    b"aA bB\t",                          # case pairs and white space
    b'a "\\n:',                          # quote, escape, the letter n, separators
    b"\x00a\x80\xff",                    # NUL and high bytes
    b"aZz@[`{\xc1\xe1",                  # neighbours of the letter ranges
    bytes(range(256)),
]


def rbytes(rng, alpha, maxlen):
    return bytes(rng.choice(alpha) for _ in range(rng.randrange(maxlen + 1)))


def rlimit(rng, hi=6):
    k = rng.random()
    if k < 0.35:
        return None
    return rng.randrange(0, hi)


def gen_case(rng, cid, nops):
    lines = [f"case {cid}"]
    nontriv = False
    for _ in range(nops):
        alpha = rng.choice(ALPHAS)
        k = rng.randrange(27)
        if k >= 24:
            buf = rbytes(rng, alpha[:3] if rng.random() < 0.7 else alpha, 8) or bytes([alpha[0]])
            lines += al_lines(rng, buf)
        elif k == 0:
            d = rbytes(rng, bytes(range(256)), rng.choice([0, 1, 2, 3, 4, 5, 6, 7, 12, 13, 14, 30, 49]))
            lines.append(op_b64e(d, rng.choice([0, 0, 4, 8, 12, 16, 76])))
        elif k == 1:
            d = rbytes(rng, bytes(range(256)), rng.choice([0, 1, 2, 3, 4, 5, 6, 7, 12, 13, 14, 30, 49]))
            lines.append(op_b64rt(d, rng.choice([0, 4, 8, 12, 16, 20, 76])))
            nontriv = nontriv or len(d) % 3 != 0
        elif k == 2:
            # decoder inputs: a valid encoding with white space / junk sprinkled in, or random text
            d = rbytes(rng, bytes(range(256)), 9)
            t = bytearray(base64.b64encode(d))
            for _ in range(rng.randrange(4)):
                t.insert(rng.randrange(len(t) + 1), rng.choice(b" \n\r\t=" if rng.random() < 0.7 else b"!-_\x00\xff"))
            if rng.random() < 0.2:
                t = bytearray(rbytes(rng, B64 + b"= \n!", 10))
            lines.append(op_b64d(bytes(t), rng.random() < 0.6))
        elif k == 3:
            d = rbytes(rng, alpha, 8)
            lines.append(rng.choice([op_hexd, op_hexl, op_hexrt])(d))
        elif k == 4:
            t = rbytes(rng, b"0123456789abcdefABCDEFgG x", 8)
            if rng.random() < 0.5:
                t = binascii.hexlify(rbytes(rng, bytes(range(256)), 5))
                t = bytes(c if rng.random() < 0.7 else bytes([c]).upper()[0] for c in t)
            lines.append(op_hexp(t))
        elif k in (5, 6):
            sep = rbytes(rng, alpha[:2] if rng.random() < 0.6 else alpha, 3)
            s = rbytes(rng, alpha[:3], 10)
            if sep and rng.random() < 0.4:
                s = s + sep                        # separator at the very end
            if sep and rng.random() < 0.3:
                s = sep * rng.randrange(1, 4) + s  # adjacent / overlapping separators
            lim = rlimit(rng)
            if rng.random() < 0.25 and lim != 0:
                mf = rng.randrange(0, 6)
                if lim is not None:
                    mf = min(mf, lim)
                lines.append(op_split(sep, s, lim, mf))
            else:
                lines.append(op_split(sep, s, lim))
            nontriv = nontriv or (len(sep) > 0 and s.endswith(sep))
        elif k == 7:
            c = rng.choice(alpha)
            s = rbytes(rng, alpha[:3] + bytes([c]), 10)
            lim = rlimit(rng)
            if rng.random() < 0.25 and lim != 0:
                mf = rng.randrange(0, 6)
                if lim is not None:
                    mf = min(mf, lim)
                lines.append(op_splitc(c, s, lim, mf))
            else:
                lines.append(op_splitc(c, s, lim))
        elif k == 8:
            v = [rbytes(rng, alpha, 4) for _ in range(rng.randrange(5))]
            if rng.random() < 0.5:
                lines.append(op_join(rbytes(rng, alpha, 3), v))
            else:
                lines.append(op_joinc(rng.choice(alpha), v))
        elif k == 9:
            # parts over one alphabet, separator mostly from a disjoint one
            parts_alpha, sep_alpha = (b"ab", b":;") if rng.random() < 0.7 else (alpha, alpha)
            v = [rbytes(rng, parts_alpha, 4) for _ in range(rng.randrange(1, 5))]
            sep = bytes(rng.choice(sep_alpha) for _ in range(rng.randrange(1, 4)))
            line, ok = op_sjrt(sep, v)
            lines.append(line)
            nontriv = nontriv or (ok and len(v) > 1 and v[-1] == b"")
        elif k in (10, 11):
            sep, quote, esc = (32, 34, 92) if rng.random() < 0.7 else tuple(rng.sample(list(b' ",;\\|#n\n'), 3))
            fa = bytes([sep, quote, esc]) + b"ab\n\r\tn"
            v = [rbytes(rng, fa, 5) for _ in range(rng.randrange(5))]
            line, ok = op_qrt(sep, quote, esc, v)
            lines.append(line)
            if rng.random() < 0.3:
                lines.append(op_joinq(sep, quote, esc, v))
            nontriv = nontriv or (ok and any(x == b"" or x[:1] == bytes([quote]) for x in v))
        elif k == 12:
            sep, quote, esc = 32, 34, 92
            s = rbytes(rng, b'ab "\\nx', 10)
            lines.append(op_splitq(s, sep, quote, esc))
        elif k == 13:
            s = rbytes(rng, alpha[:3], 10)
            needle = rbytes(rng, alpha[:2], 3) or bytes([alpha[0]])
            instead = rbytes(rng, alpha[:3], 3)
            lines.append(op_rep(s, needle, instead, rng.random() < 0.6))
        elif k == 14:
            s = rbytes(rng, alpha[:3], 10)
            lines.append(op_repc(s, rng.choice(alpha[:3]), rng.choice(alpha), rng.random() < 0.6))
        elif k in (15, 16):
            drop = rng.choice([b" \r\n\t", b" ", bytes([alpha[0]]), alpha[:2], b"", b"\x00\xff"])
            core_ = rbytes(rng, alpha, 5)
            s = rbytes(rng, drop or b" ", 3) + core_ + rbytes(rng, drop or b" ", 3)
            lines.append(op_trim(rng.choice(["trim", "triml", "trimr"]), s, drop))
        elif k == 17:
            s = rbytes(rng, alpha, 8)
            m = rng.choice([s[:rng.randrange(len(s) + 1)], s[rng.randrange(len(s) + 1):], rbytes(rng, alpha, 3)])
            if rng.random() < 0.4:
                m = m.swapcase()
            lines.append(op_sw(s, m))
        elif k == 18:
            s = rbytes(rng, alpha[:3], 8)
            p = rng.choice([rbytes(rng, alpha[:3], 3), s[1:3], s[-2:]])
            lines.append(op_contains(s, p))
        elif k == 19:
            s = rbytes(rng, alpha, 8)
            lines.append(op_case(s, rng.random() < 0.5))
        elif k in (20, 21):
            a = rbytes(rng, alpha, 5)
            b = rng.choice([a, a.swapcase(), a[:rng.randrange(len(a) + 1)], a + rbytes(rng, alpha, 2), rbytes(rng, alpha, 5)])
            if rng.random() < 0.5:
                a, b = b, a
            lines.append(op_icmp(a, b))
            nontriv = nontriv or (a.lower() != b.lower() and (a.lower().startswith(b.lower()) or b.lower().startswith(a.lower())))
        elif k == 22:
            s = rbytes(rng, alpha[:4], 10)
            drop = rbytes(rng, alpha[:3], 2)
            lines.append(op_erase(s, drop))
            lines.append(op_pad(rbytes(rng, alpha, 6), rng.randrange(0, 9), rng.choice(alpha)))
        else:
            a = rbytes(rng, alpha[:3], 7)
            b = rbytes(rng, alpha[:3], 7) if rng.random() < 0.5 else bytes(a[:rng.randrange(len(a) + 1)]) + rbytes(rng, alpha[:3], 3)
            if rng.random() < 0.3:
                b = b.swapcase()
            lines.append(op_lev(a, b))
    return lines, nontriv


def exhaustive_small(tier):
    """small exhaustive families aimed at the boundary shapes named in the property"""
    cs = []
    n = 4 if tier == "quick" else 6
    lines = ["case xs-split"]
    for l in range(n + 1):
        for t in itertools.product(b"a:", repeat=l):
            s = bytes(t)
            for sep in (b":", b"::", b"a", b"aa", b":a"):
                for lim in (None, 0, 1, 2, 3):
                    lines.append(op_split(sep, s, lim))
            for lim in (None, 0, 1, 2):
                lines.append(op_splitc(ord(":"), s, lim))
                lines.append(op_split(b"", s, lim))
    cs.append(lines)
    lines = ["case xs-rep"]
    for l in range(n + 1):
        for t in itertools.product(b"ab", repeat=l):
            s = bytes(t)
            for needle in (b"a", b"aa", b"ab", b"aba"):
                for instead in (b"", b"a", b"b", b"aa", b"ba"):
                    lines.append(op_rep(s, needle, instead, True))
                    lines.append(op_rep(s, needle, instead, False))
            lines.append(op_erase(s, b"a"))
            for drop in (b"a", b"ab", b""):
                for kind in ("trim", "triml", "trimr"):
                    lines.append(op_trim(kind, s, drop))
    cs.append(lines)
    lines = ["case xs-quoted"]
    fields = [b"", b"a", b" ", b'"', b"\\", b'"a', b'a"', b"a b", b"\n", b"n", b'\\"', b" a"]
    for k in range(0, 3 if tier == "quick" else 4):
        for v in itertools.product(fields, repeat=k):
            lines.append(op_qrt(32, 34, 92, list(v))[0])
    cs.append(lines)
    lines = ["case xs-b64"]
    for l in range(0, 8):
        for d in (bytes([0] * l), bytes([255] * l), bytes(range(l)), bytes([0x14, 0xfb, 0x9c, 0x03, 0xd9, 0x7e, 0xbf][:l])):
            for lb in (0, 4, 8, 12):
                lines.append(op_b64e(d, lb))
                lines.append(op_b64rt(d, lb))
    for b in range(256):
        lines.append(op_hexrt(bytes([b])))
        lines.append(op_b64rt(bytes([b, 255 - b, b ^ 0x5a]), 0))
        lines.append(op_case(bytes([b]), True))
        lines.append(op_case(bytes([b]), False))
    cs.append(lines)
    lines = ["case xs-icmp"]
    strs = [bytes(t) for l in range(3) for t in itertools.product(b"aAb\x80", repeat=l)]
    for a in strs:
        for b in strs:
            lines.append(op_icmp(a, b))
            lines.append(op_sw(a, b))
    cs.append(lines)
    lines = ["case xs-alias"]
    for lb in range(1, 4 if tier == "quick" else 5):
        for t in itertools.product(b"aB", repeat=lb):
            buf = bytes(t)
            views = [(o, l) for o in range(lb + 1) for l in range(lb - o + 1)]
            for a in views:
                for b in views:
                    A, Bv = buf[a[0]:a[0] + a[1]], buf[b[0]:b[0] + b[1]]
                    ta, tb = f"{a[0]}:{a[1]}", f"{b[0]}:{b[1]}"
                    bits = [A.startswith(Bv), A.endswith(Bv), A.lower().startswith(Bv.lower()), A.lower().endswith(Bv.lower())]
                    lines.append(L("al", "sw", hx(buf), ta, tb, expect="".join("1" if x else "0" for x in bits)))
                    lines.append(L("al", "contains", hx(buf), ta, tb, expect="1" if Bv in A else "0"))
                    x, y = A.lower(), Bv.lower()
                    lines.append(L("al", "icmp", hx(buf), ta, tb,
                                   expect=f"c={sgn(x, y)} e={'1' if x == y else '0'} l={'1' if x < y else '0'}"))
                    if len(Bv):
                        lines.append(L("al", "repa", hx(buf), ta, tb, ta, expect=hx(A.replace(Bv, A))))
                        lines.append(L("al", "repf", hx(buf), ta, tb, tb, expect=hx(A)))
    cs.append(lines)
    lines = ["case xs-lev"]
    strs = [bytes(t) for l in range(4 if tier == "quick" else 5) for t in itertools.product(b"aB", repeat=l)]
    for a in strs:
        for b in strs:
            lines.append(op_lev(a, b))
    cs.append(lines)
    return cs


REPO_SOURCES = ["tlx/string/" + f + ".cpp" for f in
                ("base64", "hexdump", "split", "join", "join_quoted", "split_quoted", "replace", "trim", "to_lower",
                 "to_upper", "compare_icase", "equal_icase", "less_icase", "starts_with", "ends_with", "contains",
                 "erase_all", "pad")]


class C19(flow.Spec):
    pid = "C19"
    harness = dict(name="c19", sources=["c19.cpp"], repo_sources=REPO_SOURCES)
    extra_lean_sources = ("TlxVerif/Gen/C19Tables.lean",)
    nontrivial_rule = ("a case (20-40 random op lines over alphabets with separators, quotes, escapes, white space, NUL "
                       "and high bytes) is non-trivial when it contains one of the boundary shapes of the property: a "
                       "separator at the very end of a split input, a base64 round trip whose length is 1 or 2 mod 3, a "
                       "join/split round trip with an empty last part, a quoted round trip with an empty or "
                       "quote-leading field, or a case-insensitive comparison of a proper prefix; distinct = distinct "
                       "op sequences")
    assumptions = [
        "std::string members (find, find_*_of, erase, replace, resize), std::equal, std::lexicographical_compare, "
        "std::transform and std::ostringstream meet their standard contracts (modelled by their definitions)",
        "a moved-from std::string is empty (split_quoted relies on it; true for libstdc++)",
        "plain char is signed and 8 bit, size_t 64 bit (to_lower's unsigned trick and npos wrap-arounds are modelled for that target)",
        "the in-place overloads are called with needle / instead / drop ranges that do not alias the modified string",
        "documented preconditions: base64 line_break is a multiple of 4, replace_* needle is not empty, "
        "min_fields <= limit; inputs outside them answer bad-op",
    ]
    trusted_base = ["Lean 4 kernel; axioms propext, Quot.sound, Classical.choice at most (audited per theorem)",
                    "tools/c19_tables.py (which source text becomes which table of Gen/C19Tables.lean)",
                    "Model/C19*.lean tied to the .cpp files by the line-protocol correspondence (harness/c19.cpp, ASan+UBSan)",
                    "Python base64 / binascii / bytes methods as direct definitions (search oracle, not proof)"]
    search_rounds = 3

    def translator(self, ctx):
        out = os.path.join(core.LEAN, "TlxVerif", "Gen", "C19Tables.lean")
        rc, o, e = core.sh(["python3", os.path.join(core.VERIF, "tools", "c19_tables.py"), core.REPO, out])
        if rc != 0:
            return ["table extraction failed: " + (o + e).strip()[:500]]
        return []

    def viol_class(self, message):
        # "#VIOL <op> answers …" / "#VIOL <op> overloads disagree: <what>" / "#VIOL crash …"
        t = message.split()
        if len(t) > 3 and t[2] == "overloads":
            return " ".join(t[:8])
        return " ".join(t[:2])

    def cases(self, ctx, seed, tier, round_no=0):
        rng = random.Random(seed * 1000003 + round_no * 7919 + 19)
        cs = []
        self._nontriv = getattr(self, "_nontriv", set())
        if round_no == 0:
            cs += exhaustive_small(tier)
        n = 6000 if tier == "quick" else 150000
        for i in range(n):
            lines, nt = gen_case(rng, f"r{round_no}.{i}", rng.choice([20, 30, 40]))
            if nt:
                self._nontriv.add(lines[0])
            cs.append(lines)
        return cs

    def nontrivial(self, case, answers):
        if case[0] in getattr(self, "_nontriv", ()):
            return tuple(case[1:])
        return None


SPEC = C19()
