"""C08 — multisequence_partition / multisequence_selection split sorted runs at the exact global rank."""
import random
import subprocess

from vlib import core, flow


def csv(run):
    return ",".join(str(x) for x in run) if run else "-"


def key_of(cmp):
    return {"lt": (lambda v: v), "gt": (lambda v: -v), "half": (lambda v: v >> 1)}[cmp]


RANK_TYPES = ["long", "int", "llong", "size_t", "uint", "uint", "ushort"]


def make_run(rng, cmp, length, vals):
    """a run of `length` values from `vals`, sorted w.r.t. the comparator (equivalent values in random order)"""
    xs = [rng.choice(vals) for _ in range(length)]
    k = key_of(cmp)
    rng.shuffle(xs)
    xs.sort(key=k)
    return xs


def lengths_special(rng):
    """very unequal lengths / lengths around powers of two"""
    mode = rng.random()
    m = rng.choice([1, 2, 2, 3, 3, 4, 5, 8])
    if mode < 0.35:      # around powers of two
        ls = []
        for _ in range(m):
            p = 1 << rng.randrange(0, 7)
            ls.append(max(1, p + rng.choice([-1, 0, 0, 1])))
        return ls
    if mode < 0.7:       # very unequal
        big = rng.choice([17, 31, 32, 33, 63, 64, 65, 100, 127, 128, 129, 200])
        return [big if i == rng.randrange(m) or rng.random() < 0.15 else rng.choice([1, 1, 2, 3]) for i in range(m)]
    return [rng.randrange(1, 12) for _ in range(m)]


def gen_many_runs(rng, cid):
    """17..64 short runs, 2-4 distinct keys, many ranks: the sample of the initial partition has more than
    16 entries with equal keys (std::sort is only stable up to 16 elements), ties across many sequences"""
    cmp = rng.choice(["lt", "lt", "gt", "half"])
    m = rng.choice([17, 17, 18, 20, 24, 31, 32, 33, 40, 48, 64])
    nv = rng.choice([2, 2, 3, 4])
    vals = list(range(nv)) if cmp != "half" else list(range(2 * nv))
    maxlen = rng.choice([1, 2, 3, 3, 6])
    # mostly equal lengths, so that (almost) every run contributes a real sample to the initial partition
    runs = [make_run(rng, cmp, maxlen if rng.random() < 0.7 else rng.randrange(1, maxlen + 1), vals) for _ in range(m)]
    N = sum(len(r) for r in runs)
    if N <= 40:
        ranks = list(range(N + 1))
    else:
        ranks = sorted(set([0, 1, N - 1, N] + [rng.randrange(N + 1) for _ in range(24)]))
    lines = [f"case m{cid}"]
    tail = " ".join(csv(r) for r in runs)
    if rng.random() < 0.5:
        lines.append(f"load {cmp} {tail}")
        for r in ranks:
            lines.append(f"p {rng.choice(RANK_TYPES)} {r}")
            if r < N and rng.random() < 0.25:
                lines.append(f"s {rng.choice(RANK_TYPES)} {r}")
        return lines
    for r in ranks:
        lines.append(f"part {cmp} {r} {tail}")
        if r < N and rng.random() < 0.25:
            lines.append(f"sel {cmp} {r} {tail}")
    return lines


def gen_case(rng, cid, tier):
    if rng.random() < 0.07:
        return gen_many_runs(rng, cid)
    cmp = rng.choice(["lt", "lt", "lt", "gt", "half"])
    style = rng.random()
    if style < 0.45:
        m = rng.choice([1, 2, 2, 3, 3, 3, 4])
        ls = [rng.randrange(1, 7) for _ in range(m)]
    else:
        ls = lengths_special(rng)
        if tier != "quick" and rng.random() < 0.1:
            ls = [l * rng.choice([1, 4, 9]) for l in ls]
        if tier != "quick" and rng.random() < 0.04:
            # many sequences / long sequences
            ls = [rng.choice([1, 2, 3, 7, 8, 9, 31, 33]) for _ in range(rng.choice([12, 20, 40]))]
        elif tier != "quick" and rng.random() < 0.02:
            ls = [rng.choice([1, 5, 1023, 1024, 1025, 3000]) for _ in range(rng.choice([2, 3, 5]))]
    nv = rng.choice([1, 2, 2, 3, 3, 4, 6, 50])
    vals = list(range(nv)) if cmp != "half" else list(range(2 * nv))
    if rng.random() < 0.15:
        vals = [v - nv // 2 for v in vals]          # negative values too
    runs = [make_run(rng, cmp, l, vals) for l in ls]
    N = sum(ls)
    if N <= 14:
        ranks = list(range(N + 1))
    else:
        ranks = sorted(set([0, 1, N - 1, N, N // 2] + [rng.randrange(N + 1) for _ in range(8)]))
    lines = [f"case c{cid}"]
    tail = " ".join(csv(r) for r in runs)
    if rng.random() < 0.5:
        # the runs stay loaded as caller-owned storage; every call picks one of the rank types the API accepts
        lines.append(f"load {cmp} {tail}")
        for r in ranks:
            lines.append(f"p {rng.choice(RANK_TYPES)} {r}")
            if r < N and rng.random() < 0.6:
                lines.append(f"s {rng.choice(RANK_TYPES)} {r}")
        return lines
    for r in ranks:
        lines.append(f"part {cmp} {r} {tail}")
        if r < N and rng.random() < 0.6:
            lines.append(f"sel {cmp} {r} {tail}")
    return lines


EXH_QUICK = [("lt", 3, 5, 3)]
EXH_THOROUGH = [("lt", 3, 5, 3), ("gt", 3, 5, 3), ("half", 3, 4, 4), ("lt", 4, 3, 3), ("lt", 2, 9, 3),
                ("lt", 3, 4, 4), ("gt", 2, 8, 2), ("lt", 5, 2, 3)]


class C08(flow.Spec):
    pid = "C08"
    source_files = ('tlx/algorithm/multisequence_partition.hpp', 'tlx/algorithm/multisequence_selection.hpp', 'tlx/math/round_to_power_of_two.hpp')
    harness = dict(name="c08", sources=["c08.cpp"])
    nontrivial_rule = ("a `part` operation is non-trivial when 0 < rank < N, there are >= 2 runs and an element "
                       "equivalent to the last left element of one run is the first right element of another run "
                       "(a tie across the split that only the (value, sequence) order decides); distinct = distinct "
                       "(comparator, rank, runs)")
    assumptions = [
        "std::sort on (value, sequence) pairs, std::priority_queue and std::lower_bound meet their standard contracts "
        "(the model uses insertion sort / list minimum / partition point)",
        "round_up_to_power_of_two is modelled by its specification (least power of two >= n; verified under C20)",
        "diff_type / RankType are unbounded integers in the model (no overflow of ptrdiff_t for realistic sizes)",
        "element values are integers compared by one of three strict weak orders in the correspondence (<, >, v>>1); "
        "the Lean spec theorems are for an arbitrary strict weak order",
        "the for-all-inputs correctness of the halving refinement itself is OPEN (see Props/C08.lean); individual runs "
        "are certified by the proved sound-and-complete checker (translation validation of runs)",
    ]
    trusted_base = ["Lean 4 kernel", "axioms: propext, Quot.sound, Classical.choice at most (audited per theorem)",
                    "hand-written model TlxVerif/Model/C08Msp.lean tied to multisequence_partition.hpp / "
                    "multisequence_selection.hpp by the line-protocol correspondence on results and on the trace of "
                    "every operator[] read of the input sequences (harness/c08.cpp, bounds-checked logging iterator, "
                    "ASan+UBSan)",
                    "harness brute-force oracle (std::stable_sort of (value, sequence, position) triples)"]
    exh_stats = None

    def viol_class(self, message):
        m = message.replace("#VIOL ", "")
        return " ".join(m.split(" in ")[0].split()[:5])

    def _exhaustive(self, ctx, tier):
        """whole small-parameter space inside the harness (unsanitised build; the logging iterator does the
        bounds checking).  Returns failing op lines."""
        hb, log = core.build_harness(ctx, name="c08x", sources=["c08.cpp"], sanitize=False)
        if hb is None:
            ctx.say("exhaustive harness does not compile: " + log[-500:])
            return ["part lt 0 0"], dict(error="compile")
        fails, total, nfail = [], 0, 0
        nsh = 4
        for (cmp, mmax, lmax, nv) in (EXH_QUICK if tier == "quick" else EXH_THOROUGH):
            procs = [subprocess.Popen([hb, "exh", cmp, str(mmax), str(lmax), str(nv), str(s), str(nsh)],
                                      stdout=subprocess.PIPE, stderr=subprocess.PIPE, text=True) for s in range(nsh)]
            for p in procs:
                out, err = p.communicate()
                ok = False
                for l in out.splitlines():
                    if l.startswith("fail "):
                        fails.append(l[5:].split(" :: ")[0])
                    elif l.startswith("exh cases="):
                        ok = True
                        total += int(l.split("cases=")[1].split()[0])
                        nfail += int(l.split("fails=")[1])
                if p.returncode != 0 or not ok:
                    ctx.say(f"exhaustive run {cmp} {mmax} {lmax} {nv} died rc={p.returncode}: {err[-300:]}")
                    fails.append(f"part {cmp} 0 0")      # forces attention: will not reproduce => reported below
                    nfail += 1
        return fails, dict(exhaustive_cases=total, exhaustive_failures=nfail,
                           exhaustive_spaces=[list(x) for x in (EXH_QUICK if tier == "quick" else EXH_THOROUGH)])

    def cases(self, ctx, seed, tier, round_no=0):
        rng = random.Random(seed * 1000003 + round_no * 7919 + 8)
        cs = []
        if round_no == 0:
            fails, st = self._exhaustive(ctx, tier)
            self.exh_stats = st
            ctx.say(f"exhaustive: {st}")
            # smallest failing inputs first; they go through the normal oracle/replay path
            fails.sort(key=len)
            for i, f in enumerate(fails[:20]):
                cs.append([f"case exh{i}", f])
        n = 6000 if tier == "quick" else 40000
        if tier != "quick" and ctx.tier == "quick":
            n = 15000         # deeper validation requested by the flow (modelled sources changed) inside the quick tier
        for i in range(n):
            cs.append(gen_case(rng, f"{round_no}_{i}", tier))
        return cs

    def nontrivial(self, case, answers):
        keys = []
        loaded = None
        for op, a in zip(case[1:], answers[1:]):
            t = op.split()
            if t[0] == "load":
                loaded = (t[1], t[2:])
                continue
            if t[0] == "p" and loaded is not None:
                t = ["part", loaded[0], t[2]] + list(loaded[1])
            if t[0] != "part" or not a.startswith("offs "):
                continue
            cmp, rank, runs = t[1], int(t[2]), [[int(x) for x in r.split(",")] for r in t[3:]]
            N = sum(len(r) for r in runs)
            if len(runs) < 2 or not (0 < rank < N):
                continue
            try:
                offs = [int(x) for x in a.split()[1].split(",")]
            except ValueError:
                continue
            k = key_of(cmp)
            left = [(k(r[o - 1]), i) for i, (r, o) in enumerate(zip(runs, offs)) if 0 < o <= len(r)]
            right = [(k(r[o]), i) for i, (r, o) in enumerate(zip(runs, offs)) if 0 <= o < len(r)]
            if any(lv == rv and li != ri for lv, li in left for rv, ri in right):
                keys.append((cmp, rank, tuple(t[3:])))
        return tuple(keys) if keys else None

    def extra_coverage(self, ctx, res):
        return dict(self.exh_stats or {})


SPEC = C08()
