"""C01 — the tlx B+ tree containers are observationally equal to std::set/multiset/map/multimap.

Also hosts what C02 shares with it: the parallel harness build and the case generators.
"""
import hashlib
import itertools
import os
import random
import re
import subprocess
import sys
import time

import json

from vlib import core, flow
from checks import c01_deep

KINDS = ["set", "mset", "map", "mmap"]
SLOT_PAIRS = [(4, 4), (4, 5), (5, 4), (5, 5), (6, 6), (7, 7), (8, 8), (16, 16), (4, 7), (7, 4), (5, 16), (16, 5)]
# instantiated as well, used by the bulk_load size cases only: (16, 4) and the capacities of
# btree_default_traits for 4-byte keys, (64, 21)
BULK_PAIRS = [(5, 4), (7, 4), (16, 5), (16, 4), (4, 7), (5, 16), (4, 5)]
STD_FLAGS = ["-std=gnu++17", "-O0", "-g1", "-fsanitize=address,undefined",
             "-fno-sanitize-recover=all", "-fno-omit-frame-pointer"]


# --------------------------------------------------------------------------- harness build
def prebuild(ctx):
    """The harness instantiates 4 container kinds x 10 slot pairs; one translation unit per kind is
    compiled in parallel (-j4) into build/<pid>/, the link step is left to core.build_harness.
    Objects are cached by the hash of the repo tree + harness sources + flags."""
    hdir = os.path.join(core.VERIF, "harness")
    h = hashlib.sha256()
    h.update(core.repo_hash().encode())
    for fn in ("c01.hpp", "c01_part.cpp", "common.hpp"):
        with open(os.path.join(hdir, fn), "rb") as f:
            h.update(f.read())
    h.update(" ".join(STD_FLAGS).encode())
    h.update(core.REPO.encode())
    key = h.hexdigest()[:16]
    objs, procs = [], []
    for old in os.listdir(ctx.work):
        if old.startswith("c01_part") and old.endswith(".o") and key not in old:
            try:
                os.remove(os.path.join(ctx.work, old))
            except OSError:
                pass
    for k in range(4):
        obj = os.path.join(ctx.work, f"c01_part{k}-{key}.o")
        objs.append(obj)
        if not os.path.exists(obj):
            cmd = [core.CXX] + STD_FLAGS + [f"-DC01_KIND={k}", "-I" + core.REPO, "-I" + hdir, "-c",
                                            os.path.join(hdir, "c01_part.cpp"), "-o", obj + ".tmp"]
            procs.append((obj, subprocess.Popen(cmd, stdout=subprocess.PIPE, stderr=subprocess.STDOUT, text=True)))
    problems = []
    for obj, pr in procs:
        out, _ = pr.communicate()
        if pr.returncode != 0:
            problems.append("harness does not compile against the current tree: " + out[-1500:])
        else:
            os.replace(obj + ".tmp", obj)
    if procs:
        ctx.say(f"compiled {len(procs)} harness translation units in parallel")
    return objs, problems


def harness_spec(objs):
    return dict(name="c01", sources=["c01_main.cpp"], flags=list(objs), repo_sources=["tlx/die/core.cpp"],
                std_flags=STD_FLAGS)


# --------------------------------------------------------------------------- reference bookkeeping for the generator
def order_lt(mode, a, b):
    if mode == 0:
        return a < b
    if mode == 1:
        return a > b
    return a // 2 < b // 2


class Reg:
    """what the generator needs to know about a register: its entries in tree order"""

    def __init__(self, dup, mode):
        self.dup, self.mode, self.es = dup, mode, []

    def lb(self, k):
        i = 0
        while i < len(self.es) and order_lt(self.mode, self.es[i][0], k):
            i += 1
        return i

    def has(self, k):
        i = self.lb(k)
        return i < len(self.es) and not order_lt(self.mode, k, self.es[i][0])

    def insert(self, k, v):
        i = self.lb(k)
        if not self.dup and i < len(self.es) and not order_lt(self.mode, k, self.es[i][0]):
            return False
        self.es.insert(i, (k, v))
        return True

    def erase_one(self, k):
        i = self.lb(k)
        if i < len(self.es) and not order_lt(self.mode, k, self.es[i][0]):
            del self.es[i]
            return True
        return False

    def erase_all(self, k):
        while self.erase_one(k):
            if not self.dup:
                break


def fmt_ent(is_map, k, v):
    return f"{k}:{v}" if is_map else f"{k}"


def sorted_run(rng, mode, dup, n, universe):
    """n keys sorted for the comparator (strictly for unique containers)"""
    if dup:
        ks = [rng.randrange(universe) for _ in range(n)]
    else:
        classes = list(range(universe)) if mode != 2 else list(range(0, universe, 2))
        rng.shuffle(classes)
        ks = classes[:n]
        if mode == 2:
            ks = [k + rng.randrange(2) for k in ks]
    keyf = (lambda k: k) if mode == 0 else (lambda k: -k) if mode == 1 else (lambda k: k // 2)
    ks.sort(key=keyf)
    return ks


def gen_case(rng, cid, nops, kind=None, slots=None, binsearch=None, mode=None, profile="c01"):
    kind = kind or rng.choice(KINDS)
    leaf, inner = slots or rng.choice(SLOT_PAIRS)
    binsearch = rng.randrange(2) if binsearch is None else binsearch
    mode = rng.choice([0, 0, 1, 2]) if mode is None else mode
    is_map, dup = kind in ("map", "mmap"), kind in ("mset", "mmap")
    # small universes give long runs of duplicates spanning several leaves; unique containers need
    # more keys to grow beyond one inner node
    if dup:
        universe = rng.choice([3, 6, 16, 16, 16, 40])
    else:
        universe = rng.choice([16, 16, 40, 100, 200])
    # the comparator object travels with the container: one case in four starts register 1 with another order
    mode1 = rng.choice([0, 1, 2]) if rng.random() < 0.25 else mode
    lines = [f"case {kind}-{leaf}-{inner}-{binsearch}-{mode}{mode1}-{cid}", f"cfg {kind} {leaf} {inner} {binsearch} {mode} {mode1}"]
    regs = [Reg(dup, mode), Reg(dup, mode1)]
    serial = [0]

    def val():
        serial[0] += 1
        return serial[0]

    def key():
        return rng.randrange(universe)

    def present_key(R):
        if R.es and rng.random() < 0.8:
            return rng.choice(R.es)[0]
        return key()

    # phases steer the tree through growth (splits) and shrinkage (merges, shifts, root collapse)
    phase, phase_left = "grow", 0
    maintenance = 0.06 if profile == "c01" else 0.18
    for _ in range(nops):
        if phase_left <= 0:
            phase = rng.choice(["grow", "grow", "shrink", "mixed", "shrink-iter"])
            phase_left = rng.choice([10, 25, 40, 80])
        phase_left -= 1
        r = 0 if rng.random() < 0.8 else 1
        R = regs[r]
        x = rng.random()
        w_ins = {"grow": 0.60, "shrink": 0.10, "mixed": 0.35, "shrink-iter": 0.10}[phase]
        w_er = {"grow": 0.08, "shrink": 0.55, "mixed": 0.30, "shrink-iter": 0.55}[phase]
        if x < maintenance:
            y = rng.random()
            o = rng.randrange(2)
            if y < 0.14:
                lines.append(f"clear {r}")
                R.es = []
            elif y < 0.36:
                # bulk_load at exact capacity multiples and one off
                if R.es:
                    lines.append(f"clear {r}")
                    R.es = []
                base = rng.choice([leaf, leaf * 2, leaf * (inner + 1), leaf * (inner + 1) * 2, leaf * (inner + 2),
                                   rng.randrange(1, 60), 1, 2, leaf * (inner + 1) * (inner + 1)])
                n = max(0, min(base + rng.choice([-1, 0, 0, 1]), 150))
                if not dup:
                    n = min(n, universe if R.mode != 2 else (universe + 1) // 2)
                ks = sorted_run(rng, R.mode, dup, n, universe)
                es = [(k, val()) for k in ks]
                lines.append(" ".join([f"bulk {r}"] + [fmt_ent(is_map, k, v) for k, v in es]))
                R.es = [(k, v) for k, v in es]
            elif y < 0.48 and o != r:
                lines.append(f"copy {r} {o}")
                R.es, R.mode = list(regs[o].es), regs[o].mode
            elif y < 0.62:
                lines.append(f"assign {r} {o}")
                R.es, R.mode = list(regs[o].es), regs[o].mode
            elif y < 0.72:
                lines.append(f"swap {r} {o}")
                regs[r].es, regs[o].es = regs[o].es, regs[r].es
                regs[r].mode, regs[o].mode = regs[o].mode, regs[r].mode
            elif y < 0.80:
                lines.append(f"tswap {r} {o}")
                regs[r].es, regs[o].es = regs[o].es, regs[r].es
                regs[r].mode, regs[o].mode = regs[o].mode, regs[r].mode
            elif y < 0.90:
                es = [(key(), val()) for _ in range(rng.randrange(0, 12))]
                op = rng.choice(["insr", "rctor"])
                if op == "rctor":
                    R.es = []
                for k, v in es:
                    R.insert(k, v)
                lines.append(" ".join([f"{op} {r}"] + [fmt_ent(is_map, k, v) for k, v in es]))
            else:
                lines.append(f"cmp {r} {o}")
        elif x < maintenance + w_ins and R.es and rng.random() < 0.15:
            # the argument is a reference to an element stored in the container itself
            rank = rng.randrange(len(R.es))
            lines.append(f"{rng.choice(['insref', 'insref', 'inshref'])} {r} {rank}")
            R.insert(*R.es[rank])
        elif x < maintenance + w_ins:
            k, v = key(), val()
            op = rng.choice(["ins", "ins", "ins", "insh"] + (["ins2"] if is_map else []) + (["idx"] if kind == "map" else []))
            if op == "idx":
                lines.append(f"idx {r} {k}")
                R.insert(k, 0)
            else:
                lines.append(f"{op} {r} {k} {v}")
                R.insert(k, v)
        elif x < maintenance + w_ins + w_er:
            y = rng.random()
            if phase == "shrink-iter":
                y = y * 0.6 + 0.4
            if R.es and rng.random() < 0.12:
                rank = rng.randrange(len(R.es))
                k = R.es[rank][0]
                if rng.random() < 0.5:
                    lines.append(f"er1ref {r} {rank}")
                    R.erase_one(k)
                else:
                    lines.append(f"eraref {r} {rank}")
                    R.erase_all(k)
            elif y < 0.45 or not R.es:
                k = present_key(R)
                lines.append(f"er1 {r} {k}")
                R.erase_one(k)
            elif y < 0.55:
                k = present_key(R)
                lines.append(f"era {r} {k}")
                R.erase_all(k)
            else:
                # erase(iterator): prefer positions inside long runs of equivalent keys and at leaf borders
                if rng.random() < 0.5:
                    k = rng.choice(R.es)[0]
                    lo = R.lb(k)
                    hi = lo
                    while hi < len(R.es) and not order_lt(R.mode, k, R.es[hi][0]):
                        hi += 1
                    rank = rng.randrange(lo, hi)
                else:
                    rank = rng.randrange(len(R.es))
                lines.append(f"eri {r} {rank}")
                del R.es[rank]
        else:
            q = rng.choice(["find", "find", "lb", "lb", "ub", "ub", "eqr", "count", "count", "exists", "size",
                            "iter", "iter", "rconv", "fconv", "cmp"])
            if R.es and rng.random() < 0.1:
                lines.append(f"{rng.choice(['findref', 'lbref', 'ubref', 'countref'])} {r} {rng.randrange(len(R.es))}")
            elif q == "size":
                lines.append(f"size {r}")
            elif q == "iter":
                lines.append(f"iter {r} {rng.randrange(16)}")
            elif q in ("rconv", "fconv"):
                lines.append(f"{q} {r} {rng.randrange(len(R.es) + 1)}")
            elif q == "cmp":
                lines.append(f"cmp {r} {rng.randrange(2)}")
            else:
                k = present_key(R) if rng.random() < 0.7 else key()
                if rng.random() < 0.1:
                    k = universe + 3          # beyond every key
                lines.append(f"{q} {r} {k}")
    return lines


def exhaustive_small(kind, leaf, inner, binsearch, mode, length):
    """all sequences of `length` operations from {insert k, erase_one k : k in 0..2} followed by
    queries for every key, at a fixed small configuration"""
    alphabet = [f"ins 0 {k} 1" for k in range(3)] + [f"er1 0 {k}" for k in range(3)]
    tail = [f"lb 0 {k}" for k in range(4)] + [f"ub 0 {k}" for k in range(3)] + ["iter 0 0", "iter 0 5"]
    cs = []
    for n, seq in enumerate(itertools.product(alphabet, repeat=length)):
        # sequences that start with an erase on the empty tree are covered by shorter ones
        if seq[0].startswith("er1"):
            continue
        cs.append([f"case ex-{kind}-{leaf}-{length}-{n}", f"cfg {kind} {leaf} {inner} {binsearch} {mode}"] + list(seq) + tail)
    return cs


def directed_cases():
    """fill to many leaves with duplicates, then erase by iterator through the whole run, for every
    slot pair and both searches (the situations named in the property's `why_tests_cant`)"""
    cs = []
    n = 0
    for (leaf, inner) in SLOT_PAIRS:
        for binsearch in (0, 1):
            for kind in ("mset", "mmap"):
                mode = n % 3
                is_map = kind == "mmap"
                cnt = min(leaf * (inner + 1) + leaf + 1, 70)
                lines = [f"case dir-{kind}-{leaf}-{inner}-{binsearch}-{mode}", f"cfg {kind} {leaf} {inner} {binsearch} {mode}"]
                for i in range(cnt):
                    lines.append(f"ins 0 {4 + (i % 3 == 0)} {i + 1}")
                lines += ["copy 1 0", "lb 0 4", "ub 0 4", "count 0 4", "iter 0 4"]
                # erase by iterator at the borders of the run, then bounds right after each erase
                for i in range(cnt - 1):
                    rank = (i * 7) % (cnt - i)
                    lines += [f"eri 0 {rank}", "lb 0 5", "ub 0 4", f"rconv 0 {min(rank, cnt - i - 1)}"]
                lines += ["eri 0 0", "size 0", "cmp 0 1", "swap 0 1", "era 0 4", "era 0 5", "bulk 0 " + " ".join(
                    fmt_ent(is_map, k, v) for k, v in [(k, k + 1) for k in (sorted(range(leaf * (inner + 1)), reverse=(mode == 1)))])]
                cs.append(lines)
                n += 1
    return cs


def byref_cases():
    """arguments that alias elements of the container: every rank of trees whose leaves are full, half full and
    in between, for insert (a full leaf is split before the aliased argument is stored), insert with hint, both
    erases and the queries; duplicate-key kinds insert a duplicate, unique-key kinds must stay unchanged"""
    cs = []
    n = 0
    for (leaf, inner) in ((4, 4), (5, 4), (4, 7), (8, 8)):
        for kind in KINDS:
            is_map, dup = kind in ("map", "mmap"), kind in ("mset", "mmap")
            for mode in (0, 1):
                cnt = leaf * 3 + (n % 3)
                keys = sorted(range(10, 10 + 2 * cnt, 2), reverse=(mode == 1))
                lines = [f"case byref-{kind}-{leaf}-{inner}-{mode}", f"cfg {kind} {leaf} {inner} {n % 2} {mode}",
                         "bulk 0 " + " ".join(fmt_ent(is_map, k, k % 7) for k in keys)]
                size = cnt
                # every element once as the aliased argument (ranks move as duplicates are inserted)
                rank = 0
                while rank < size and size < 6 * cnt:
                    lines.append(f"{'insref' if rank % 3 else 'inshref'} 0 {rank}")
                    if dup:
                        size += 1
                        rank += 2
                    else:
                        rank += 1
                lines += ["iter 0 0", "size 0"]
                for rank in range(0, size, 3):
                    lines += [f"findref 0 {rank}", f"lbref 0 {rank}", f"ubref 0 {rank}", f"countref 0 {rank}"]
                lines.append("copy 1 0")
                # erase through references: first the duplicates, then from both ends
                for i in range(size):
                    if i % 4 == 0:
                        lines.append("eraref 0 0")
                    elif i % 4 == 1:
                        lines.append(f"er1ref 0 {(i * 5) % 3}")
                    elif i % 4 == 2:
                        lines.append("eraref 1 1")
                    else:
                        lines.append("er1ref 1 0")
                lines += ["iter 0 0", "iter 1 0", "size 0", "size 1"]
                cs.append(lines)
                n += 1
    return cs


def bulk_sizes(leaf, inner, cap):
    """sizes at, just below and just above the places where the level structure of bulk_load changes: full
    trees leaf*(inner+1)^j, minimally filled ones, the same with the leaf fan-out mistaken for the inner one
    and vice versa, and a few sizes well inside three and four levels"""
    lm, im = leaf // 2, inner // 2
    s = set()
    for j in (1, 2, 3):
        for base in (leaf * (inner + 1) ** j, leaf * (leaf + 1) ** j, inner * (inner + 1) ** j,
                     lm * (im + 1) ** j, lm * (inner + 1) ** j, leaf * (im + 1) ** j,
                     (leaf * (inner + 1) ** j * 3) // 2, leaf * (inner + 1) ** j + leaf * (inner + 1) ** (j - 1)):
            for d in (-1, 0, 1, leaf, leaf + 1):
                if 0 < base + d <= cap:
                    s.add(base + d)
    return sorted(s)


def bulk_size_cases(tier, seed):
    """bulk_load of the asymmetric capacity pairs up to four levels (and the default-traits capacities beyond
    leaf*(inner+1)^2 items in the thorough tier), followed by observations and a little surgery"""
    cs = []
    n = seed
    pairs = [(p, 4000 if tier == "quick" else 30000) for p in BULK_PAIRS]
    if tier != "quick":
        pairs.append(((64, 21), 33000))
    for (leaf, inner), cap in pairs:
        sizes = bulk_sizes(leaf, inner, cap)
        if tier == "quick" and len(sizes) > 14:
            # the three-inner-level sizes always, a rotating sample of the rest
            big = [x for x in sizes if x > leaf * (inner + 1) ** 2]
            rest = [x for x in sizes if x <= leaf * (inner + 1) ** 2]
            sizes = sorted(set(big[:8] + big[-2:] + rest[seed % 3::3]))
        if (leaf, inner) == (64, 21):
            sizes = [64 * 22 * 22 + 1, 31000, 32771]
        for sz in sizes:
            kind = KINDS[n % 4]
            mode = n % 2
            is_map, dup = kind in ("map", "mmap"), kind in ("mset", "mmap")
            keys = [(i // 2 if dup and n % 3 == 0 else i) for i in range(sz)]
            if mode == 1:
                keys = [sz - k for k in keys]
            ents = " ".join(fmt_ent(is_map, k, k % 5) for k in keys)
            probe = sorted({keys[0], keys[-1], keys[sz // 2], keys[sz // 3], keys[(2 * sz) // 3]})
            lines = [f"case bulk-{leaf}-{inner}-{sz}", f"cfg {kind} {leaf} {inner} {n % 2} {mode}", "bulk 0 " + ents, "size 0"]
            for k in probe:
                lines += [f"lb 0 {k}", f"ub 0 {k}", f"find 0 {k}"]
            lines += [f"iter 0 {n % 16}", f"er1 0 {keys[sz // 2]}", f"eri 0 {sz // 3}", f"ins 0 {keys[-1] + (1 if mode == 0 else 0)} 1",
                      "copy 1 0", f"er1 1 {keys[0]}", "cmp 0 1", "clear 0", "size 0"]
            cs.append(lines)
            n += 1
    return cs


def allocator_cases():
    """the two registers are constructed with different allocator instances and, here, different comparators:
    copy construction, assignment with an empty / small / multi-level tree on either side, both swaps, range
    construction, clear and destruction in every order, with growth and shrinkage in between"""
    cs = []
    n = 0
    fills = (0, 3, 40)
    for (leaf, inner) in ((4, 4), (5, 4), (4, 7)):
        for kind in KINDS:
            is_map = kind in ("map", "mmap")
            for f0 in fills:
                for f1 in fills:
                    m0, m1 = n % 3, (n + 1) % 3
                    lines = [f"case alloc-{kind}-{leaf}-{inner}-{f0}-{f1}", f"cfg {kind} {leaf} {inner} {n % 2} {m0} {m1}"]
                    for r, f in ((0, f0), (1, f1)):
                        for i in range(f):
                            lines.append(f"ins {r} {(i * 7 + r) % 53} {i}")
                    two = [("assign 0 1", "assign 1 0"), ("swap 0 1", "assign 0 1"), ("tswap 0 1", "assign 1 0"),
                           ("copy 0 1", "swap 0 1"), ("assign 1 0", "tswap 0 1"), ("swap 1 0", "copy 1 0")][n % 6]
                    lines += [two[0], "ins 0 60 1", "ins 1 2 1", "ins 0 5 2", "iter 0 0", "iter 1 0", "cmp 0 1",
                              "er1 0 60", two[1], "ins 1 61 1", "ins 0 3 1", "iter 0 1", "iter 1 1",
                              "rctor 0 " + " ".join(fmt_ent(is_map, k, 1) for k in (9, 1, 5, 7, 3, 11, 13, 2, 4, 6, 8, 10, 12)),
                              "assign 1 0", "ins 1 14 1", "swap 0 1", "er1 0 14", "clear 1", "assign 0 1", "ins 0 1 1",
                              "rctor 1 " + " ".join(fmt_ent(is_map, k, 2) for k in range(20, 0, -1)),
                              "assign 0 0", "swap 1 1", "tswap 0 0", "assign 0 1", "clear 0", "clear 1", "size 0"]
                    cs.append(lines)
                    n += 1
    return cs


AFIELD = re.compile(r" ; a=(\d+),(\d+),(\d+),(\d+) ; T0 s=\d+,\d+,(\d+) .* ; T1 s=\d+,\d+,(\d+) ")


def nontrivial_key(case, answers):
    """split an inner node and later merged/collapsed one (read from the allocation ledger in the answers)"""
    split = merged = False
    for op, a in zip(case, answers):
        m = AFIELD.search(a + " ")
        if not m:
            continue
        ia, ifr = int(m.group(3)), int(m.group(4))
        o = op.split(" ", 1)[0]
        if o in ("ins", "insh", "ins2", "idx", "insr") and ia >= 1 and max(int(m.group(5)), int(m.group(6))) >= 3:
            split = True
        if o in ("er1", "era", "eri") and ifr >= 1:
            merged = True
    if split and merged:
        return hashlib.sha1("\n".join(case[1:]).encode()).hexdigest()
    return None


class BTreeSpec(flow.Spec):
    def probe_lines(self, case, idx):
        """all queries over the keys of the case (and their neighbours) on the register whose structure differs"""
        toks = case[idx].split()
        regs = [t for t in toks[1:3] if t in ("0", "1")] or ["0"]
        keys = set(range(0, 48))
        for l in case[:idx + 1]:
            t = l.split()
            if t and t[0] in ("ins", "insh", "ins2", "idx", "insr", "rctor", "bulk"):
                for x in t[2:]:
                    k = x.split(":")[0]
                    if k.isdigit():
                        keys.update((int(k), int(k) + 1, max(int(k) - 1, 0)))
        keys = sorted(keys)
        if len(keys) > 900:
            keys = keys[::len(keys) // 900 + 1]
        out = []
        for r in dict.fromkeys(regs):
            for k in keys:
                for q in ("find", "lb", "ub", "eqr", "exists", "count"):
                    out.append(f"{q} {r} {k}")
            for m in range(16):
                out.append(f"iter {r} {m}")
            out.append(f"size {r}")
        return out

    """common part of C01 and C02"""
    profile = "c01"
    case_timeout = 3600
    nontrivial_rule = ("an operation history is non-trivial when, according to the allocation counts in the answers, "
                       "an insertion split an inner node (inner allocation while the tree already has >= 3 inner nodes "
                       "afterwards) and a later erase freed an inner node (inner merge or root collapse); distinct = "
                       "distinct operation sequences")

    def translator(self, ctx):
        # data of btree.hpp the model depends on -> Gen/C01Consts.lean (rewritten only when it changed;
        # the model's agreement facts `gen_*` in Model/C01Erase.lean and every proof are then re-checked)
        out = os.path.join(core.LEAN, "TlxVerif", "Gen", "C01Consts.lean")
        rc, o, e = core.sh([sys.executable, os.path.join(core.VERIF, "tools", "c01_extract.py"), core.REPO, out])
        if rc != 0:
            return ["translator tools/c01_extract.py: " + (e.strip() or o.strip() or f"rc={rc}")]
        objs, problems = prebuild(ctx)
        self.harness = harness_spec(objs)
        return problems

    def viol_class(self, message):
        head = message.split(" after `")[0]
        return re.sub(r"[0-9]+", "N", head)[:100]

    def nontrivial(self, case, answers):
        return nontrivial_key(case, answers)

    def cases(self, ctx, seed, tier, round_no=0):
        rng = random.Random(seed * 1000003 + round_no * 7919 + (0 if self.profile == "c01" else 17))
        cs = []
        if round_no == 0:
            cs += directed_cases()
            cs += self.deep_cases(ctx, seed, tier)
            cs += bulk_size_cases(tier, seed)
            cs += allocator_cases()
            cs += byref_cases()
        n = 260 if tier == "quick" else 8000
        k = 0
        # every kind x slot pair x search x order at least once per run, then random configurations
        for kind in KINDS:
            for slots in SLOT_PAIRS:
                for binsearch in (0, 1):
                    cs.append(gen_case(rng, k, rng.choice([120, 200]), kind, slots, binsearch, k % 3, self.profile))
                    k += 1
        for _ in range(n):
            cs.append(gen_case(rng, k, rng.choice([60, 150, 200, 300]), profile=self.profile))
            k += 1
        if tier != "quick" and round_no == 0:
            for kind in ("set", "mset", "map", "mmap"):
                for length in (4, 5) if kind in ("map", "mmap") else (4, 5, 6):
                    cs += exhaustive_small(kind, 4, 4, 0, 0, length)
            cs += exhaustive_small("mset", 5, 5, 1, 1, 6)
        self.seen_cases = getattr(self, "seen_cases", []) + cs
        return cs

    def deep_cases(self, ctx, seed, tier):
        """tall trees at the minimal capacities shaped for every branch of the erase case analysis, planned
        with the model's branch trace (checks/c01_deep.py); cached per model driver, seed and tier"""
        drv = core.driver_path(self.pid)
        if not os.path.exists(drv):
            return []
        h = hashlib.sha1()
        for f in (drv, c01_deep.__file__):
            h.update(open(f, "rb").read())
        cache = os.path.join(core.BUILD, "c01_deep", f"{h.hexdigest()[:20]}_{tier}_{seed}.json")
        if os.path.exists(cache):
            try:
                return json.load(open(cache))
            except ValueError:
                pass
        t = time.time()
        cases, covered = c01_deep.plan(drv, seed, tier, lambda m: ctx.say(m))
        ctx.say(f"deep-tree planner: {len(cases)} cases, {sum(len(c) for c in cases)} ops, "
                f"{len([l for l in c01_deep.UNIVERSE if l in covered])}/{len(c01_deep.UNIVERSE)} branches of the erase "
                f"case analysis planned, {time.time() - t:.1f}s")
        os.makedirs(os.path.dirname(cache), exist_ok=True)
        tmp = cache + f".tmp{os.getpid()}"
        json.dump(cases, open(tmp, "w"))
        os.replace(tmp, cache)
        return cases

    def extra_coverage(self, ctx, res):
        """branch coverage of erase_one_descend / erase_iter_descend over every generated case of this run,
        as traced by the model (`drv labels`, Model/C01Trace.lean)"""
        drv = core.driver_path(self.pid)
        cases = getattr(self, "seen_cases", [])
        if not os.path.exists(drv) or not cases:
            return {}
        cnt = c01_deep.coverage(drv, cases)
        table = {l: cnt.get(l, 0) for l in c01_deep.UNIVERSE}
        other = {l: c for l, c in cnt.items() if l not in table}
        missing = [l for l in c01_deep.UNIVERSE if not cnt.get(l)]
        ctx.say(f"erase branch coverage (model trace over {len(cases)} generated cases): "
                f"{len(table) - len(missing)}/{len(table)} branches exercised"
                + ("; NOT exercised: " + " ".join(missing) if missing else ""))
        return {"erase_branch_coverage": table,
                "erase_branches_exercised": len(table) - len(missing),
                "erase_branches_total": len(table),
                "erase_branches_not_exercised": missing,
                "erase_branch_labels_outside_table": other,
                "erase_branch_legend": (
                    "k = erase_one_descend, i = erase_iter_descend; L leaf frame, I1 inner frame of level 1, I2 of "
                    "level >= 2; row<r> = branch of the underflow if/else chain in source order (1 both neighbours "
                    "few/null, 2 left few & right has spare, 3 left has spare & right few, 4 both spare & same parent, "
                    "5 else; a/b = first/second alternative: a same-parent action, b the cousin-under-another-parent "
                    "one for rows 1-3 and 5); +lk = myres already carries btree_update_lastkey when the merge/shift "
                    "result is or-ed in; nofix = no underflow; lastkey.set/fwd = separator written / forwarded; "
                    "fixmerge.cur/next = which merged child is the empty one; exec.* = the merge/shift function run; "
                    "scan.advance = erase_iter's search loop went on to a further child; counts are model-side "
                    "(the model is compared with the implementation structurally on every one of these operations)")}


class C01(BTreeSpec):
    pid = "C01"
    profile = "c01"
    harness_args = ("run", "c01")
    harness = harness_spec([])
    extra_lean_sources = ()
    assumptions = [
        "pointer linkage (childid[], prev_leaf/next_leaf, head/tail) is represented by positions: the leaf chain of "
        "the model is the left-to-right sequence of leaves; the harness checks after every mutating call that the "
        "real chain, walked forward and backward, is exactly that sequence",
        "array slots beyond slotuse (stale copies) are not part of the model",
        "unsigned short slotuse / size_t counters are modelled by Nat (no node capacity near 65535 is exercised)",
        "element copy/assignment and the allocator meet their standard contracts; which allocator instance a tree holds after "
        "copy construction / assignment / swap is modelled as tlx does it (source's instance, unconditionally) and compared",
        "std::equal / std::lexicographical_compare / std::copy(_backward) meet their standard contracts",
        "keys and values are natural numbers in the correspondence; the theorems are generic in the key type and order",
    ]
    trusted_base = ["Lean 4 kernel", "axioms: propext, Quot.sound, Classical.choice at most (audited per theorem)",
                    "hand-written model TlxVerif/Model/C01*.lean tied to tlx/container/btree*.hpp by the structural "
                    "line-protocol correspondence (harness/c01*.cpp through tlx's TLX_BTREE_FRIENDS hook, ASan+UBSan)",
                    "translator tools/c01_extract.py (slotmin formulas, is_full/is_few/is_underflow, result_flags_t bits, "
                    "btree_default_traits -> Gen/C01Consts.lean, regenerated on every run)",
                    "branch trace of the erase case analysis computed by the model (Model/C01Trace.lean, proved to be the "
                    "model's descent) for the deep-tree planner checks/c01_deep.py and the coverage table in the evidence",
                    "libstdc++ std::set/multiset/map/multimap as reference oracle (search aid only)"]


SPEC = C01()


def replay(path):
    ctx = core.Ctx(SPEC.pid, "quick", 0)
    SPEC.translator(ctx)
    return flow.replay(SPEC, path)
