"""C10 — ThreadPool runs each job exactly once; loop_until_empty means quiescence; no lost wake-up.

The real tlx::ThreadPool runs under the deterministic scheduler (harness/detsched, shim force-included),
the Lean transition system (lean/TlxVerif/Model/C10Pool.lean) runs under the Lean mirror of the same
scheduler on the same draws; the two event traces must be equal token by token (trace refinement), and the
harness' direct oracle checks the property itself on the real code."""
import os
import random
import re

from vlib import core, flow

SHIM = os.path.join(core.VERIF, "harness", "detsched", "shim.hpp")


def gen_case(rng, cid, tier):
    lines = [f"case p{cid}"]
    nw = rng.choice([1, 1, 2, 2, 2, 3, 3, 4])
    # init_thread callback with 0-3 scheduling points: workers that are neither idle nor busy while starting up
    lines.append(f"pool {nw}" + (f" init={rng.choice([0, 1, 2, 3])}" if rng.random() < 0.3 else ""))
    ncodes = rng.choice([1, 2, 3, 4])
    has_term = rng.random() < 0.35
    # job k only enqueues codes < k: finite job trees
    term_code = None
    for k in range(ncodes):
        body = []
        if k > 0:
            for _ in range(rng.choice([0, 1, 1, 2, 3])):
                body.append(f"e{rng.randrange(k)}")
        if has_term and rng.random() < 0.3:
            body.insert(rng.randrange(len(body) + 1), "t")     # also: enqueue from inside a job after terminate()
            term_code = k
        if rng.random() < 0.15:
            body.insert(rng.randrange(len(body) + 1), rng.choice(["d", "i"]))
        if rng.random() < 0.2:
            # the job throws std::runtime_error (after some of its calls); the pool catches and logs it
            body.insert(rng.randrange(len(body) + 1), "x")
        if rng.random() < 0.3:
            # the destructor of the job's closure enqueues a continuation (fork-join idiom) / reads the observers
            dt = []
            for _ in range(rng.choice([1, 1, 2])):
                dt.append(f"e{rng.randrange(k)}" if k > 0 and rng.random() < 0.7 else rng.choice(["d", "i"]))
            body = body + ["~"] + dt
        lines.append("job " + " ".join([str(k)] + body))

    def calls(n, allow_wait=True):
        cs = []
        for _ in range(n):
            r = rng.random()
            if r < 0.55:
                cs.append(f"e{rng.randrange(ncodes)}")
            elif r < 0.80 and allow_wait:
                cs.append("w")
            elif r < 0.85:
                cs.append(rng.choice(["d", "i"]))
            elif r < 0.92 and has_term:
                cs.append("t")
            elif r < 0.97 and has_term and allow_wait:
                cs.append("u")
            else:
                cs.append(f"e{rng.randrange(ncodes)}")
        return cs

    nclients = rng.choice([0, 1, 1, 2, 2, 2, 3])
    shape = rng.random()
    for i in range(nclients):
        if shape < 0.25:
            # pure waiters next to enqueuers: the D6 shape
            lines.append("client " + " ".join(rng.choice([["w"], ["w", "w"], ["e0", "w"], ["u"] if has_term else ["w"]])))
        else:
            lines.append("client " + " ".join(calls(rng.choice([1, 2, 3, 4]))))
    mc = calls(rng.choice([0, 1, 2, 3, 4]))
    if rng.random() < 0.6:
        mc.append("w")
    if has_term and rng.random() < 0.5:
        mc.append(rng.choice(["t", "t", "u"]))
    if mc:
        lines.append("main " + " ".join(mc))
    nruns = 4 if tier == "quick" else 8
    for _ in range(nruns):
        stick = rng.choice([0, 0, 100, 200, 240])
        spur = rng.choice([0, 0, 0, 1, 3])
        lines.append(f"run seed={rng.randrange(1, 2**40)} stick={stick} spur={spur}")
    return lines


def gen_term_case(rng, cid, tier):
    """termination shapes: terminate() must not wait for (or start) queued jobs.
    S1 a parked worker, then enqueue() immediately followed by terminate() (terminate can get the mutex before
       the woken worker: the worker must re-check terminate_ before it picks the job);
    S2 a job that calls terminate() with a backlog queued behind it (the backlog is dropped);
    S3 self-re-enqueueing jobs with an outside terminate() (the pool must come to rest, ~ThreadPool returns)."""
    lines = [f"case t{cid}"]
    nw = rng.choice([1, 1, 1, 2, 2, 3])
    lines.append(f"pool {nw}" + (f" init={rng.choice([0, 1])}" if rng.random() < 0.15 else ""))
    shape = rng.choice([1, 1, 2, 2, 3])
    tail = rng.choice([["u"], ["u", "d"], ["u", "d", "i"], ["u", "e0", "d"], []])
    if shape == 1:
        lines.append("job 0" + rng.choice(["", "", " d", " ~ d"]))
        pre = rng.choice([[], [], ["i"], ["d"], ["e0", "w"]])
        lines.append("client " + " ".join(pre + ["e0"] * rng.choice([1, 1, 2]) + ["t"]))
        if rng.random() < 0.4:
            lines.append("client " + rng.choice(["u", "u d", "e0 t", "i u"]))
        lines.append("main " + " ".join(rng.choice([["u"], ["u", "d"], ["i", "u", "d"]])))
    elif shape == 2:
        lines.append("job 0" + rng.choice(["", "", " d", " ~ i"]))
        lines.append("job 1 " + rng.choice(["t", "t", "t e0", "e0 t", "t d", "t ~ e0"]))
        backlog = ["e0"] * rng.choice([1, 2, 3])
        who = rng.choice(["client", "main"])
        if who == "client":
            lines.append("client " + " ".join(rng.choice([[], ["e0"]]) + ["e1"] + backlog))
            if tail:
                lines.append("main " + " ".join(tail))
        else:
            if rng.random() < 0.5:
                lines.append("client " + rng.choice(["u", "u d", "e0 e0"]))
            lines.append("main " + " ".join(["e1"] + backlog + tail))
    else:
        lines.append("job 0 " + rng.choice(["e0", "e0", "e0 d", "d e0"]))
        if rng.random() < 0.4:
            lines.append("job 1 e1 e0")
            start = rng.choice(["e1", "e0 e1"])
        else:
            start = rng.choice(["e0", "e0 e0"])
        lines.append("client " + start + rng.choice(["", " t", " d t"]))
        # an outside terminate() that is always reached (no blocking call before it): every run comes to rest
        lines.append("client " + rng.choice(["t", "i t", "t u", "t u d"]))
        lines.append("main " + " ".join(rng.choice([["u"], ["u", "d"], ["t", "u", "d"], ["d"]])))
    nruns = 4 if tier == "quick" else 8
    for _ in range(nruns):
        stick = rng.choice([0, 0, 0, 100, 200])
        spur = rng.choice([0, 0, 0, 1, 3])
        lines.append(f"run seed={rng.randrange(1, 2**40)} stick={stick} spur={spur}")
    return lines


EXPLORE = [
    # (scenario lines, quick runs, thorough runs): systematic depth-first enumeration of all schedules
    (["pool 1", "job 0", "client w", "main e0"], 600, 6000),
    (["pool 1", "job 0", "client w", "client w", "main e0"], 600, 6000),          # the D6 shape
    (["pool 1", "client u", "client u", "main t"], 600, 6000),                    # the D6b shape
    (["pool 1", "job 0", "client u", "client w", "main e0 t"], 400, 6000),
    (["pool 2", "job 0", "job 1 e0", "main e1 w"], 400, 6000),
    (["pool 1", "job 0", "job 1 e0 t", "client w", "main e1 u"], 0, 6000),
    (["pool 2", "job 0", "client e0 w", "main e0 w"], 0, 6000),
    (["pool 1", "job 0 x", "client w", "main e0 w"], 400, 6000),                  # a job that throws
    (["pool 1", "job 0", "job 1 e0 x e0", "main e1 w d"], 320, 6000),              # throws after enqueuing a child
    (["pool 1 init=2", "client u", "main t"], 320, 6000),                          # terminate() during worker start-up
    (["pool 1", "job 0", "job 1 t e0 d", "client u", "main e1 u"], 0, 6000),       # enqueue inside a job after terminate
    (["pool 1", "job 0 i", "main e0 e0 d"], 0, 6000),                              # destruction while jobs are queued
    (["pool 1", "job 0", "job 1 ~ e0", "client w", "main e1"], 400, 6000),          # the closure's destructor enqueues
    (["pool 2", "job 0", "job 1 e0 x ~ e0 d", "main e1 w d"], 320, 6000),           # fork-join with a throwing body
    (["pool 1", "job 0", "job 1 t ~ e0", "client u", "main e1 w"], 0, 6000),        # destructor enqueues after terminate
    (["pool 1", "job 0", "client e0 t", "main u d"], 400, 6000),                   # parked worker, enqueue + terminate
    (["pool 1", "job 0", "job 1 t", "main e1 e0 e0 u d"], 300, 6000),               # terminate() from a job, backlog behind it
    (["pool 2", "job 0", "client e0 e0 t", "client u", "main u d"], 0, 6000),
]


def explore_cases(tier):
    cs = []
    for i, (lines, q, t) in enumerate(EXPLORE):
        n = q if tier == "quick" else t
        if n:
            cs.append([f"case x{i}"] + lines + [f"explore runs={n}", f"explore runs={max(n // 2, 1)} spur=1"])
    return cs


class C10(flow.Spec):
    pid = "C10"
    # -O0: the harness spends its time in thread hand-overs, not in computation; compiling is 3x faster
    harness = dict(name="c10", sources=["c10.cpp"], flags=["-include", SHIM], repo_sources=["tlx/thread_pool.cpp"],
                   std_flags=["-O0" if f == "-O1" else f for f in core.SAN_FLAGS])
    nontrivial_rule = ("scenario = pool size 1-4 (optionally with an init_thread callback), a table of job bodies (jobs enqueueing "
                       "jobs / terminating the pool / throwing std::runtime_error / calling done() and idle(); closures whose destructor "
                       "enqueues a continuation or reads the observers), "
                       "0-3 client threads and the main thread issuing enqueue / loop_until_empty / loop_until_terminate / "
                       "terminate (every sixth scenario is a termination shape: parked worker + enqueue immediately followed by "
                       "terminate, a job calling terminate() with a backlog behind it, self-re-enqueueing jobs with an outside "
                       "terminate), run under several PRNG schedules (with sticky and spurious-wake-up variants); a case is "
                       "non-trivial when in some run a waiter really blocked on cv_finished_ and either two workers were "
                       "busy at once or a job enqueued another job; distinct = distinct scenario + schedule lines; in "
                       "addition a fixed list of tiny scenarios is explored systematically (depth-first over all "
                       "scheduling and notify choices, with and without one spurious wake-up) up to a run budget, and "
                       "the number of schedules must agree between implementation and model")
    assumptions = [
        "sequentially consistent interleavings at the granularity of synchronisation operations; weak-memory "
        "reorderings of the relaxed/acquire/release accesses are not covered",
        "std::deque, tlx::Delegate, std::thread start/join and std::condition_variable meet their contracts "
        "(the condition variable is modelled with arbitrary notify_one choice and optional spurious wake-ups)",
        "jobs do not throw and do not call loop_until_empty/loop_until_terminate themselves; the destructor runs after "
        "all client threads were joined",
        "loop_until_empty on a terminated pool with jobs left in the queue never returns by design; this is not counted "
        "as a lost wake-up",
    ]
    trusted_base = ["Lean 4 kernel", "axioms: propext, Quot.sound, Classical.choice at most (audited per theorem)",
                    "hand-written transition system TlxVerif/Model/C10Pool.lean tied to thread_pool.cpp by the "
                    "trace-refinement check: real code under harness/detsched (shim force-included, no source change) vs "
                    "model under the mirrored scheduler TlxVerif/Model/C10Sched.lean on identical draws",
                    "harness/detsched scheduler and shim (one logical thread at a time; every std synchronisation "
                    "operation inside namespace tlx is a scheduling point)"]

    def extra_coverage(self, ctx, res):
        """thorough tier: the real primitives on real threads under ThreadSanitizer (supporting evidence)"""
        if ctx.tier != "thorough":
            return {}
        hb, log = core.build_harness(ctx, name="c10_tsan", sources=["c10_tsan.cpp"], repo_sources=["tlx/thread_pool.cpp"],
                                     std_flags=["-std=gnu++17", "-O1", "-g", "-fsanitize=thread", "-Wno-tsan"])
        if hb is None:
            ctx.say("tsan harness does not compile:", log[-400:])
            return {"tsan_real_threads": "not built"}
        runs, bad, inconclusive = 0, None, 0
        for _ in range(5):
            rc, out, err = core.sh([hb], timeout=600, env={"TSAN_OPTIONS": "halt_on_error=1:exitcode=66"})
            runs += 1
            txt = out + err
            if rc == 0:
                continue
            if "ThreadSanitizer: data race" in txt or "CHECK failed" in txt or "ThreadSanitizer: lock-order" in txt:
                bad = (rc, txt[-3000:])
                break
            inconclusive += 1      # watchdog, sanitizer start-up problems, resource limits: not a verdict
        if bad is not None:
            path = ctx.write_replay(f"tsan_{ctx.tier}_{ctx.seed}.txt",
                                    ["kind: real-thread ThreadSanitizer run failed (data race / failed check)",
                                     f"replay: build harness/c10_tsan.cpp with -fsanitize=thread against the repo and run it (rc={bad[0]})"],
                                    bad[1].splitlines())
            ctx.violation(path, "real-thread run under ThreadSanitizer reports a race or a failed check", True)
        ctx.say(f"tsan real-thread runs: {runs}, inconclusive (watchdog): {inconclusive}, failed: {0 if bad is None else 1}")
        return {"tsan_real_threads": {"runs": runs, "inconclusive": inconclusive, "failed": bad is not None}}

    def viol_class(self, message):
        m = re.sub(r"[0-9]+", "N", message.replace("#VIOL", "")).split(" although")[0]
        return " ".join(m.split()[:8])

    def cases(self, ctx, seed, tier, round_no=0):
        rng = random.Random(seed * 1000003 + round_no * 7919 + 10)
        n = 500 if tier == "quick" else 10000
        cs = [gen_term_case(rng, i, tier) if i % 6 == 5 else gen_case(rng, i, tier) for i in range(n)]
        if round_no == 0:
            cs += explore_cases(tier)
        return cs

    def nontrivial(self, case, answers):
        for a in answers:
            if "wait(cvf)" in a and ("rmw(busy)=2" in a or self._nested(a)):
                return tuple(case)
        return None

    @staticmethod
    def _nested(a):
        # an enqueue (n1(cvj)) by a worker thread between its job+ and job- notes
        depth = {}
        for tok in a.split():
            if ":" not in tok:
                continue
            t, e = tok.split(":", 1)
            if e.startswith("job+"):
                depth[t] = 1
            elif e.startswith("job-"):
                depth[t] = 0
            elif e.startswith("n1(cvj)") and depth.get(t):
                return True
        return False


SPEC = C10()
