#!/usr/bin/env python3
"""Entry point of every check:  check.py Cnn [--tier quick|thorough] [--replay file]
                                check.py --setup     (build the Lean package once)
Exit 0 = property held on everything explored; exit 1 + `VIOLATION property=… replay=…`."""
import argparse
import importlib
import os
import sys

sys.path.insert(0, os.path.dirname(os.path.abspath(__file__)))
from vlib import core, flow  # noqa: E402


def main():
    ap = argparse.ArgumentParser()
    ap.add_argument("pid", nargs="?")
    ap.add_argument("--tier", default=os.environ.get("VERIF_TIER", "quick"), choices=["quick", "thorough"])
    ap.add_argument("--seed", type=int, default=int(os.environ.get("VERIF_SEED", "1") or 1))
    ap.add_argument("--replay")
    ap.add_argument("--setup", action="store_true")
    ap.add_argument("--bless", action="store_true", help="record the current fingerprints of the modelled sources")
    a = ap.parse_args()
    if a.setup:
        ctx = core.Ctx("setup", "quick", 0)
        ok, log = core.lean_build(ctx, ["TlxVerif"])
        if not ok:
            print(log[-4000:])
        ids = sorted(f[:-3].upper() for f in os.listdir(os.path.join(core.VERIF, "checks"))
                     if f.startswith("c") and f.endswith(".py"))
        ok2, log2 = core.lean_build(ctx, ["drv_" + i.lower() for i in ids
                                          if os.path.exists(os.path.join(core.LEAN, "Driver", i + ".lean"))])
        if not ok2:
            print(log2[-4000:])
        if os.path.isdir(os.path.join(core.LEAN, "TlxVerifMath")) and os.listdir(os.path.join(core.LEAN, "TlxVerifMath")):
            ok3, log3 = core.lean_build(ctx, ["TlxVerifMath"])
            if not ok3:
                print(log3[-4000:])
        # a failing setup build is reported by the individual checks, not here
        return 0
    mod = importlib.import_module("checks." + a.pid.lower())
    if a.bless:
        core.bless_sources(mod.SPEC.pid, mod.SPEC.source_files)
        return 0
    if a.replay:
        return mod.replay(a.replay) if hasattr(mod, "replay") else flow.replay(mod.SPEC, a.replay)
    if hasattr(mod, "main"):
        return mod.main(a.tier, a.seed)
    return flow.run(mod.SPEC, a.tier, a.seed)


if __name__ == "__main__":
    sys.exit(main())
