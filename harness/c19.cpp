// C19 harness: the tlx string codecs and helpers behind the line protocol.
//
//   <op> <args…> [= <expected answer tokens>]
//
// Byte strings are lowercase hex (`-` = empty), string vectors are `[]` or items
// joined by `,`; numbers are decimal, `n` = npos; a thrown exception answers `X`.
// The optional part behind `=` is the answer a *direct definition* gives (computed by
// checks/c19.py with Python's base64 / binascii / bytes methods / textbook edit
// distance); `*` matches any token.  A difference is a `#VIOL` (the property fails
// on the real code).  Independently the harness checks, where an operation exists in
// several API shapes with the same documented meaning (in-place / copy, char /
// string / const char* overloads), that they agree, and for base64 with line breaks
// that the output has the documented line structure.
// Ops whose documented precondition fails (line_break not a multiple of 4, empty
// needle for replace, min_fields > limit) answer `bad-op` and are not executed.
#include <algorithm>
#include <csignal>
#include <cstring>
#include <unistd.h>
#include <stdexcept>
#include <string>
#include <vector>

#include "common.hpp"

#include <tlx/container/string_view.hpp>
#include <tlx/string/base64.hpp>
#include <tlx/string/compare_icase.hpp>
#include <tlx/string/contains.hpp>
#include <tlx/string/ends_with.hpp>
#include <tlx/string/equal_icase.hpp>
#include <tlx/string/erase_all.hpp>
#include <tlx/string/hexdump.hpp>
#include <tlx/string/join.hpp>
#include <tlx/string/join_quoted.hpp>
#include <tlx/string/less_icase.hpp>
#include <tlx/string/levenshtein.hpp>
#include <tlx/string/pad.hpp>
#include <tlx/string/replace.hpp>
#include <tlx/string/split.hpp>
#include <tlx/string/split_quoted.hpp>
#include <tlx/string/starts_with.hpp>
#include <tlx/string/to_lower.hpp>
#include <tlx/string/to_upper.hpp>
#include <tlx/string/trim.hpp>

typedef std::vector<std::string> Vec;
static const size_t NPOS = size_t(-1);

static int hexval(char c) {
    if (c >= '0' && c <= '9') return c - '0';
    if (c >= 'a' && c <= 'f') return c - 'a' + 10;
    return -1;
}
static bool parse_bytes(const std::string& tok, std::string& out) {
    out.clear();
    if (tok == "-") return true;
    if (tok.size() % 2) return false;
    for (size_t i = 0; i < tok.size(); i += 2) {
        int a = hexval(tok[i]), b = hexval(tok[i + 1]);
        if (a < 0 || b < 0) return false;
        out.push_back(static_cast<char>(a * 16 + b));
    }
    return true;
}
static bool parse_vec(const std::string& tok, Vec& v) {
    v.clear();
    if (tok == "[]") return true;
    size_t i = 0;
    while (true) {
        size_t j = tok.find(',', i);
        std::string item = tok.substr(i, j == std::string::npos ? std::string::npos : j - i), b;
        if (!parse_bytes(item, b)) return false;
        v.push_back(b);
        if (j == std::string::npos) break;
        i = j + 1;
    }
    return true;
}
static bool parse_num(const std::string& tok, size_t& n) {
    if (tok == "n") { n = NPOS; return true; }
    if (tok.empty() || tok.size() > 18) return false;
    n = 0;
    for (char c : tok) { if (c < '0' || c > '9') return false; n = n * 10 + static_cast<size_t>(c - '0'); }
    return true;
}
static bool parse_char(const std::string& tok, char& c) {
    std::string b;
    if (!parse_bytes(tok, b) || b.size() != 1) return false;
    c = b[0];
    return true;
}
static std::string hex(const std::string& s) {
    static const char* X = "0123456789abcdef";
    if (s.empty()) return "-";
    std::string o;
    for (unsigned char c : s) { o += X[c >> 4]; o += X[c & 15]; }
    return o;
}
static std::string hexv(const Vec& v) {
    if (v.empty()) return "[]";
    std::string o;
    for (size_t i = 0; i < v.size(); ++i) { if (i) o += ','; o += hex(v[i]); }
    return o;
}
static char sgn(int c) { return c < 0 ? '<' : c > 0 ? '>' : '='; }
static char bit(bool b) { return b ? '1' : '0'; }

// exact-size unterminated copy of a byte string, so that reads past a string_view are ASan errors
struct Exact {
    char* p; size_t n;
    explicit Exact(const std::string& s) : p(new char[s.size()]), n(s.size()) { if (n) std::memcpy(p, s.data(), n); }
    ~Exact() { delete[] p; }
    Exact(const Exact&) = delete;
    tlx::string_view view() const { return tlx::string_view(p, n); }
};

static bool has_nul(const std::string& s) { return s.find('\0') != std::string::npos; }

static std::string g_op;
static void disagree(const std::string& what) { vh::viol(g_op + " overloads disagree: " + what); }

// ---------------------------------------------------------------------------------- the operations
// returns false = bad-op
static bool execute(const std::vector<std::string>& t, std::string& out) {
    const std::string& op = t[0];
    std::string a, b, c;
    size_t n1 = 0, n2 = 0;
    char c1 = 0, c2 = 0, c3 = 0;
    Vec v;

    if (op == "b64e" && t.size() == 3) {
        if (!parse_bytes(t[1], a) || !parse_num(t[2], n1) || n1 % 4 != 0) return false;
        Exact A(a);
        std::string r = tlx::base64_encode(A.view(), n1);
        std::string r2 = tlx::base64_encode(A.p, A.n, n1);
        if (r != r2) disagree("base64_encode(view) vs (ptr,size)");
        if (n1 > 0) {
            // documented line structure: apart from the line breaks the plain encoding; every
            // terminated line has exactly line_break characters, the rest at most that many
            std::string plain = tlx::base64_encode(A.view(), 0), stripped;
            size_t cur = 0;
            bool ok = true;
            for (char ch : r) {
                if (ch == '\n') { if (cur != n1) ok = false; cur = 0; }
                else { stripped += ch; ++cur; }
            }
            if (cur > n1) ok = false;
            if (stripped != plain) vh::viol("b64e output without line breaks differs from the plain encoding, data=" + t[1] + " lb=" + t[2]);
            if (!ok) vh::viol("b64e line structure wrong, data=" + t[1] + " lb=" + t[2] + " out=" + hex(r));
        }
        out = hex(r);
        return true;
    }
    if (op == "b64d" && t.size() == 3) {
        if (!parse_bytes(t[1], a) || !parse_num(t[2], n1) || n1 > 1) return false;
        Exact A(a);
        try { out = hex(tlx::base64_decode(A.view(), n1 != 0)); }
        catch (const std::runtime_error&) { out = "X"; }
        try { std::string r2 = hex(tlx::base64_decode(A.p, A.n, n1 != 0)); if (r2 != out) disagree("base64_decode(view) vs (ptr,size)"); }
        catch (const std::runtime_error&) { if (out != "X") disagree("base64_decode(view) vs (ptr,size) exception"); }
        return true;
    }
    if (op == "b64rt" && t.size() == 3) {
        if (!parse_bytes(t[1], a) || !parse_num(t[2], n1) || n1 % 4 != 0) return false;
        Exact A(a);
        std::string e = tlx::base64_encode(A.view(), n1);
        Exact E(e);
        try { out = hex(tlx::base64_decode(E.view(), true)); }
        catch (const std::runtime_error&) { out = "X"; }
        return true;
    }
    if ((op == "hexd" || op == "hexl") && t.size() == 2) {
        if (!parse_bytes(t[1], a)) return false;
        Exact A(a);
        std::vector<char> vc(a.begin(), a.end());
        std::vector<std::uint8_t> vu(a.begin(), a.end());
        std::string r, r2, r3, r4;
        if (op == "hexd") { r = tlx::hexdump(A.view()); r2 = tlx::hexdump(A.p, A.n); r3 = tlx::hexdump(vc); r4 = tlx::hexdump(vu); }
        else { r = tlx::hexdump_lc(A.view()); r2 = tlx::hexdump_lc(A.p, A.n); r3 = tlx::hexdump_lc(vc); r4 = tlx::hexdump_lc(vu); }
        if (r != r2 || r != r3 || r != r4) disagree("hexdump view / ptr / vector<char> / vector<uint8_t>");
        out = hex(r);
        return true;
    }
    if (op == "hexp" && t.size() == 2) {
        if (!parse_bytes(t[1], a)) return false;
        Exact A(a);
        try { out = hex(tlx::parse_hexdump(A.view())); }
        catch (const std::runtime_error&) { out = "X"; }
        return true;
    }
    if (op == "hexrt" && t.size() == 2) {
        if (!parse_bytes(t[1], a)) return false;
        Exact A(a);
        std::string u = tlx::hexdump(A.view()), l = tlx::hexdump_lc(A.view());
        Exact U(u), L(l);
        try { out = hex(tlx::parse_hexdump(U.view())); } catch (const std::runtime_error&) { out = "X"; }
        out += ',';
        try { out += hex(tlx::parse_hexdump(L.view())); } catch (const std::runtime_error&) { out += "X"; }
        return true;
    }
    if ((op == "splitc" || op == "splits") && t.size() == 4) {
        if (!parse_bytes(t[2], b) || !parse_num(t[3], n1)) return false;
        Exact B(b);
        Vec r, r2;
        if (op == "splitc") {
            if (!parse_char(t[1], c1)) return false;
            r = tlx::split(c1, B.view(), n1);
            r2.push_back("stale"); tlx::split(&r2, c1, B.view(), n1);
        } else {
            if (!parse_bytes(t[1], a)) return false;
            Exact A(a);
            r = tlx::split(A.view(), B.view(), n1);
            r2.push_back("stale"); tlx::split(&r2, A.view(), B.view(), n1);
        }
        if (r != r2) disagree("split returning / split into");
        out = hexv(r);
        return true;
    }
    if ((op == "splitcm" || op == "splitsm") && t.size() == 5) {
        if (!parse_bytes(t[2], b) || !parse_num(t[3], n1) || !parse_num(t[4], n2)) return false;
        if (n1 > n2 || n1 > 64) return false;     // "at least min_fields and at most limit" needs min <= limit
        Exact B(b);
        Vec r, r2;
        if (op == "splitcm") {
            if (!parse_char(t[1], c1)) return false;
            r = tlx::split(c1, B.view(), n1, n2);
            r2.push_back("stale"); tlx::split(&r2, c1, B.view(), n1, n2);
        } else {
            if (!parse_bytes(t[1], a)) return false;
            Exact A(a);
            r = tlx::split(A.view(), B.view(), n1, n2);
            r2.push_back("stale"); tlx::split(&r2, A.view(), B.view(), n1, n2);
        }
        if (r != r2) disagree("split(min_fields) returning / into");
        out = hexv(r);
        return true;
    }
    if ((op == "joinc" || op == "joins") && t.size() == 3) {
        if (!parse_vec(t[2], v)) return false;
        if (op == "joinc") {
            if (!parse_char(t[1], c1)) return false;
            out = hex(tlx::join(c1, v));
        } else {
            if (!parse_bytes(t[1], a)) return false;
            Exact A(a);
            out = hex(tlx::join(A.view(), v));
            if (!has_nul(a) && out != hex(tlx::join(a.c_str(), v))) disagree("join(string_view) / join(const char*)");
        }
        return true;
    }
    if (op == "sjrt" && t.size() == 3) {
        // split(sep, join(sep, v)); for a one-byte separator also through the char overloads: "a|b"
        if (!parse_bytes(t[1], a) || !parse_vec(t[2], v)) return false;
        Exact A(a);
        std::string j = tlx::join(A.view(), v);
        Exact J(j);
        out = hexv(tlx::split(A.view(), J.view()));
        if (a.size() == 1) {
            std::string j2 = tlx::join(a[0], v);
            Exact J2(j2);
            out += "|" + hexv(tlx::split(a[0], J2.view()));
        }
        return true;
    }
    if (op == "joinq" && t.size() == 5) {
        if (!parse_char(t[1], c1) || !parse_char(t[2], c2) || !parse_char(t[3], c3) || !parse_vec(t[4], v)) return false;
        std::string r = tlx::join_quoted(v, c1, c2, c3);
        if (c1 == ' ' && c2 == '"' && c3 == '\\' && r != tlx::join_quoted(v)) disagree("join_quoted default arguments");
        out = hex(r);
        return true;
    }
    if (op == "splitq" && t.size() == 5) {
        if (!parse_bytes(t[1], a) || !parse_char(t[2], c1) || !parse_char(t[3], c2) || !parse_char(t[4], c3)) return false;
        Exact A(a);
        try { out = hexv(tlx::split_quoted(A.view(), c1, c2, c3)); }
        catch (const std::runtime_error&) { out = "X"; }
        if (c1 == ' ' && c2 == '"' && c3 == '\\') {
            std::string o2;
            try { o2 = hexv(tlx::split_quoted(A.view())); } catch (const std::runtime_error&) { o2 = "X"; }
            if (o2 != out) disagree("split_quoted default arguments");
        }
        return true;
    }
    if (op == "qrt" && t.size() == 5) {
        if (!parse_char(t[1], c1) || !parse_char(t[2], c2) || !parse_char(t[3], c3) || !parse_vec(t[4], v)) return false;
        std::string j = tlx::join_quoted(v, c1, c2, c3);
        Exact J(j);
        try { out = hexv(tlx::split_quoted(J.view(), c1, c2, c3)); }
        catch (const std::runtime_error&) { out = "X"; }
        return true;
    }
    if ((op == "repf" || op == "repa") && t.size() == 4) {
        if (!parse_bytes(t[1], a) || !parse_bytes(t[2], b) || !parse_bytes(t[3], c)) return false;
        if (b.empty()) return false;              // the property excludes the empty needle
        Exact A(a), B(b), C(c);
        std::string r, inplace = a;
        if (op == "repf") { r = tlx::replace_first(A.view(), B.view(), C.view()); tlx::replace_first(&inplace, B.view(), C.view()); }
        else { r = tlx::replace_all(A.view(), B.view(), C.view()); tlx::replace_all(&inplace, B.view(), C.view()); }
        if (r != inplace) disagree("replace copy / in-place");
        out = hex(r);
        return true;
    }
    if ((op == "repfc" || op == "repac") && t.size() == 4) {
        if (!parse_bytes(t[1], a) || !parse_char(t[2], c1) || !parse_char(t[3], c2)) return false;
        Exact A(a);
        std::string r, inplace = a;
        if (op == "repfc") { r = tlx::replace_first(A.view(), c1, c2); tlx::replace_first(&inplace, c1, c2); }
        else { r = tlx::replace_all(A.view(), c1, c2); tlx::replace_all(&inplace, c1, c2); }
        if (r != inplace) disagree("replace(char) copy / in-place");
        out = hex(r);
        return true;
    }
    if ((op == "trim" || op == "triml" || op == "trimr") && t.size() == 3) {
        // answer: std::string* shape, string_view* shape, string_view-by-value shape
        if (!parse_bytes(t[1], a) || !parse_bytes(t[2], b)) return false;
        Exact A(a), B(b);
        std::string s1 = a;
        tlx::string_view v2 = A.view(), v3;
        if (op == "trim") { tlx::trim(&s1, B.view()); tlx::trim(&v2, B.view()); v3 = tlx::trim(A.view(), B.view()); }
        else if (op == "triml") { tlx::trim_left(&s1, B.view()); tlx::trim_left(&v2, B.view()); v3 = tlx::trim_left(A.view(), B.view()); }
        else { tlx::trim_right(&s1, B.view()); tlx::trim_right(&v2, B.view()); v3 = tlx::trim_right(A.view(), B.view()); }
        out = hex(s1) + "," + hex(v2.to_string()) + "," + hex(v3.to_string());
        if (b.size() == 1) {
            std::string s4 = a; tlx::string_view v5 = A.view(), v6;
            char d = b[0];
            if (op == "trim") { tlx::trim(&s4, d); tlx::trim(&v5, d); v6 = tlx::trim(A.view(), d); }
            else if (op == "triml") { tlx::trim_left(&s4, d); tlx::trim_left(&v5, d); v6 = tlx::trim_left(A.view(), d); }
            else { tlx::trim_right(&s4, d); tlx::trim_right(&v5, d); v6 = tlx::trim_right(A.view(), d); }
            if (hex(s4) + "," + hex(v5.to_string()) + "," + hex(v6.to_string()) != out) disagree("trim char / string_view drop");
        }
        if (b == " \r\n\t") {
            std::string s4 = a; tlx::string_view v5 = A.view(), v6;
            if (op == "trim") { tlx::trim(&s4); tlx::trim(&v5); v6 = tlx::trim(A.view()); }
            else if (op == "triml") { tlx::trim_left(&s4); tlx::trim_left(&v5); v6 = tlx::trim_left(A.view()); }
            else { tlx::trim_right(&s4); tlx::trim_right(&v5); v6 = tlx::trim_right(A.view()); }
            if (hex(s4) + "," + hex(v5.to_string()) + "," + hex(v6.to_string()) != out) disagree("trim default drop set");
        }
        return true;
    }
    if (op == "sw" && t.size() == 3) {
        if (!parse_bytes(t[1], a) || !parse_bytes(t[2], b)) return false;
        Exact A(a), B(b);
        out.clear();
        out += bit(tlx::starts_with(A.view(), B.view()));
        out += bit(tlx::ends_with(A.view(), B.view()));
        out += bit(tlx::starts_with_icase(A.view(), B.view()));
        out += bit(tlx::ends_with_icase(A.view(), B.view()));
        if (!has_nul(a) && !has_nul(b)) {
            // the const char* overloads of ends_with(_icase) have their own loops
            bool e = tlx::ends_with(A.view(), B.view()), ei = tlx::ends_with_icase(A.view(), B.view());
            if (tlx::ends_with(a.c_str(), b.c_str()) != e || tlx::ends_with(a.c_str(), B.view()) != e ||
                tlx::ends_with(A.view(), b.c_str()) != e) disagree("ends_with const char* overloads");
            if (tlx::ends_with_icase(a.c_str(), b.c_str()) != ei || tlx::ends_with_icase(a.c_str(), B.view()) != ei ||
                tlx::ends_with_icase(A.view(), b.c_str()) != ei) disagree("ends_with_icase const char* overloads");
        }
        return true;
    }
    if (op == "contains" && t.size() == 3) {
        if (!parse_bytes(t[1], a) || !parse_bytes(t[2], b)) return false;
        Exact A(a), B(b);
        bool r = tlx::contains(A.view(), B.view());
        if (b.size() == 1 && tlx::contains(A.view(), b[0]) != r) disagree("contains(char) / contains(string_view)");
        out = std::string(1, bit(r));
        return true;
    }
    if ((op == "lower" || op == "upper") && t.size() == 2) {
        if (!parse_bytes(t[1], a)) return false;
        Exact A(a);
        std::string r, inplace = a;
        if (op == "lower") { r = tlx::to_lower(A.view()); tlx::to_lower(&inplace); }
        else { r = tlx::to_upper(A.view()); tlx::to_upper(&inplace); }
        if (r != inplace) disagree("to_lower/to_upper copy / in-place");
        out = hex(r);
        return true;
    }
    if (op == "icmp" && t.size() == 3) {
        // each of compare/equal/less_icase in its four overloads (cstr,cstr) (cstr,view) (view,cstr) (view,view);
        // a const char* argument denotes the bytes before the first NUL
        if (!parse_bytes(t[1], a) || !parse_bytes(t[2], b)) return false;
        Exact A(a), B(b);
        const char* az = a.c_str(); const char* bz = b.c_str();
        out = "c=";
        out += sgn(tlx::compare_icase(az, bz)); out += sgn(tlx::compare_icase(az, B.view()));
        out += sgn(tlx::compare_icase(A.view(), bz)); out += sgn(tlx::compare_icase(A.view(), B.view()));
        out += " e=";
        out += bit(tlx::equal_icase(az, bz)); out += bit(tlx::equal_icase(az, B.view()));
        out += bit(tlx::equal_icase(A.view(), bz)); out += bit(tlx::equal_icase(A.view(), B.view()));
        out += " l=";
        out += bit(tlx::less_icase(az, bz)); out += bit(tlx::less_icase(az, B.view()));
        out += bit(tlx::less_icase(A.view(), bz)); out += bit(tlx::less_icase(A.view(), B.view()));
        return true;
    }
    if (op == "erase" && t.size() == 3) {
        // answer: copy version, in-place version
        if (!parse_bytes(t[1], a) || !parse_bytes(t[2], b)) return false;
        Exact A(a), B(b);
        std::string r = tlx::erase_all(A.view(), B.view()), inplace = a;
        tlx::erase_all(&inplace, B.view());
        out = hex(r) + "," + hex(inplace);
        if (b.size() == 1) {
            std::string r2 = tlx::erase_all(A.view(), b[0]), in2 = a;
            tlx::erase_all(&in2, b[0]);
            if (hex(r2) + "," + hex(in2) != out) disagree("erase_all char / string_view drop");
        }
        return true;
    }
    if (op == "pad" && t.size() == 4) {
        if (!parse_bytes(t[1], a) || !parse_num(t[2], n1) || !parse_char(t[3], c1) || n1 > 4096) return false;
        Exact A(a);
        out = hex(tlx::pad(A.view(), n1, c1));
        return true;
    }
    if (op == "lev" && t.size() == 3) {
        if (!parse_bytes(t[1], a) || !parse_bytes(t[2], b)) return false;
        Exact A(a), B(b);
        size_t d = tlx::levenshtein(A.view(), B.view()), di = tlx::levenshtein_icase(A.view(), B.view());
        if (!has_nul(a) && !has_nul(b) &&
            (tlx::levenshtein(a.c_str(), b.c_str()) != d || tlx::levenshtein_icase(a.c_str(), b.c_str()) != di))
            disagree("levenshtein const char* / string_view");
        out = std::to_string(d) + " " + std::to_string(di);
        return true;
    }
    return false;
}


// ---------------------------------------------------------------------------------- aliased arguments
//   al <op> <buffer> <off>:<len> <off>:<len> [<off>:<len>] [limit]
// All view arguments point into ONE exact-size copy of <buffer> (needle inside / overlapping /
// equal to the subject).  Only the shapes that do not modify the bytes they read are meaningful here
// (copying versions, string_view* trimming, comparisons) plus the in-place replace_first, whose single
// std::string::replace call is specified to cope with aliasing.  The in-place replace_all / trim /
// erase_all keep re-reading their needle / drop argument while they modify the string; calling them
// with views into that string is outside their contract (see notes/C19.md) and is not executed.
static bool parse_ol(const std::string& tok, size_t blen, size_t& off, size_t& len) {
    size_t c = tok.find(':');
    if (c == std::string::npos || c == 0 || c + 1 >= tok.size() || tok.size() > 12) return false;
    for (size_t i = 0; i < tok.size(); ++i) if (i != c && (tok[i] < '0' || tok[i] > '9')) return false;
    off = std::stoul(tok.substr(0, c)); len = std::stoul(tok.substr(c + 1));
    return off <= blen && len <= blen - off;
}

static bool execute_alias(const std::vector<std::string>& t, std::string& out) {
    if (t.size() < 5) return false;
    const std::string& op = t[1];
    std::string buf;
    if (!parse_bytes(t[2], buf)) return false;
    Exact B(buf);
    size_t o[3] = {0, 0, 0}, l[3] = {0, 0, 0};
    size_t nviews = (op == "repf" || op == "repa") ? 3 : 2;
    if (t.size() < 3 + nviews) return false;
    for (size_t k = 0; k < nviews; ++k) if (!parse_ol(t[3 + k], buf.size(), o[k], l[k])) return false;
    tlx::string_view v0(B.p + o[0], l[0]), v1(B.p + o[1], l[1]), v2(B.p + o[2], l[2]);
    if (op == "sw" && t.size() == 5) {
        out.clear();
        out += bit(tlx::starts_with(v0, v1)); out += bit(tlx::ends_with(v0, v1));
        out += bit(tlx::starts_with_icase(v0, v1)); out += bit(tlx::ends_with_icase(v0, v1));
        return true;
    }
    if (op == "contains" && t.size() == 5) { out = std::string(1, bit(tlx::contains(v0, v1))); return true; }
    if (op == "icmp" && t.size() == 5) {
        out = "c="; out += sgn(tlx::compare_icase(v0, v1));
        out += " e="; out += bit(tlx::equal_icase(v0, v1));
        out += " l="; out += bit(tlx::less_icase(v0, v1));
        return true;
    }
    if ((op == "repf" || op == "repa") && t.size() == 6) {
        if (l[1] == 0) return false;
        if (op == "repf") {
            out = hex(tlx::replace_first(v0, v1, v2));
            // in place on a std::string, needle and replacement being views into that very string
            std::string s(buf);
            tlx::replace_first(&s, tlx::string_view(s.data() + o[1], l[1]), tlx::string_view(s.data() + o[2], l[2]));
            std::string whole = hex(tlx::replace_first(tlx::string_view(B.p, B.n), v1, v2));
            if (hex(s) != whole) disagree("replace_first in place with aliased needle/replacement vs copy");
        } else out = hex(tlx::replace_all(v0, v1, v2));
        return true;
    }
    if (op == "erase" && t.size() == 5) { out = hex(tlx::erase_all(v0, v1)); return true; }
    if ((op == "trim" || op == "triml" || op == "trimr") && t.size() == 5) {
        tlx::string_view p = v0, q;
        if (op == "trim") { tlx::trim(&p, v1); q = tlx::trim(v0, v1); }
        else if (op == "triml") { tlx::trim_left(&p, v1); q = tlx::trim_left(v0, v1); }
        else { tlx::trim_right(&p, v1); q = tlx::trim_right(v0, v1); }
        out = hex(p.to_string()) + "," + hex(q.to_string());
        return true;
    }
    if (op == "splits" && t.size() == 6) {
        size_t lim;
        if (!parse_num(t[5], lim)) return false;
        Vec r = tlx::split(v0, v1, lim), r2;
        r2.push_back("stale"); tlx::split(&r2, v0, v1, lim);
        if (r != r2) disagree("split returning / split into (aliased)");
        out = hexv(r);
        return true;
    }
    if (op == "lev" && t.size() == 5) {
        out = std::to_string(tlx::levenshtein(v0, v1)) + " " + std::to_string(tlx::levenshtein_icase(v0, v1));
        return true;
    }
    return false;
}

// A loop that no longer terminates must not hang the check (and its shrinker).  Every
// operation gets 0.5 s of *CPU time* (ITIMER_VIRTUAL: a descheduled process does not count);
// when it expires the handler jumps back into the main loop, which reports the line, answers
// `HANG` and from then on answers every further line of that op with `HANG` at once.  A
// wall-clock alarm is the last resort should the interrupted allocator be left locked.
#include <csetjmp>
#include <sys/time.h>
static sigjmp_buf g_jmp;
static volatile sig_atomic_t g_armed = 0;
static void on_vtalarm(int) {
    if (g_armed) { g_armed = 0; siglongjmp(g_jmp, 1); }
}
static void on_alarm(int) {
    static const char m[] = "#VIOL harness watchdog: no progress for 60 s\n";
    ssize_t r = write(1, m, sizeof(m) - 1);
    (void)r;
    _exit(3);
}
static void arm(long usec) {
    struct itimerval tv;
    tv.it_interval.tv_sec = 0; tv.it_interval.tv_usec = 0;
    tv.it_value.tv_sec = usec / 1000000; tv.it_value.tv_usec = usec % 1000000;
    setitimer(ITIMER_VIRTUAL, &tv, nullptr);
}

int main(int argc, char** argv) {
    std::ios::sync_with_stdio(false);
    (void)argc; (void)argv;
    std::signal(SIGALRM, on_alarm);
    std::signal(SIGVTALRM, on_vtalarm);
    std::set<std::string> poisoned;
    bool any_hang = false;
    std::string line;
    while (std::getline(std::cin, line)) {
        alarm(60);
        std::vector<std::string> t = vh::tokens(line);
        if (t.empty()) { vh::answer(""); continue; }
        if (t[0] == "case") { vh::answer("case"); continue; }
        if (t[0][0] == '#') { vh::answer(line); continue; }
        std::vector<std::string> args, expect;
        bool have_expect = false;
        for (const std::string& w : t) {
            if (!have_expect && w == "=") { have_expect = true; continue; }
            (have_expect ? expect : args).push_back(w);
        }
        std::string out;
        g_op = args.empty() ? "" : (args[0] == "al" && args.size() > 1 ? "al-" + args[1] : args[0]);
        bool ok = false;
        if (poisoned.count(g_op)) {
            vh::viol(g_op + " hang: skipped, an earlier line of this op did not terminate; line: " + line);
            vh::answer("HANG");
            continue;
        }
        if (sigsetjmp(g_jmp, 1) != 0) {
            arm(0);
            poisoned.insert(g_op);
            any_hang = true;
            vh::viol(g_op + " hang: no answer within 0.5 s of CPU time on: " + line);
            vh::answer("HANG");
            continue;
        }
        g_armed = 1;
        arm(500000);
        try { ok = !args.empty() && (args[0] == "al" ? execute_alias(args, out) : execute(args, out)); g_armed = 0; arm(0); }
        catch (const std::exception& e) {
            // no operation of this harness may let an exception other than the documented
            // std::runtime_error (answered `X`) escape
            g_armed = 0; arm(0);
            vh::viol(g_op + " threw an unexpected exception (" + e.what() + ") on: " + line);
            ok = true; out = "EXC";
        }
        if (!ok) { vh::answer("bad-op"); continue; }
        if (have_expect) {
            std::vector<std::string> got = vh::tokens(out);
            bool same = got.size() == expect.size();
            for (size_t i = 0; same && i < got.size(); ++i)
                if (expect[i] != "*" && expect[i] != got[i]) same = false;
            if (!same) {
                std::string e;
                for (const std::string& w : expect) e += (e.empty() ? "" : " ") + w;
                std::string l;
                for (const std::string& w : args) l += (l.empty() ? "" : " ") + w;
                vh::viol(g_op + " answers `" + out + "` but the direct definition gives `" + e + "` on: " + l);
            }
        }
        vh::answer(out);
    }
    alarm(0);
    if (any_hang) { std::cout << std::flush; _exit(0); }   // the abandoned operation leaked on purpose
    return 0;
}
