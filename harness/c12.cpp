// C12 harness: tlx::CountingPtr / tlx::ReferenceCounter behind the line protocol.
//
// Sequential part.  Handle variables 0..3 are CountingPtr<Derived>, 4..5 are CountingPtr<Base>
// (Derived : Base : tlx::ReferenceCounter, virtual destructor).  A handle variable either does
// not exist (`-`), is empty (`null`) or points to object o<id>.  Objects are numbered in creation
// order and log their destruction.
//   make h | null h | raw h s        construct h: from `new Derived`, empty, from s.get()
//   copy h s | move h s              copy-/move-construct h from s (4..5 from 0..3 = converting)
//   assign h s | massign h s         copy-/move-assign (h == s and aliases allowed; converting too)
//   swap h s | fswap h s             member / free swap (same handle type)
//   reset h | unify h | dtor h
//   objassign h s                    *h = *s  (ReferenceCounter::operator= must leave both counts alone)
//   use h | unique h | valid h | empty h | eq h s | get h     queries (use: h must be non-empty)
//   mode default|counting|nodelete   (first op of a case) the Deleter of all six handle types of the case:
//                                    CountingPtrDefaultDeleter, a logging custom deleter, CountingPtrNoOperationDeleter
//                                    (= CountingPtrNoDelete) over arena objects owned by the harness
// answer: "<ret> ; h=[..] ; o=[..] ; del=[..]"  (per handle: - / null / o<id>; per object: its
// reference_count(), or X<k> once its deleter has run k times; del = the objects whose deleter was
// invoked by THIS operation).
// Direct oracle after every operation: refcount of every live object == number of handles that
// point to it and >= 1; no handle points to a destroyed object; nothing destroyed twice; at the
// end of a case (all handles destroyed) every object has been destroyed exactly once.
//
// Concurrent part, deterministic:  conc <progs> <schedule>
//   progs = comma separated thread programs over the letters listed at run_program(); every thread
//   owns three local handles to ONE shared object: L0 (CountingPtr<Base>, initially a converting
//   copy of the creating handle), L1 (CountingPtr<Base>, empty) and D (CountingPtr<Derived>, a copy);
//   the creating handle is dropped before the threads start, so the last thread to let go destroys
//   the object.  unify() on a local handle replaces it by a private copy of the object when the
//   object is shared; private copies are thread-local and never scheduled.
//   std::atomic inside namespace tlx is redirected to a shim; the scheduling points are the atomic
//   operations on the SHARED object's counter, the start of its destructor and the start of a copy
//   construction from it (`new Type(*ptr_)` in unify(), i.e. the window between the unique() test
//   and the release).  Exactly one thread runs between two scheduling points, chosen by the explicit
//   schedule (k-th decision = schedule[k] mod number of unfinished threads; round-robin afterwards).
//   answer: the event sequence  t<i>:inc=<new> t<i>:dec=<new> t<i>:load=<v> t<i>:copy t<i>:del ;
//   destroyed count.  Leak oracle: every object created during the run (the shared one and all
//   private copies) must have been destroyed exactly once when all threads have finished.
// Concurrent part, real threads:  stress <threads> <iterations> <seed>   (answer: final state only;
//   the Lean driver answers the same line from the LTS' terminal-state theorem).
#include <atomic>
#include <cassert>
#include <condition_variable>
#include <cstring>
#include <mutex>
#include <thread>

#include "common.hpp"

// ---------------------------------------------------------------- atomic shim (namespace tlx only)
namespace c12 {
enum Kind { K_INC, K_DEC, K_LOAD, K_DEL, K_COPY, K_STORE, K_CAS };
void sched_point();                       // blocks until the scheduler lets this thread perform its next step
void log_event(Kind k, size_t value);     // called right after the step was performed
void barrier_point();
extern thread_local int tl_thread;        // >= 0 inside a scheduled worker
// the counter of the shared object of the current `conc` run (only its operations are scheduled)
extern const void* g_shared_rc;
extern bool g_shared_dying;
inline bool scheduled(const void* counter) { return tl_thread >= 0 && counter == g_shared_rc; }
// ~ReferenceCounter's assert load is the last access to the dying object: forget its address
// (a private copy allocated later may reuse it)
inline void after_load(const void* counter) { if (counter == g_shared_rc && g_shared_dying) g_shared_rc = nullptr; }
}  // namespace c12

namespace tlx {
namespace std {
using namespace ::std;
template <typename T>
class atomic {
    ::std::atomic<T> v_;

public:
    atomic() noexcept : v_() {}
    atomic(T v) noexcept : v_(v) {}   // NOLINT
    atomic(const atomic&) = delete;
    atomic& operator=(const atomic&) = delete;
    // every operation of the std::atomic interface on the scheduled counter is a scheduling point + event
    T operator++() noexcept {
        if (!c12::scheduled(this)) return ++v_;
        c12::sched_point(); T r = ++v_; c12::log_event(c12::K_INC, r); return r;
    }
    T operator--() noexcept {
        if (!c12::scheduled(this)) return --v_;
        c12::sched_point(); T r = --v_; c12::log_event(c12::K_DEC, r); return r;
    }
    T operator++(int) noexcept { return fetch_add(1); }
    T operator--(int) noexcept { return fetch_sub(1); }
    T operator+=(T d) noexcept { return fetch_add(d) + d; }
    T operator-=(T d) noexcept { return fetch_sub(d) - d; }
    T fetch_add(T d, ::std::memory_order = ::std::memory_order_seq_cst) noexcept {
        if (!c12::scheduled(this)) return v_.fetch_add(d);
        c12::sched_point(); T r = v_.fetch_add(d); c12::log_event(c12::K_INC, r + d); return r;
    }
    T fetch_sub(T d, ::std::memory_order = ::std::memory_order_seq_cst) noexcept {
        if (!c12::scheduled(this)) return v_.fetch_sub(d);
        c12::sched_point(); T r = v_.fetch_sub(d); c12::log_event(c12::K_DEC, r - d); return r;
    }
    operator T() const noexcept { return load(); }
    T load(::std::memory_order = ::std::memory_order_seq_cst) const noexcept {
        if (!c12::scheduled(this)) return v_.load();
        c12::sched_point(); T r = v_.load(); c12::log_event(c12::K_LOAD, r); c12::after_load(this); return r;
    }
    void store(T v, ::std::memory_order = ::std::memory_order_seq_cst) noexcept {
        if (!c12::scheduled(this)) { v_.store(v); return; }
        c12::sched_point(); v_.store(v); c12::log_event(c12::K_STORE, v);
    }
    T operator=(T v) noexcept { store(v); return v; }
    T exchange(T v, ::std::memory_order = ::std::memory_order_seq_cst) noexcept {
        if (!c12::scheduled(this)) return v_.exchange(v);
        c12::sched_point(); T r = v_.exchange(v); c12::log_event(c12::K_STORE, v); return r;
    }
    bool compare_exchange_strong(T& e, T d, ::std::memory_order = ::std::memory_order_seq_cst,
                                 ::std::memory_order = ::std::memory_order_seq_cst) noexcept {
        if (!c12::scheduled(this)) return v_.compare_exchange_strong(e, d);
        c12::sched_point(); bool ok = v_.compare_exchange_strong(e, d); c12::log_event(c12::K_CAS, ok ? d : e); return ok;
    }
    bool compare_exchange_weak(T& e, T d, ::std::memory_order a = ::std::memory_order_seq_cst,
                               ::std::memory_order b = ::std::memory_order_seq_cst) noexcept {
        return compare_exchange_strong(e, d, a, b);
    }
};
}  // namespace std
}  // namespace tlx

#ifdef NDEBUG
#error "harness/c12.cpp models the assert loads of ReferenceCounter: build without NDEBUG"
#endif
#define private public
#include <tlx/counting_ptr.hpp>
#undef private

// ---------------------------------------------------------------- objects with a destruction / deleter log
// Three deleter modes (selected per case by `mode default|counting|nodelete`, default after `case`):
//   default   tlx::CountingPtrDefaultDeleter, objects from `new`; "deleter ran" is observed as the destructor run
//   counting  a custom deleter that logs its invocation and then deletes
//   nodelete  tlx::CountingPtrNoOperationDeleter (CountingPtrNoDelete) over objects that live in an arena owned by
//             the harness: the deleter must be invoked (nothing observable) and `delete` must NEVER be applied
//             (ASan: free of an address inside the arena block); "released" is observed as count == 0
struct ObjRec {
    const void* addr;
    int destroyed;        // destructor runs caused by tlx (not by the harness' own cleanup)
    int deleter_calls;    // logged invocations of the counting deleter
    int released;         // how often the managing deleter is known to have been invoked (see modes)
    bool harness_owned;   // arena object, or heap clone that the harness has to free itself (nodelete mode)
};
static std::vector<ObjRec> g_objs;                 // by id
static std::map<const void*, int> g_live;          // address of a not yet released object -> id
static std::vector<std::string> g_errors;
static std::mutex g_obj_mutex;                     // stress mode creates/destroys from several threads
static bool g_harness_cleanup = false;             // the harness itself is destroying harness-owned objects

struct Base : public tlx::ReferenceCounter {
    int id;
    long payload;
    Base() : payload(42) { born(); }
    // copying FROM the shared object of a scheduled run is a scheduling point (unify(): `new Type(*ptr_)`)
    Base(const Base& o) : tlx::ReferenceCounter(yield_copy(o)), payload(o.payload) { born(); }
    static const Base& yield_copy(const Base& o) {
        if (c12::scheduled(&o.reference_count_)) { c12::sched_point(); c12::log_event(c12::K_COPY, 0); }
        return o;
    }
    virtual ~Base() {
        if (c12::scheduled(&reference_count_)) { c12::sched_point(); c12::log_event(c12::K_DEL, 0); c12::g_shared_dying = true; }
        std::lock_guard<std::mutex> lk(g_obj_mutex);
        if (!g_harness_cleanup) {
            if (g_objs[id].destroyed++) g_errors.push_back("object o" + std::to_string(id) + " destroyed again");
            g_live.erase(static_cast<const void*>(this));
        }
        payload = -1;
    }
    void born() {
        std::lock_guard<std::mutex> lk(g_obj_mutex);
        id = static_cast<int>(g_objs.size());
        g_objs.push_back(ObjRec{ static_cast<const void*>(this), 0, 0, 0, false });
        g_live[static_cast<const void*>(this)] = id;
    }
};
struct Derived : public Base {
    long extra[4];
    Derived() : Base() { extra[0] = 7; }
    Derived(const Derived& o) : Base(o) { extra[0] = o.extra[0]; }
};

//! custom deleter: logs its invocation, then deletes
struct CountingDeleter {
    template <typename Type>
    void operator()(Type* ptr) const noexcept {
        { std::lock_guard<std::mutex> lk(g_obj_mutex); ++g_objs[static_cast<const Base*>(ptr)->id].deleter_calls; }
        delete ptr;
    }
};

// arena for the nodelete mode: ONE malloc block; `delete` of an object inside it is an invalid free
static const size_t ARENA_SLOTS = 160;
static unsigned char* g_arena = nullptr;
static size_t g_arena_used = 0;

enum Mode { M_DEFAULT, M_COUNTING, M_NODELETE };
static Mode g_mode = M_DEFAULT;
static bool g_case_has_ops = false;

template <typename Del> struct ModeOf;
template <> struct ModeOf<tlx::CountingPtrDefaultDeleter> { static const Mode value = M_DEFAULT; };
template <> struct ModeOf<CountingDeleter> { static const Mode value = M_COUNTING; };
template <> struct ModeOf<tlx::CountingPtrNoOperationDeleter> { static const Mode value = M_NODELETE; };

template <typename Del>
struct Seq {
    typedef tlx::CountingPtr<Derived, Del> DPtr;
    typedef tlx::CountingPtr<Base, Del> BPtr;
    static DPtr* hd[4];
    static BPtr* hb[2];
    alignas(DPtr) static unsigned char hd_store[4][sizeof(DPtr)];
    alignas(BPtr) static unsigned char hb_store[2][sizeof(BPtr)];

    static bool is_b(int h) { return h >= 4; }
    static bool exists(int h) { return h >= 0 && h < 6 && (is_b(h) ? hb[h - 4] != nullptr : hd[h] != nullptr); }
    static const void* raw_of(int h) {
        if (is_b(h)) return static_cast<const void*>(hb[h - 4]->get());
        return static_cast<const void*>(static_cast<Base*>(hd[h]->get()));
    }
    static Derived* fresh() {
        if (ModeOf<Del>::value != M_NODELETE) return new Derived();
        if (!g_arena) { g_arena = static_cast<unsigned char*>(malloc(ARENA_SLOTS * sizeof(Derived))); g_arena_used = 0; }
        Derived* d = new (g_arena + sizeof(Derived) * g_arena_used++) Derived();
        g_objs[static_cast<size_t>(d->id)].harness_owned = true;
        return d;
    }
    // bring `released` up to date and return the objects whose deleter ran during the last operation
    static std::vector<int> settle_released(const std::string& op) {
        std::vector<int> now;
        for (size_t i = 0; i < g_objs.size(); ++i) {
            ObjRec& o = g_objs[i];
            int rel = o.released;
            if (ModeOf<Del>::value == M_DEFAULT) rel = o.destroyed;
            else if (ModeOf<Del>::value == M_COUNTING) {
                rel = o.deleter_calls;
                if (o.destroyed != o.deleter_calls)
                    vh::viol("countingptr: object o" + std::to_string(i) + " was destroyed " + std::to_string(o.destroyed) + " times but its deleter was invoked " + std::to_string(o.deleter_calls) + " times after " + op);
            }
            else {
                if (o.destroyed) vh::viol("countingptr: object o" + std::to_string(i) + " managed by CountingPtrNoDelete was deleted after " + op);
                else if (!o.released && static_cast<const Base*>(o.addr)->reference_count() == 0) {
                    rel = 1;                                      // count reached zero: the no-op deleter's turn
                    if (!o.harness_owned) o.harness_owned = true;  // a clone made by unify(): ours to free
                    g_live.erase(o.addr);
                }
            }
            if (rel > o.released) now.push_back(static_cast<int>(i));
            o.released = rel;
        }
        return now;
    }
    static std::string dump(const std::vector<int>& now) {
        std::ostringstream os;
        os << "h=[";
        for (int h = 0; h < 6; ++h) {
            if (h) os << ',';
            if (!exists(h)) { os << '-'; continue; }
            const void* p = raw_of(h);
            if (!p) { os << "null"; continue; }
            auto it = g_live.find(p);
            if (it == g_live.end()) os << "dangling"; else os << 'o' << it->second;
        }
        os << "] ; o=[";
        for (size_t i = 0; i < g_objs.size(); ++i) {
            if (i) os << ',';
            if (g_objs[i].released) os << 'X' << g_objs[i].released;
            else if (g_objs[i].destroyed) os << "DELETED";
            else os << static_cast<const Base*>(g_objs[i].addr)->reference_count();
        }
        os << "] ; del=[";
        for (size_t i = 0; i < now.size(); ++i) os << (i ? "," : "") << 'o' << now[i];
        os << "]";
        return os.str();
    }
    static void oracle(const std::string& op) {
        for (auto& e : g_errors) vh::viol("countingptr: " + e + " after " + op);
        g_errors.clear();
        std::vector<size_t> nh(g_objs.size(), 0);
        for (int h = 0; h < 6; ++h) {
            if (!exists(h)) continue;
            const void* p = raw_of(h);
            if (!p) continue;
            auto it = g_live.find(p);
            if (it == g_live.end()) { vh::viol("countingptr: handle " + std::to_string(h) + " points to an object whose deleter has run, after " + op); continue; }
            ++nh[static_cast<size_t>(it->second)];
        }
        for (size_t i = 0; i < g_objs.size(); ++i) {
            const ObjRec& o = g_objs[i];
            if (o.released) {
                if (o.released != 1) vh::viol("countingptr: the deleter of object o" + std::to_string(i) + " ran " + std::to_string(o.released) + " times after " + op);
                continue;
            }
            if (o.destroyed) continue;   // destroyed without its deleter: already reported
            size_t rc = static_cast<const Base*>(o.addr)->reference_count();
            if (rc != nh[i]) vh::viol("countingptr: object o" + std::to_string(i) + " has reference count " + std::to_string(rc) + " but " + std::to_string(nh[i]) + " handles point to it after " + op);
            if (nh[i] == 0) vh::viol("countingptr: object o" + std::to_string(i) + " has no handle left but its deleter has not run after " + op);
        }
    }
    static void run(const std::vector<std::string>& t, const std::string& line) {
        const std::string& op = t[0];
        int h = -1, s = -1;
        try {
            if (t.size() >= 2) h = std::stoi(t[1]);
            if (t.size() >= 3) s = std::stoi(t[2]);
        } catch (...) { vh::answer("bad-op"); return; }
        bool two = (op == "objassign" || op == "raw" || op == "copy" || op == "move" || op == "assign" || op == "massign" || op == "swap" || op == "fswap" || op == "eq");
        bool ctor = (op == "make" || op == "null" || op == "raw" || op == "copy" || op == "move");
        bool ok = h >= 0 && h < 6 && t.size() == (two ? 3u : 2u);
        if (ok && two) ok = exists(s);
        if (ok && ctor) ok = !exists(h);
        if (ok && !ctor) ok = exists(h);
        // a Derived handle cannot be made from a Base handle; swap/eq need the same handle type
        if (ok && two && op != "objassign" && !is_b(h) && is_b(s)) ok = false;
        if (ok && (op == "swap" || op == "fswap" || op == "eq" || op == "raw") && is_b(h) != is_b(s)) ok = false;
        if (ok && op == "use") ok = raw_of(h) != nullptr;
        if (ok && op == "objassign") ok = raw_of(h) != nullptr && raw_of(s) != nullptr;
        if (ok && op == "make" && ModeOf<Del>::value == M_NODELETE) ok = g_arena_used < ARENA_SLOTS;
        if (!ok) { vh::answer("bad-op"); return; }
        std::string ret = "ok";
#define H_D (*hd[h])
#define H_B (*hb[h - 4])
#define S_D (*hd[s])
#define S_B (*hb[s - 4])
        if (op == "make") { if (is_b(h)) hb[h - 4] = new (hb_store[h - 4]) BPtr(fresh()); else hd[h] = new (hd_store[h]) DPtr(fresh()); }
        else if (op == "null") { if (is_b(h)) hb[h - 4] = new (hb_store[h - 4]) BPtr(); else hd[h] = new (hd_store[h]) DPtr(nullptr); }
        else if (op == "raw") { if (is_b(h)) hb[h - 4] = new (hb_store[h - 4]) BPtr(S_B.get()); else hd[h] = new (hd_store[h]) DPtr(S_D.get()); }
        else if (op == "copy") {
            if (is_b(h)) { if (is_b(s)) hb[h - 4] = new (hb_store[h - 4]) BPtr(S_B); else hb[h - 4] = new (hb_store[h - 4]) BPtr(S_D); }
            else hd[h] = new (hd_store[h]) DPtr(S_D);
        }
        else if (op == "move") {
            if (is_b(h)) { if (is_b(s)) hb[h - 4] = new (hb_store[h - 4]) BPtr(std::move(S_B)); else hb[h - 4] = new (hb_store[h - 4]) BPtr(std::move(S_D)); }
            else hd[h] = new (hd_store[h]) DPtr(std::move(S_D));
        }
        else if (op == "assign") { if (is_b(h)) { if (is_b(s)) H_B = S_B; else H_B = S_D; } else H_D = S_D; }
        else if (op == "massign") { if (is_b(h)) { if (is_b(s)) H_B = std::move(S_B); else H_B = std::move(S_D); } else H_D = std::move(S_D); }
        else if (op == "swap") { if (is_b(h)) H_B.swap(S_B); else H_D.swap(S_D); }
        else if (op == "fswap") { if (is_b(h)) tlx::swap(H_B, S_B); else tlx::swap(H_D, S_D); }
        else if (op == "reset") { if (is_b(h)) H_B.reset(); else H_D.reset(); }
        else if (op == "unify") { if (is_b(h)) H_B.unify(); else H_D.unify(); }
        else if (op == "objassign") {
            // assign the managed objects (Base part when the handle types differ); ids stay with the objects
            Base& dst = is_b(h) ? *H_B : static_cast<Base&>(*H_D);
            const Base& src = is_b(s) ? *S_B : static_cast<const Base&>(*S_D);
            int keep = dst.id;
            dst = src;
            dst.id = keep;
        }
        else if (op == "dtor") { if (is_b(h)) { H_B.~BPtr(); hb[h - 4] = nullptr; } else { H_D.~DPtr(); hd[h] = nullptr; } }
        else if (op == "use") ret = std::to_string(is_b(h) ? H_B.use_count() : H_D.use_count());
        else if (op == "unique") ret = (is_b(h) ? H_B.unique() : H_D.unique()) ? "1" : "0";
        else if (op == "valid") ret = (is_b(h) ? (H_B.valid() && static_cast<bool>(H_B)) : (H_D.valid() && static_cast<bool>(H_D))) ? "1" : "0";
        else if (op == "empty") ret = (is_b(h) ? H_B.empty() : H_D.empty()) ? "1" : "0";
        else if (op == "eq") ret = (is_b(h) ? (H_B == S_B && !(H_B != S_B)) : (H_D == S_D && !(H_D != S_D))) ? "1" : "0";
        else if (op == "get") {
            const void* p = raw_of(h);
            auto it = g_live.find(p);
            ret = !p ? "null" : (it == g_live.end() ? "dangling" : "o" + std::to_string(it->second));
        }
        else { vh::answer("bad-op"); return; }
#undef H_D
#undef H_B
#undef S_D
#undef S_B
        std::vector<int> now = settle_released(line);
        vh::answer(ret + " ; " + dump(now));
        oracle(line);
    }
    static void finish() {
        for (int h = 0; h < 4; ++h) if (hd[h]) { hd[h]->~DPtr(); hd[h] = nullptr; }
        for (int h = 0; h < 2; ++h) if (hb[h]) { hb[h]->~BPtr(); hb[h] = nullptr; }
        settle_released("the end of the case");
    }
};
template <typename Del> typename Seq<Del>::DPtr* Seq<Del>::hd[4];
template <typename Del> typename Seq<Del>::BPtr* Seq<Del>::hb[2];
template <typename Del> alignas(typename Seq<Del>::DPtr) unsigned char Seq<Del>::hd_store[4][sizeof(typename Seq<Del>::DPtr)];
template <typename Del> alignas(typename Seq<Del>::BPtr) unsigned char Seq<Del>::hb_store[2][sizeof(typename Seq<Del>::BPtr)];

typedef Seq<tlx::CountingPtrDefaultDeleter> SeqDefault;
typedef Seq<CountingDeleter> SeqCounting;
typedef Seq<tlx::CountingPtrNoOperationDeleter> SeqNoDelete;
typedef tlx::CountingPtr<Derived> DPtr;
typedef tlx::CountingPtr<Base> BPtr;

static void do_seq(const std::vector<std::string>& t, const std::string& line) {
    if (t[0] == "mode") {
        // only as the first operation of a case
        Mode m = t.size() == 2 && t[1] == "default" ? M_DEFAULT : t.size() == 2 && t[1] == "counting" ? M_COUNTING
               : t.size() == 2 && t[1] == "nodelete" ? M_NODELETE : static_cast<Mode>(-1);
        if (m == static_cast<Mode>(-1) || g_case_has_ops) { vh::answer("bad-op"); return; }
        g_mode = m; g_case_has_ops = true;
        vh::answer("ok");
        return;
    }
    g_case_has_ops = true;
    if (g_mode == M_COUNTING) SeqCounting::run(t, line);
    else if (g_mode == M_NODELETE) SeqNoDelete::run(t, line);
    else SeqDefault::run(t, line);
}

static void end_case() {
    if (g_mode == M_COUNTING) SeqCounting::finish(); else if (g_mode == M_NODELETE) SeqNoDelete::finish(); else SeqDefault::finish();
    for (auto& e : g_errors) vh::viol("countingptr: " + e + " at the end of the case");
    g_errors.clear();
    for (size_t i = 0; i < g_objs.size(); ++i) {
        if (g_objs[i].released != 1)
            vh::viol("countingptr: the deleter of object o" + std::to_string(i) + " ran " + std::to_string(g_objs[i].released) + " times after all handles were destroyed");
        if (!g_objs[i].harness_owned && g_objs[i].destroyed != 1)
            vh::viol("countingptr: object o" + std::to_string(i) + " destroyed " + std::to_string(g_objs[i].destroyed) + " times after all handles were destroyed");
    }
    // the owner of the nodelete objects (the harness) destroys them now: arena objects in place, clones with delete
    g_harness_cleanup = true;
    for (size_t i = 0; i < g_objs.size(); ++i) {
        if (!g_objs[i].harness_owned || g_objs[i].destroyed) continue;
        Base* b = const_cast<Base*>(static_cast<const Base*>(g_objs[i].addr));
        bool in_arena = g_arena && reinterpret_cast<unsigned char*>(b) >= g_arena && reinterpret_cast<unsigned char*>(b) < g_arena + ARENA_SLOTS * sizeof(Derived);
        if (in_arena) b->~Base(); else delete b;
    }
    g_harness_cleanup = false;
    if (g_arena) { free(g_arena); g_arena = nullptr; g_arena_used = 0; }
    g_objs.clear();
    g_live.clear();
    g_mode = M_DEFAULT; g_case_has_ops = false;
}

// ---------------------------------------------------------------- deterministic scheduler
namespace c12 {
thread_local int tl_thread = -1;
const void* g_shared_rc = nullptr;
bool g_shared_dying = false;
struct Sched {
    std::mutex m;
    std::condition_variable cv;
    int nthreads = 0;
    int running = -1;                 // worker allowed to run, -1 = controller
    std::vector<int> state;           // 0 = running/not yet parked, 1 = parked at a scheduling point, 2 = finished,
                                      // 3 = waiting at the barrier (not eligible until every unfinished thread is there)
    unsigned barrier_gen = 0;
    std::vector<std::string> events;
    bool active = false;
} S;

void sched_point() {
    int me = tl_thread;
    if (me < 0 || !S.active) return;
    std::unique_lock<std::mutex> lk(S.m);
    S.state[me] = 1;
    S.running = -1;
    S.cv.notify_all();
    S.cv.wait(lk, [&] { return S.running == me; });
    S.state[me] = 0;
}
// rendezvous of all unfinished worker threads (the lifetime protocol of `rawrace`): nobody passes
// before everybody has arrived; what a thread does afterwards up to its next scheduling point is local
void barrier_point() {
    int me = tl_thread;
    if (me < 0 || !S.active) return;
    std::unique_lock<std::mutex> lk(S.m);
    unsigned gen = S.barrier_gen;
    S.state[me] = 3;
    S.running = -1;
    S.cv.notify_all();
    S.cv.wait(lk, [&] { return S.barrier_gen != gen; });
}
void log_event(Kind k, size_t value) {
    int me = tl_thread;
    if (me < 0 || !S.active) return;
    static const char* names[] = { "inc", "dec", "load", "del", "copy", "store", "cas" };
    std::string e = "t" + std::to_string(me) + ":" + names[k];
    if (k != K_DEL && k != K_COPY) e += "=" + std::to_string(value);
    std::lock_guard<std::mutex> lk(S.m);
    S.events.push_back(e);
}
}  // namespace c12

typedef tlx::CountingPtr<Base> Ptr;

// thread program letters (L0, L1 : CountingPtr<Base>, D : CountingPtr<Derived> are the thread's local handles)
//   c  { Ptr tmp(L0); }      copy-construct a temporary, destroy it
//   a  L1 = L0;              b  L0 = L1;              (copy-assign)
//   m  L1 = std::move(L0);   n  L0 = std::move(L1);   (move-assign)
//   r  L1.reset();           q  L0.reset();           Q  D.reset();
//   s  L0.swap(L1);          u  (void) L0.unique();   v  (void) L1.unique();   w  (void) D.unique();
//   x  L0.unify();           y  L1.unify();           z  D.unify();
//   converting operations (Derived handle -> Base handle):
//   C  { Ptr tmp(D); }       K  { Ptr tmp(std::move(D)); }      (copy / move construction)
//   A  L0 = D;               B  L1 = D;               M  L0 = std::move(D);   (copy / move assignment)
static void run_program(const std::string& prog, Ptr& L0, Ptr& L1, DPtr& D) {
    for (char ch : prog) {
        switch (ch) {
        case 'c': { Ptr tmp(L0); } break;
        case 'a': L1 = L0; break;
        case 'b': L0 = L1; break;
        case 'm': L1 = std::move(L0); break;
        case 'n': L0 = std::move(L1); break;
        case 'r': L1.reset(); break;
        case 'q': L0.reset(); break;
        case 'Q': D.reset(); break;
        case 's': L0.swap(L1); break;
        case 'u': (void)L0.unique(); break;
        case 'v': (void)L1.unique(); break;
        case 'w': (void)D.unique(); break;
        case 'x': L0.unify(); break;
        case 'y': L1.unify(); break;
        case 'z': D.unify(); break;
        case 'C': { Ptr tmp(D); } break;
        case 'K': { Ptr tmp(std::move(D)); } break;
        case 'A': L0 = D; break;
        case 'B': L1 = D; break;
        case 'M': L0 = std::move(D); break;
        default: break;
        }
    }
}

static bool valid_prog(const std::string& p) { return p.find_first_not_of("cabmnrqsuvQwxyzCKABM") == std::string::npos; }

// the scheduler: lets exactly one parked worker perform its next step, chosen by the schedule
// (k-th decision = schedule[k] mod number of eligible threads, round-robin afterwards); opens the
// barrier when every unfinished worker waits there.  Returns the number of decisions.
static size_t run_controller(int n, const std::vector<long long>& sched) {
    using c12::S;
    size_t k = 0, rr = 0;
    std::unique_lock<std::mutex> lk(S.m);
    for (;;) {
        S.cv.wait(lk, [&] { if (S.running != -1) return false; for (int s : S.state) if (s == 0) return false; return true; });
        std::vector<int> eligible, waiting;
        for (int i = 0; i < n; ++i) {
            if (S.state[static_cast<size_t>(i)] == 1) eligible.push_back(i);
            if (S.state[static_cast<size_t>(i)] == 3) waiting.push_back(i);
        }
        if (eligible.empty() && waiting.empty()) break;
        if (eligible.empty()) {
            for (int i : waiting) S.state[static_cast<size_t>(i)] = 0;
            ++S.barrier_gen;
            S.cv.notify_all();
            continue;
        }
        size_t pick = (k < sched.size() ? static_cast<size_t>(sched[k]) : rr++) % eligible.size();
        ++k;
        int tsel = eligible[pick];
        S.state[static_cast<size_t>(tsel)] = 0;
        S.running = tsel;
        S.cv.notify_all();
    }
    return k;
}

// Harness-only (the Lean driver answers n/a):  rawrace <threads> <schedule>
// Several threads construct a handle from the RAW pointer of one fresh, not yet referenced object
// (count 0) -- `CountingPtr(Type*)` -- then meet at a barrier (the lifetime protocol: nobody lets go
// before everybody holds a handle) and release.  Every atomic operation on the counter is a
// scheduling point, so a non-atomic "first reference" fast path in inc_reference yields a concrete
// schedule.  Oracle: the object is destroyed exactly once, by the last release, and never touched
// afterwards (ASan for the use-after-free / double free).
static void do_rawrace(const std::vector<std::string>& t, const std::string& line) {
    if (t.size() != 3) { vh::answer("bad-op"); return; }
    int n; std::vector<long long> sched;
    try { n = std::stoi(t[1]); sched = vh::csv(t[2]); } catch (...) { vh::answer("bad-op"); return; }
    if (n < 1 || n > 4) { vh::answer("bad-op"); return; }
    for (auto x : sched) if (x < 0) { vh::answer("bad-op"); return; }
    using c12::S;
    size_t first_obj = g_objs.size();
    Derived* raw = new Derived();                 // reference count 0, no handle yet
    c12::g_shared_rc = static_cast<const void*>(&raw->reference_count_);
    c12::g_shared_dying = false;
    S.nthreads = n; S.state.assign(static_cast<size_t>(n), 0); S.events.clear(); S.running = -1; S.active = true;
    std::vector<std::thread> th;
    for (int i = 0; i < n; ++i) {
        th.emplace_back([&, i] {
            c12::tl_thread = i;
            {
                Ptr L(raw);                       // explicit CountingPtr(Type* ptr): inc_reference
                c12::barrier_point();
            }                                     // ~CountingPtr: dec_reference, the last one deletes
            std::unique_lock<std::mutex> lk(S.m);
            S.state[static_cast<size_t>(i)] = 2;
            S.running = -1;
            S.cv.notify_all();
        });
    }
    size_t k = run_controller(n, sched);
    for (auto& x : th) x.join();
    S.active = false;
    c12::g_shared_rc = nullptr;
    std::ostringstream os;
    for (size_t i = 0; i < S.events.size(); ++i) os << (i ? " " : "") << S.events[i];
    const ObjRec& o = g_objs[first_obj];
    os << " ; destroyed=" << o.destroyed << " steps=" << k;
    vh::answer(os.str());
    for (auto& e : g_errors) vh::viol("countingptr rawrace: " + e + " in " + line);
    g_errors.clear();
    if (o.destroyed != 1) vh::viol("countingptr rawrace: object destroyed " + std::to_string(o.destroyed) + " times after all " + std::to_string(n) + " handles made from its raw pointer were released, in " + line);
    bool dead = false;
    for (auto& e : S.events) {
        if (dead && e.find(":load=0") == std::string::npos) vh::viol("countingptr rawrace: object accessed after its destruction began (" + e + ") in " + line);
        if (e.find(":del") != std::string::npos) dead = true;
    }
}

static void do_conc(const std::vector<std::string>& t, const std::string& line) {
    if (t.size() != 3) { vh::answer("bad-op"); return; }
    std::vector<std::string> progs;
    { std::istringstream is(t[1]); std::string w; while (std::getline(is, w, ',')) progs.push_back(w == "-" ? "" : w); }
    std::vector<long long> sched;
    try { sched = vh::csv(t[2]); } catch (...) { vh::answer("bad-op"); return; }
    if (progs.empty() || progs.size() > 4) { vh::answer("bad-op"); return; }
    for (auto& p : progs) if (!valid_prog(p)) { vh::answer("bad-op"); return; }
    for (auto x : sched) if (x < 0) { vh::answer("bad-op"); return; }
    using c12::S;
    int n = static_cast<int>(progs.size());
    size_t first_obj = g_objs.size();
    DPtr root(new Derived());
    std::vector<Ptr> l0(static_cast<size_t>(n));
    std::vector<DPtr> dd(static_cast<size_t>(n));
    for (int i = 0; i < n; ++i) { l0[static_cast<size_t>(i)] = root; dd[static_cast<size_t>(i)] = root; }   // not scheduled: tl_thread < 0
    c12::g_shared_rc = static_cast<const void*>(&root->reference_count_);
    c12::g_shared_dying = false;
    root.reset();
    S.nthreads = n; S.state.assign(static_cast<size_t>(n), 0); S.events.clear(); S.running = -1; S.active = true;
    std::vector<std::thread> th;
    for (int i = 0; i < n; ++i) {
        th.emplace_back([&, i] {
            c12::tl_thread = i;
            {
                // local handles live exactly as long as the thread's program: destroyed in the order D, L1, L0
                Ptr L0(std::move(l0[static_cast<size_t>(i)]));
                Ptr L1;
                DPtr D(std::move(dd[static_cast<size_t>(i)]));
                run_program(progs[static_cast<size_t>(i)], L0, L1, D);
            }
            std::unique_lock<std::mutex> lk(S.m);
            S.state[static_cast<size_t>(i)] = 2;
            S.running = -1;
            S.cv.notify_all();
        });
    }
    size_t k = run_controller(n, sched);
    for (auto& x : th) x.join();
    S.active = false;
    c12::g_shared_rc = nullptr;
    std::ostringstream os;
    for (size_t i = 0; i < S.events.size(); ++i) os << (i ? " " : "") << S.events[i];
    if (S.events.empty()) os << "-";
    const ObjRec& o = g_objs[first_obj];
    os << " ; destroyed=" << o.destroyed << " steps=" << k;
    vh::answer(os.str());
    for (auto& e : g_errors) vh::viol("countingptr concurrent: " + e + " in " + line);
    g_errors.clear();
    if (o.destroyed != 1) vh::viol("countingptr concurrent: shared object destroyed " + std::to_string(o.destroyed) + " times after all threads released it, in " + line);
    // leak oracle for the private copies made by unify()
    for (size_t i = first_obj + 1; i < g_objs.size(); ++i)
        if (g_objs[i].destroyed != 1)
            vh::viol("countingptr concurrent: private copy o" + std::to_string(i - first_obj) + " destroyed " + std::to_string(g_objs[i].destroyed) + " times after all threads finished, in " + line);
    // once the destructor has begun, nothing but the destroying thread's own assert-load
    // (~ReferenceCounter: assert(reference_count_ == 0)) may touch the object
    for (size_t i = 0; i < S.events.size(); ++i) {
        if (S.events[i].find(":del") == std::string::npos) continue;
        std::string who = S.events[i].substr(0, S.events[i].find(':'));
        for (size_t j = i + 1; j < S.events.size(); ++j)
            if (S.events[j].compare(0, who.size() + 1, who + ":") != 0 || S.events[j].find(":load=0") == std::string::npos)
                vh::viol("countingptr concurrent: object accessed after its destruction began (" + S.events[j] + ") in " + line);
        break;
    }
}

// real threads, no scheduler: every thread copies / assigns / drops handles to one shared object
static void do_stress(const std::vector<std::string>& t, const std::string& line) {
    if (t.size() != 4) { vh::answer("bad-op"); return; }
    int n; long iters; unsigned long long seed;
    try { n = std::stoi(t[1]); iters = std::stol(t[2]); seed = std::stoull(t[3]); } catch (...) { vh::answer("bad-op"); return; }
    if (n < 1 || n > 8 || iters < 0) { vh::answer("bad-op"); return; }
    size_t first_obj = g_objs.size();
    Ptr root(new Derived());
    std::vector<Ptr> l0(static_cast<size_t>(n), root);
    std::atomic<int> go(0);
    std::atomic<size_t> max_seen(0);
    std::vector<std::thread> th;
    for (int i = 0; i < n; ++i) {
        th.emplace_back([&, i] {
            vh::Rng rng(seed * 1000003ULL + static_cast<unsigned long long>(i));
            Ptr L0(std::move(l0[static_cast<size_t>(i)]));
            Ptr L1;
            while (!go.load()) std::this_thread::yield();
            for (long it = 0; it < iters; ++it) {
                switch (rng.below(10)) {
                case 0: { Ptr tmp(L0); if (tmp) { size_t c = tmp.use_count(); size_t m = max_seen.load(); while (c > m && !max_seen.compare_exchange_weak(m, c)) {} } } break;
                case 1: L1 = L0; break;
                case 2: L1.reset(); break;
                case 3: { Ptr tmp(L0); L1 = std::move(tmp); } break;
                case 4: L0.swap(L1); if (!L0) L0.swap(L1); break;
                case 5: { Ptr a(L0), b(a), c(std::move(b)); a = c; } break;
                case 6: if (L1) L0 = L1; break;
                case 7: { Ptr tmp(L0); Ptr tmp2; tmp2 = tmp; tmp.reset(); } break;
                case 8: { Ptr tmp(L0); tmp.unify(); } break;             // clones (the object is shared), drops the clone
                default: { Ptr tmp(L0); Ptr t2(tmp); t2.unify(); tmp = t2; } break;
                }
            }
        });
    }
    root.reset();          // the threads now hold the only handles
    go.store(1);
    for (auto& x : th) x.join();
    const ObjRec& o = g_objs[first_obj];
    vh::answer("destroyed=" + std::to_string(o.destroyed));
    for (auto& e : g_errors) vh::viol("countingptr stress: " + e + " in " + line);
    g_errors.clear();
    if (o.destroyed != 1) vh::viol("countingptr stress: shared object destroyed " + std::to_string(o.destroyed) + " times after all threads released it, in " + line);
    for (size_t i = first_obj + 1; i < g_objs.size(); ++i)
        if (g_objs[i].destroyed != 1) { vh::viol("countingptr stress: a private copy made by unify() was destroyed " + std::to_string(g_objs[i].destroyed) + " times, in " + line); break; }
    if (max_seen.load() > static_cast<size_t>(5 * n + 1)) vh::viol("countingptr stress: use_count " + std::to_string(max_seen.load()) + " exceeds the number of handles that can exist, in " + line);
}

int main(int argc, char** argv) {
    std::string line;
    bool in_case = false;
    while (std::getline(std::cin, line)) {
        auto t = vh::tokens(line);
        if (t.empty()) { vh::answer(""); continue; }
        if (t[0][0] == '#') { vh::answer(line); continue; }
        if (t[0] == "case") {
            if (in_case) end_case();
            in_case = true;
            vh::answer("case");
            continue;
        }
        if (t[0] == "conc" || t[0] == "stress" || t[0] == "rawrace") g_case_has_ops = true;
        if ((t[0] == "conc" || t[0] == "stress" || t[0] == "rawrace") && g_mode != M_DEFAULT) vh::answer("bad-op");   // default deleter only
        else if (t[0] == "conc") do_conc(t, line);
        else if (t[0] == "stress") do_stress(t, line);
        else if (t[0] == "rawrace") do_rawrace(t, line);
        else do_seq(t, line);
    }
    if (in_case) end_case();
    return 0;
}
