// Supporting evidence for C10/C11 (thorough tier): the real tlx primitives on real threads under ThreadSanitizer.
// No scheduler shim here.  Plain (non-atomic) job effects are read by the caller after loop_until_empty() /
// after a barrier / after a semaphore hand-over, so a missing happens-before edge is a reported data race.
// The program always terminates on the fixed sources; a watchdog turns an unexpected hang into exit code 3
// ("inconclusive"), which the check reports but does not count as a violation.
#include <tlx/semaphore.hpp>
#include <tlx/thread_barrier_mutex.hpp>
#include <tlx/thread_barrier_spin.hpp>
#include <tlx/thread_pool.hpp>

#include <atomic>
#include <csignal>
#include <cstdio>
#include <cstdlib>
#include <iostream>
#include <memory>
#include <streambuf>
#include <stdexcept>
#include <thread>
#include <unistd.h>
#include <vector>

struct NullBuf : std::streambuf {
    int overflow(int c) override { return c; }
    std::streamsize xsputn(const char*, std::streamsize n) override { return n; }
};

static void on_alarm(int) { const char m[] = "WATCHDOG\n"; (void)!write(2, m, sizeof(m) - 1); _exit(3); }

static int fails = 0;
#define CHECK(c) do { if (!(c)) { std::fprintf(stderr, "CHECK failed: %s (line %d)\n", #c, __LINE__); ++fails; } } while (0)

static void pool_rounds(size_t workers, int rounds) {
    tlx::ThreadPool pool(workers);
    std::vector<long> effect(64, 0);   // plain memory written by jobs
    for (int r = 0; r < rounds; ++r) {
        for (size_t i = 0; i < effect.size(); ++i) {
            pool.enqueue([&effect, &pool, i, r]() {
                effect[i] += 1;
                if (i % 8 == 0)   // a job that enqueues a job
                    pool.enqueue([&effect, i]() { effect[i] += 1000; });
                (void)r;
            });
        }
        pool.loop_until_empty();
        for (size_t i = 0; i < effect.size(); ++i) {
            long want = (r + 1) * ((i % 8 == 0) ? 1001 : 1);
            CHECK(effect[i] == want);
        }
        CHECK(pool.done() == static_cast<size_t>((r + 1) * (64 + 8)));
    }
}

static void pool_throwing() {
    // jobs that throw std::runtime_error are caught and logged by the pool and still count as run
    tlx::ThreadPool pool(3);
    std::vector<long> effect(48, 0);
    for (int r = 0; r < 10; ++r) {
        for (size_t i = 0; i < effect.size(); ++i)
            pool.enqueue([&effect, i]() {
                effect[i] += 1;
                if (i % 6 == 0) throw std::runtime_error("tsan job");
            });
        pool.loop_until_empty();
        for (size_t i = 0; i < effect.size(); ++i) CHECK(effect[i] == r + 1);
        CHECK(pool.done() == static_cast<size_t>((r + 1) * 48));
        CHECK(pool.idle() <= pool.size());
    }
}

// fork-join idiom: the last reference to a join object is dropped when the closure of the last sub-job is
// destroyed; its destructor enqueues the continuation.  The pool destroys a job object outside its mutex and
// before it reports the job as done, so this neither self-deadlocks nor escapes loop_until_empty().
struct Join {
    tlx::ThreadPool& pool;
    long& result;
    std::atomic<long> sum{0};
    Join(tlx::ThreadPool& p, long& r) : pool(p), result(r) {}
    ~Join() { long s = sum.load(); long& r = result; pool.enqueue([s, &r]() { r = s; }); }
};

static void pool_fork_join() {
    for (int rep = 0; rep < 50; ++rep) {
        tlx::ThreadPool pool(3);
        long result = -1;
        {
            auto join = std::make_shared<Join>(pool, result);
            for (long i = 1; i <= 8; ++i)
                pool.enqueue([join, i]() { join->sum += i; });
        }
        pool.loop_until_empty();
        CHECK(result == 36);
        CHECK(pool.done() == 9);
    }
}

static void pool_two_waiters() {
    for (int rep = 0; rep < 50; ++rep) {
        tlx::ThreadPool pool(2);
        long x = 0, y = 0;
        pool.enqueue([&]() { x = 1; });
        pool.enqueue([&]() { y = 2; });
        std::thread w1([&]() { pool.loop_until_empty(); CHECK(x == 1 && y == 2); });
        std::thread w2([&]() { pool.loop_until_empty(); CHECK(x == 1 && y == 2); });
        std::thread w3([&]() { pool.loop_until_terminate(); });
        std::thread w4([&]() { pool.loop_until_terminate(); });
        w1.join(); w2.join();
        pool.terminate();
        w3.join(); w4.join();
    }
}

static void semaphore_mixed() {
    for (int rep = 0; rep < 200; ++rep) {
        tlx::Semaphore sem(0);
        long data = 0;
        std::thread a([&]() { sem.wait(2); CHECK(data == 7); });
        std::thread b([&]() { sem.wait(1); CHECK(data == 7); });
        data = 7;
        sem.signal(); sem.signal(); sem.signal();
        a.join(); b.join();
        CHECK(sem.value() == 0);
    }
}

template <typename Barrier>
static void barrier_rounds(size_t n, int gens, bool yield) {
    Barrier bar(n);
    std::vector<long> cell(n, 0);
    long actions = 0;
    std::vector<std::thread> ts;
    for (size_t t = 0; t < n; ++t)
        ts.emplace_back([&, t]() {
            for (int g = 0; g < gens; ++g) {
                cell[t] = g + 1;
                auto act = [&]() { ++actions; for (size_t u = 0; u < n; ++u) CHECK(cell[u] == g + 1); };
                if (yield) bar.wait_yield(act); else bar.wait(act);
                CHECK(actions == g + 1);
                if (yield) bar.wait_yield(); else bar.wait();   // second barrier before the cells are overwritten
            }
        });
    for (auto& t : ts) t.join();
    CHECK(actions == gens);
}

int main() {
    // the pool logs the exceptions it swallows to std::cerr from several workers at once: discard the text
    // through a stateless (hence race-free) stream buffer
    static NullBuf sink;
    std::cerr.rdbuf(&sink);
    std::signal(SIGALRM, on_alarm);
    alarm(240);
    pool_rounds(1, 20);
    pool_rounds(3, 40);
    pool_throwing();
    pool_fork_join();
    pool_two_waiters();
    semaphore_mixed();
    barrier_rounds<tlx::ThreadBarrierMutex>(3, 200, false);
    barrier_rounds<tlx::ThreadBarrierSpin>(3, 200, true);
    barrier_rounds<tlx::ThreadBarrierSpin>(2, 200, false);
    if (fails) { std::fprintf(stderr, "%d check(s) failed\n", fails); return 1; }
    std::puts("tsan-run ok");
    return 0;
}
