// C13 harness: tlx::DAryHeap, tlx::DAryAddressableIntHeap and tlx::RadixHeap behind the
// line protocol (model side: lean/Driver/C13.lean).
//
// A case starts with one configuration line
//     cfg dary  <arity 1..8> <rev 0|1> [u32|mk|str]   (key type: integer, move-sensitive struct, std::string)
//     cfg addr  <arity 1..8> <rev 0|1> <u32|u8>
//     cfg radix <radix 2|4|8|16|64> <i8|u8|i16|u32|i64|u64>
// followed by operation lines.  Keys of the d-ary heaps are 0..U-1 (U = 48); their order is an
// EXTERNAL PRIORITY TABLE prio[] (cmp(a,b) = prio[a] < prio[b], or > when rev=1), initially
// prio[k] = k.
//
// d-ary heap ops:  push k | pop | top | xtop | size | empty | clear | sanity | drain | reserve n | capacity |
//                  copy (copy ctor + copy assignment) | move (move ctor + move assignment)
//                  build <it|dq|li|fl|sp|cv|mv> k,k,..   (build_heap(first,last) over vector / deque / list /
//                  forward_list / a genuine single-pass input iterator; build_heap(const vector&);
//                  build_heap(vector&&); on ANY heap state)
//                  setp k:p,k:p,..           (change priorities of keys NOT in the heap)
//                  reprio k:p,..             (change priorities, then update_all())
//                  pushat i  (push(heap_[i]) / push(top()): the argument aliases a stored element)
// addressable:     additionally  remove k | contains k | upd k p (prio[k]=p; update(k)) | updat i p (update(heap_[i]))
// Answer = "<ret> ; h=<heap_ array>" (+ " ; hd=<handles_ array, x = not_present>").
//
// radix heap ops:  push k | emplace k | pushb k | emplaceb k (hint overloads push_to_bucket / emplace_in_bucket
//                  with idx = get_bucket / get_bucket_key) | top | pop | swap | peak | size | empty | clear | getb k | drain
//                  (the data payload is a move-sensitive struct)
// Answer = "<ret> ; n=<size_> lim=<insertion_limit_ (rank)> cur=<current_bucket_> ;
//           b=<idx>:<key>/<payload>,..|.. ; m=<idx>:<mins_ rank>,.. ; f=<set bits of filled_>"
// The payload of the i-th inserted element of a case is i.
//
// Direct oracle (#VIOL lines): a std::multiset / std::set / std::map reference of the contents;
// after every operation: size()/empty() exact, top not greater (by the heap's order) than any
// stored element, the stored multiset equals the reference, contains(k) for every key of the
// universe, handles_ inverse of heap_, sanity_check() true, removed elements are minima.
// Operations whose documented precondition fails are answered `bad-op` and not executed.
#include <algorithm>
#include <array>
#include <cassert>
#include <cstddef>
#include <cstdint>
#include <functional>
#include <limits>
#include <map>
#include <memory>
#include <queue>
#include <set>
#include <sstream>
#include <stdexcept>
#include <string>
#include <tuple>
#include <type_traits>
#include <utility>
#include <vector>

#include <csignal>
#include <deque>
#include <forward_list>
#include <iterator>
#include <list>
#include <sys/time.h>
#include <unistd.h>

#include "common.hpp"

#define private public
#define protected public
#include <tlx/container/d_ary_addressable_int_heap.hpp>
#include <tlx/container/d_ary_heap.hpp>
#include <tlx/container/radix_heap.hpp>
#undef private
#undef protected

static constexpr unsigned U = 48;
static long long g_prio[U];
static bool g_rev = false;

// errors of the move-sensitive key / payload types (drained by the oracle after every operation)
static std::vector<std::string> g_move_errors;

// A key whose moves are observable: the moved-from object is marked and poisoned; reading it (copy, move,
// compare) is an error.  A container that forgets to write a moved-out key back leaves such an object behind.
struct MKey {
    std::uint32_t k;
    bool live;
    MKey() : k(0), live(true) {}
    MKey(std::uint32_t v) : k(v), live(true) {}   // NOLINT: implicit on purpose
    // a copy / move of a moved-from object is flagged and stays dead
    MKey(const MKey& o) : k(o.rd("copy of")), live(o.live) {}
    MKey(MKey&& o) noexcept : k(o.rd("move of")), live(o.live) { o.k = 0xDEADu; o.live = false; }
    MKey& operator=(const MKey& o) { if (this != &o) { k = o.rd("copy-assignment from"); live = o.live; } return *this; }
    MKey& operator=(MKey&& o) noexcept {
        if (this != &o) { k = o.rd("move-assignment from"); live = o.live; o.k = 0xDEADu; o.live = false; }
        return *this;
    }
    std::uint32_t rd(const char* what) const {
        if (!live && g_move_errors.size() < 4) g_move_errors.push_back(std::string(what) + " a moved-from key");
        return k;
    }
};

// key <-> small integer id (0..U-1); id() = -1 for a moved-from / corrupted key
template <typename K> struct KeyTr;
template <> struct KeyTr<std::uint32_t> {
    static std::uint32_t make(unsigned k) { return k; }
    static long long id(const std::uint32_t& k) { return k; }
};
template <> struct KeyTr<std::uint8_t> {
    static std::uint8_t make(unsigned k) { return static_cast<std::uint8_t>(k); }
    static long long id(const std::uint8_t& k) { return k; }
};
template <> struct KeyTr<MKey> {
    static MKey make(unsigned k) { return MKey(k); }
    static long long id(const MKey& k) { return k.live ? static_cast<long long>(k.k) : -1; }
};
template <> struct KeyTr<std::string> {
    // longer than the small-string buffer: a moved-from key is observably empty
    static std::string make(unsigned k) { return "heap-key-number-" + std::to_string(1000 + k); }
    static long long id(const std::string& s) {
        if (s.size() != 20 || s.compare(0, 16, "heap-key-number-") != 0) return -1;
        long long v = std::atoll(s.c_str() + 16) - 1000;
        return (v >= 0 && v < static_cast<long long>(48)) ? v : -1;
    }
};

template <typename K>
struct PrioCmp {
    bool operator()(const K& a, const K& b) const {
        long long ia = KeyTr<K>::id(a), ib = KeyTr<K>::id(b);
        if (ia < 0 || ib < 0 || ia >= static_cast<long long>(U) || ib >= static_cast<long long>(U)) {
            g_move_errors.push_back("comparison of a moved-from key"); return false;
        }
        return g_rev ? g_prio[ia] > g_prio[ib] : g_prio[ia] < g_prio[ib];
    }
};
static bool plt(unsigned a, unsigned b) { return g_rev ? g_prio[a] > g_prio[b] : g_prio[a] < g_prio[b]; }

template <typename V>
static std::string show_keys(const V& v) {
    std::ostringstream os;
    bool first = true;
    for (const auto& x : v) {
        if (!first) os << ',';
        long long id = KeyTr<typename V::value_type>::id(x);
        if (id < 0) os << '!'; else os << id;
        first = false;
    }
    if (first) os << '-';
    return os.str();
}

static void drain_move_errors(const std::string& what, const std::string& line) {
    for (auto& e : g_move_errors) vh::viol(what + " " + e + " after " + line);
    g_move_errors.clear();
}

struct IHeap {
    virtual ~IHeap() {}
    virtual std::string info() { return "ok"; }
    virtual void op(const std::vector<std::string>& t, const std::string& line) = 0;
};

static bool parse_kp(const std::string& s, std::vector<std::pair<unsigned, long long>>& out) {
    if (s == "-") return true;
    std::istringstream is(s);
    std::string w;
    while (std::getline(is, w, ',')) {
        size_t c = w.find(':');
        if (c == std::string::npos) return false;
        long long k = std::stoll(w.substr(0, c));
        long long p = std::stoll(w.substr(c + 1));
        if (k < 0 || k >= static_cast<long long>(U)) return false;
        out.emplace_back(static_cast<unsigned>(k), p);
    }
    return true;
}

template <typename V>
static std::string show_vec(const V& v) {
    std::ostringstream os;
    bool first = true;
    for (const auto& x : v) { if (!first) os << ','; os << static_cast<unsigned long long>(x); first = false; }
    if (first) os << '-';
    return os.str();
}

// ------------------------------------------------------------------ iterator kinds for build_heap(first, last)
// A genuine single-pass input iterator: all copies share one source, every increment consumes from it and
// invalidates the other copies; dereferencing or incrementing an invalidated copy is an error (this is what a
// second traversal of the range, e.g. std::distance followed by std::copy, does).
template <typename K>
struct SinglePassIt {
    using iterator_category = std::input_iterator_tag;
    using value_type = K;
    using difference_type = std::ptrdiff_t;
    using pointer = const K*;
    using reference = const K&;
    struct Src { std::deque<K> q; size_t gen = 0; };
    std::shared_ptr<Src> src;   // null = the end sentinel
    size_t gen = 0;
    struct Proxy { K v; const K& operator*() const { return v; } };

    SinglePassIt() = default;
    explicit SinglePassIt(const std::vector<K>& v) : src(std::make_shared<Src>()) { for (auto& x : v) src->q.push_back(x); }
    bool at_end() const { return !src || src->q.empty(); }
    void valid(const char* what) const {
        if (src && gen != src->gen && g_move_errors.size() < 4)
            g_move_errors.push_back(std::string(what) + " an invalidated copy of a single-pass input iterator (range traversed twice)");
    }
    reference operator*() const {
        valid("dereference of");
        static const K dflt{};
        if (at_end()) { if (g_move_errors.size() < 4) g_move_errors.push_back("dereference of the end of a single-pass range"); return dflt; }
        return src->q.front();
    }
    SinglePassIt& operator++() {
        valid("increment of");
        if (src && !src->q.empty()) { src->q.pop_front(); gen = ++src->gen; }
        return *this;
    }
    Proxy operator++(int) { Proxy p{**this}; ++*this; return p; }
    friend bool operator==(const SinglePassIt& a, const SinglePassIt& b) { return a.at_end() == b.at_end(); }
    friend bool operator!=(const SinglePassIt& a, const SinglePassIt& b) { return !(a == b); }
};

// build_heap(first, last) through the iterator kind named by `how`:
//   it = vector (random access), dq = deque (non-contiguous random access), li = list (bidirectional),
//   fl = forward_list (forward only), sp = single-pass input iterator.  false = unknown kind.
template <typename H, typename K>
static bool build_range(H& h, const std::string& how, const std::vector<K>& v) {
    if (how == "it") h.build_heap(v.begin(), v.end());
    else if (how == "dq") { std::deque<K> c(v.begin(), v.end()); h.build_heap(c.begin(), c.end()); }
    else if (how == "li") { std::list<K> c(v.begin(), v.end()); h.build_heap(c.begin(), c.end()); }
    else if (how == "fl") { std::forward_list<K> c(v.begin(), v.end()); h.build_heap(c.begin(), c.end()); }
    else if (how == "sp") { h.build_heap(SinglePassIt<K>(v), SinglePassIt<K>()); }
    else return false;
    return true;
}

// ------------------------------------------------------------------ DAryHeap
template <typename K, unsigned Arity>
struct DaryH : IHeap {
    using H = tlx::DAryHeap<K, Arity, PrioCmp<K>>;
    using T = KeyTr<K>;
    H h;
    std::multiset<unsigned> ref;

    std::string dump() { return "h=" + show_keys(h.heap_); }

    void check(const std::string& line) {
        drain_move_errors("dary", line);
        if (h.size() != ref.size()) { vh::viol("dary size " + std::to_string(h.size()) + " != reference " + std::to_string(ref.size()) + " after " + line); return; }
        if (h.empty() != ref.empty()) vh::viol("dary empty() wrong after " + line);
        std::multiset<unsigned> got;
        bool moved = false;
        for (const K& x : h.heap_) { long long id = T::id(x); if (id < 0) moved = true; else got.insert(static_cast<unsigned>(id)); }
        if (moved) { vh::viol("dary stores a moved-from key after " + line); return; }
        if (got != ref) vh::viol("dary stored multiset differs from reference after " + line);
        if (!ref.empty()) {
            long long tp = T::id(h.top());
            for (unsigned e : ref)
                if (tp >= 0 && plt(e, static_cast<unsigned>(tp))) { vh::viol("dary top " + std::to_string(tp) + " is greater than stored " + std::to_string(e) + " after " + line); break; }
        }
        if (!h.sanity_check()) vh::viol("dary sanity_check() false after " + line);
        drain_move_errors("dary", line);
    }

    void op(const std::vector<std::string>& t, const std::string& line) override {
        const std::string& o = t[0];
        std::string ret = "ok";
        if (o == "push" && t.size() == 2) {
            long long k = std::stoll(t[1]);
            if (k < 0 || k >= static_cast<long long>(U)) { vh::answer("bad-op"); return; }
            if (k % 2) h.push(T::make(static_cast<unsigned>(k))); else { K kk = T::make(static_cast<unsigned>(k)); h.push(kk); }
            ref.insert(static_cast<unsigned>(k));
        }
        else if (o == "pushat" && t.size() == 2) {
            // push(const key_type&) with an argument that ALIASES a stored element: push(h.top()) for slot 0,
            // push(heap_[i]) in general (the vector may or may not reallocate)
            long long i = std::stoll(t[1]);
            if (i < 0 || static_cast<size_t>(i) >= h.heap_.size()) { vh::answer("bad-op"); return; }
            long long id = T::id(h.heap_[static_cast<size_t>(i)]);
            if (id < 0) { vh::answer("bad-op"); return; }
            if (i == 0) h.push(h.top()); else h.push(h.heap_[static_cast<size_t>(i)]);
            ref.insert(static_cast<unsigned>(id));
        }
        else if (o == "pop" || o == "xtop" || o == "top") {
            if (ref.empty()) { vh::answer("bad-op"); return; }
            long long tpi = T::id(h.top());
            ret = tpi < 0 ? std::string("!") : std::to_string(tpi);
            unsigned tp = static_cast<unsigned>(tpi < 0 ? 0 : tpi);
            if (o != "top") {
                if (o == "xtop") { K x = h.extract_top(); if (T::id(x) != tpi) vh::viol("dary extract_top != top after " + line); }
                else h.pop();
                auto it = ref.find(tp);
                if (tpi < 0) vh::viol("dary top is a moved-from key after " + line);
                else if (it == ref.end()) vh::viol("dary popped " + std::to_string(tp) + " which is not in the reference after " + line);
                else {
                    for (unsigned e : ref) if (plt(e, tp)) { vh::viol("dary popped " + std::to_string(tp) + " but smaller " + std::to_string(e) + " stored after " + line); break; }
                    ref.erase(it);
                }
            }
        }
        else if (o == "reserve" && t.size() == 2) {
            long long n = std::stoll(t[1]);
            if (n < 0 || n > 4096) { vh::answer("bad-op"); return; }
            h.reserve(static_cast<size_t>(n));
            if (h.capacity() < static_cast<size_t>(n)) vh::viol("dary" " capacity() below the reserved size after " + line);
        }
        else if (o == "capacity") {
            // the value is the vector's growth policy (not modelled); it must cover the size
            if (h.capacity() < h.size()) vh::viol("dary" " capacity() < size() after " + line);
        }
        else if (o == "copy") { H c(h); H d; d = c; h = d; }              // copy constructor + copy assignment
        else if (o == "move") { H c(std::move(h)); H d; d = std::move(c); h = std::move(d); }   // move ctor + move assignment
        else if (o == "size") ret = std::to_string(h.size());
        else if (o == "empty") ret = h.empty() ? "1" : "0";
        else if (o == "clear") { h.clear(); ref.clear(); }
        else if (o == "sanity") ret = h.sanity_check() ? "1" : "0";
        else if (o == "drain") {
            std::vector<long long> out;
            std::multiset<unsigned> before = ref;
            while (!h.empty() && out.size() <= before.size()) { K x = h.extract_top(); out.push_back(T::id(x)); }
            bool bad = false;
            std::multiset<unsigned> got;
            for (long long x : out) { if (x < 0) bad = true; else got.insert(static_cast<unsigned>(x)); }
            for (size_t i = 1; i < out.size() && !bad; ++i)
                if (plt(static_cast<unsigned>(out[i]), static_cast<unsigned>(out[i - 1]))) { vh::viol("dary drain not in non-decreasing order after " + line); break; }
            if (bad || got != before) vh::viol("dary drain is not the stored multiset after " + line);
            ref.clear();
            std::ostringstream os;
            for (size_t i = 0; i < out.size(); ++i) { if (i) os << ','; if (out[i] < 0) os << '!'; else os << out[i]; }
            ret = out.empty() ? "-" : os.str();
        }
        else if (o == "build" && t.size() == 3) {
            std::vector<long long> ks = vh::csv(t[2]);
            std::vector<K> v;
            std::multiset<unsigned> nr;
            for (long long k : ks) { if (k < 0 || k >= static_cast<long long>(U)) { vh::answer("bad-op"); return; } v.push_back(T::make(static_cast<unsigned>(k))); nr.insert(static_cast<unsigned>(k)); }
            if (t[1] == "cv") h.build_heap(v);
            else if (t[1] == "mv") { std::vector<K> w = v; h.build_heap(std::move(w)); }
            else if (!build_range(h, t[1], v)) { vh::answer("bad-op"); return; }
            ref = nr;
        }
        else if ((o == "setp" || o == "reprio") && t.size() == 2) {
            std::vector<std::pair<unsigned, long long>> kp;
            if (!parse_kp(t[1], kp)) { vh::answer("bad-op"); return; }
            if (o == "setp") for (auto& x : kp) if (ref.count(x.first)) { vh::answer("bad-op"); return; }
            for (auto& x : kp) g_prio[x.first] = x.second;
            if (o == "reprio") h.update_all();
        }
        else { vh::answer("bad-op"); return; }
        vh::answer(ret + " ; " + dump());
        check(line);
    }
};

// ------------------------------------------------------------------ DAryAddressableIntHeap
template <typename KT, unsigned Arity>
struct AddrH : IHeap {
    using H = tlx::DAryAddressableIntHeap<KT, Arity, PrioCmp<KT>>;
    H h;
    std::set<unsigned> ref;

    std::string dump() {
        std::ostringstream os;
        os << "h=" << show_vec(h.heap_) << " ; hd=";
        bool first = true;
        for (KT x : h.handles_) {
            if (!first) os << ',';
            if (x == H::not_present()) os << 'x'; else os << static_cast<unsigned long long>(x);
            first = false;
        }
        if (first) os << '-';
        return os.str();
    }

    void check(const std::string& line) {
        drain_move_errors("addr", line);
        if (h.size() != ref.size()) vh::viol("addr size " + std::to_string(h.size()) + " != reference " + std::to_string(ref.size()) + " after " + line);
        if (h.empty() != ref.empty()) vh::viol("addr empty() wrong after " + line);
        std::multiset<unsigned> got(h.heap_.begin(), h.heap_.end());
        if (got != std::multiset<unsigned>(ref.begin(), ref.end())) vh::viol("addr stored keys differ from reference after " + line);
        for (unsigned k = 0; k < U; ++k) {
            bool c = h.contains(static_cast<KT>(k));
            if (c != (ref.count(k) != 0)) { vh::viol("addr contains(" + std::to_string(k) + ")=" + (c ? "1" : "0") + " but reference says " + (c ? "0" : "1") + " after " + line); break; }
        }
        for (size_t i = 0; i < h.heap_.size(); ++i) {
            KT k = h.heap_[i];
            if (k >= h.handles_.size() || h.handles_[k] != i) { vh::viol("addr handles_ is not the inverse of heap_ at slot " + std::to_string(i) + " after " + line); break; }
        }
        if (!ref.empty() && !h.heap_.empty()) {
            unsigned tp = h.top();
            for (unsigned e : ref)
                if (plt(e, tp)) { vh::viol("addr top " + std::to_string(tp) + " is greater than stored " + std::to_string(e) + " after " + line); break; }
        }
        bool stored_ok = true;
        for (KT k : h.heap_) if (k >= h.handles_.size()) stored_ok = false;
        if (stored_ok && !h.sanity_check()) vh::viol("addr sanity_check() false after " + line);
    }

    void op(const std::vector<std::string>& t, const std::string& line) override {
        const std::string& o = t[0];
        std::string ret = "ok";
        auto key_ok = [](long long k) { return k >= 0 && k < static_cast<long long>(U); };
        if (o == "push" && t.size() == 2) {
            long long k = std::stoll(t[1]);
            if (!key_ok(k) || ref.count(static_cast<unsigned>(k))) { vh::answer("bad-op"); return; }
            if (k % 2) h.push(static_cast<KT>(k)); else { KT kk = static_cast<KT>(k); h.push(kk); }
            ref.insert(static_cast<unsigned>(k));
        }
        else if (o == "pop" || o == "xtop" || o == "top") {
            if (ref.empty() || h.heap_.empty()) { vh::answer("bad-op"); return; }
            unsigned tp = h.top();
            ret = std::to_string(tp);
            if (o != "top") {
                if (o == "xtop") { unsigned x = h.extract_top(); if (x != tp) vh::viol("addr extract_top != top after " + line); }
                else h.pop();
                if (!ref.count(tp)) vh::viol("addr popped " + std::to_string(tp) + " which is not in the reference after " + line);
                else {
                    for (unsigned e : ref) if (plt(e, tp)) { vh::viol("addr popped " + std::to_string(tp) + " but smaller " + std::to_string(e) + " stored after " + line); break; }
                    ref.erase(tp);
                }
            }
        }
        else if (o == "remove" && t.size() == 2) {
            long long k = std::stoll(t[1]);
            // documented precondition: contains(key); judged by the reference AND the heap's own
            // answer (a stale handle would otherwise index out of bounds inside remove()).
            if (!key_ok(k) || !ref.count(static_cast<unsigned>(k)) || !h.contains(static_cast<KT>(k))) { vh::answer("bad-op"); return; }
            h.remove(static_cast<KT>(k));
            ref.erase(static_cast<unsigned>(k));
        }
        else if (o == "contains" && t.size() == 2) {
            long long k = std::stoll(t[1]);
            if (k < 0 || k > 200) { vh::answer("bad-op"); return; }
            ret = h.contains(static_cast<KT>(k)) ? "1" : "0";
        }
        else if (o == "updat" && t.size() == 3) {
            // update(key) with the key read through a reference into the heap's own storage
            long long i = std::stoll(t[1]);
            if (i < 0 || static_cast<size_t>(i) >= h.heap_.size()) { vh::answer("bad-op"); return; }
            unsigned kk = static_cast<unsigned>(h.heap_[static_cast<size_t>(i)]);
            if (!key_ok(kk) || !ref.count(kk) || !h.contains(static_cast<KT>(kk))) { vh::answer("bad-op"); return; }
            g_prio[kk] = std::stoll(t[2]);
            if (i == 0) h.update(h.top()); else h.update(h.heap_[static_cast<size_t>(i)]);
        }
        else if (o == "upd" && t.size() == 3) {
            long long k = std::stoll(t[1]);
            if (!key_ok(k)) { vh::answer("bad-op"); return; }
            // update(key) of a key the heap wrongly believes present would corrupt memory:
            // only executed when heap and reference agree on the membership of k
            if (h.contains(static_cast<KT>(k)) != (ref.count(static_cast<unsigned>(k)) != 0)) { vh::answer("bad-op"); return; }
            g_prio[k] = std::stoll(t[2]);
            h.update(static_cast<KT>(k));
            ref.insert(static_cast<unsigned>(k));
        }
        else if (o == "reserve" && t.size() == 2) {
            long long n = std::stoll(t[1]);
            if (n < 0 || n > 4096) { vh::answer("bad-op"); return; }
            // (the addressable heap reserves heap_ only when handles_ has to grow: capacity() >= n is not promised)
            h.reserve(static_cast<size_t>(n));
        }
        else if (o == "capacity") {
            // the value is the vector's growth policy (not modelled); it must cover the size
            if (h.capacity() < h.size()) vh::viol("addr" " capacity() < size() after " + line);
        }
        else if (o == "copy") { H c(h); H d; d = c; h = d; }              // copy constructor + copy assignment
        else if (o == "move") { H c(std::move(h)); H d; d = std::move(c); h = std::move(d); }   // move ctor + move assignment
        else if (o == "size") ret = std::to_string(h.size());
        else if (o == "empty") ret = h.empty() ? "1" : "0";
        else if (o == "clear") { h.clear(); ref.clear(); }
        else if (o == "sanity") ret = h.sanity_check() ? "1" : "0";
        else if (o == "drain") {
            std::vector<unsigned> out;
            std::set<unsigned> before = ref;
            while (!h.empty() && out.size() <= before.size()) out.push_back(h.extract_top());
            for (size_t i = 1; i < out.size(); ++i)
                if (plt(out[i], out[i - 1])) { vh::viol("addr drain not in non-decreasing order after " + line); break; }
            if (std::set<unsigned>(out.begin(), out.end()) != before || out.size() != before.size()) vh::viol("addr drain is not the stored set after " + line);
            ref.clear();
            ret = show_vec(out);
        }
        else if (o == "build" && t.size() == 3) {
            std::vector<long long> ks = vh::csv(t[2]);
            std::vector<KT> v;
            std::set<unsigned> s;
            for (long long k : ks) {
                if (!key_ok(k) || s.count(static_cast<unsigned>(k))) { vh::answer("bad-op"); return; }
                s.insert(static_cast<unsigned>(k));
                v.push_back(static_cast<KT>(k));
            }
            if (t[1] == "cv") h.build_heap(v);
            else if (t[1] == "mv") { std::vector<KT> w = v; h.build_heap(std::move(w)); }
            else if (!build_range(h, t[1], v)) { vh::answer("bad-op"); return; }
            ref = s;
        }
        else if ((o == "setp" || o == "reprio") && t.size() == 2) {
            std::vector<std::pair<unsigned, long long>> kp;
            if (!parse_kp(t[1], kp)) { vh::answer("bad-op"); return; }
            if (o == "setp") for (auto& x : kp) if (ref.count(x.first)) { vh::answer("bad-op"); return; }
            for (auto& x : kp) g_prio[x.first] = x.second;
            if (o == "reprio") h.update_all();
        }
        else { vh::answer("bad-op"); return; }
        vh::answer(ret + " ; " + dump());
        check(line);
    }
};

// ------------------------------------------------------------------ RadixHeap
typedef __int128 wide;

static bool parse_wide(const std::string& s, wide& out) {
    if (s.empty()) return false;
    size_t i = 0;
    bool neg = false;
    if (s[0] == '-') { neg = true; i = 1; }
    if (i >= s.size() || s.size() > 24) return false;
    wide v = 0;
    for (; i < s.size(); ++i) {
        if (s[i] < '0' || s[i] > '9') return false;
        v = v * 10 + (s[i] - '0');
    }
    out = neg ? -v : v;
    return true;
}

static std::string show_wide(wide v) {
    if (v == 0) return "0";
    bool neg = v < 0;
    if (neg) v = -v;
    std::string s;
    while (v > 0) { s.push_back(static_cast<char>('0' + static_cast<int>(v % 10))); v /= 10; }
    if (neg) s.push_back('-');
    std::reverse(s.begin(), s.end());
    return s;
}

template <typename KT, unsigned Radix>
struct RadixH : IHeap {
    // the data payload is move-sensitive: redistribution moves the elements between buckets
    using MPay = MKey;
    using H = tlx::RadixHeapPair<KT, MPay, Radix>;
    static std::string pshow(const MPay& p) { return p.live ? std::to_string(p.k) : std::string("!"); }
    using RK = typename std::make_unsigned<KT>::type;
    H h;
    std::multiset<wide> ref;              // keys
    std::map<std::uint32_t, wide> pay;    // payload -> key of the live elements
    bool has_frontier = false;
    wide frontier = 0;
    std::uint32_t next_payload = 0;

    static RK rank(KT k) { return tlx::radix_heap_detail::IntegerRank<KT>::rank_of_int(k); }
    // compile-time constants of this instantiation, compared with the model's
    std::string info() override {
        return "ok nb=" + std::to_string(H::num_buckets) + " rb=" + std::to_string(H::radix_bits) +
               " bits=" + std::to_string(8 * sizeof(RK)) + " signed=" + (std::is_signed<KT>::value ? "1" : "0");
    }

    std::string dump() {
        std::ostringstream os;
        os << "n=" << h.size_ << " lim=" << show_wide(static_cast<wide>(h.insertion_limit_)) << " cur=" << h.current_bucket_ << " ; b=";
        bool first = true;
        for (size_t i = 0; i < h.buckets_data_.size(); ++i) {
            if (h.buckets_data_[i].empty()) continue;
            if (!first) os << '|';
            first = false;
            os << i << ':';
            bool f2 = true;
            for (auto& e : h.buckets_data_[i]) { if (!f2) os << ','; f2 = false; os << show_wide(static_cast<wide>(e.first)) << '/' << pshow(e.second); }
        }
        if (first) os << '-';
        os << " ; m=";
        first = true;
        for (size_t i = 0; i < h.mins_.size(); ++i) {
            if (h.mins_[i] == std::numeric_limits<RK>::max()) continue;
            if (!first) os << ',';
            first = false;
            os << i << ':' << show_wide(static_cast<wide>(h.mins_[i]));
        }
        if (first) os << '-';
        os << " ; f=";
        first = true;
        for (size_t i = 0; i < H::num_buckets; ++i) {
            if (!h.filled_.is_set(i)) continue;
            if (!first) os << ',';
            first = false;
            os << i;
        }
        if (first) os << '-';
        return os.str();
    }

    void check(const std::string& line) {
        drain_move_errors("radix", line);
        if (h.size() != ref.size()) vh::viol("radix size " + std::to_string(h.size()) + " != reference " + std::to_string(ref.size()) + " after " + line);
        if (h.empty() != ref.empty()) vh::viol("radix empty() wrong after " + line);
        std::multiset<wide> got;
        bool payload_ok = true;
        for (auto& b : h.buckets_data_)
            for (auto& e : b) {
                got.insert(static_cast<wide>(e.first));
                auto it = e.second.live ? pay.find(e.second.k) : pay.end();
                if (it == pay.end() || it->second != static_cast<wide>(e.first)) payload_ok = false;
            }
        if (got != ref) vh::viol("radix stored multiset differs from reference after " + line);
        else if (!payload_ok) vh::viol("radix stored element has a wrong or moved-from payload after " + line);
        if (!ref.empty() && h.size() != 0) {
            wide pk = static_cast<wide>(h.peak_top_key());
            if (pk != *ref.begin()) vh::viol("radix peak_top_key " + show_wide(pk) + " != minimum " + show_wide(*ref.begin()) + " after " + line);
        }
    }

    void op(const std::vector<std::string>& t, const std::string& line) override {
        const std::string& o = t[0];
        std::string ret = "ok";
        const wide lo = static_cast<wide>(std::numeric_limits<KT>::min());
        const wide hi = static_cast<wide>(std::numeric_limits<KT>::max());
        if ((o == "push" || o == "emplace" || o == "emplacekf" || o == "getb" || o == "pushb" || o == "emplaceb") && t.size() == 2) {
            wide k;
            if (!parse_wide(t[1], k) || k < lo || k > hi) { vh::answer("bad-op"); return; }
            // monotonicity: no key below the most recently reported minimum (DESIGN §5)
            if (has_frontier && k < frontier) { vh::answer("bad-op"); return; }
            KT key = static_cast<KT>(k);
            if (o == "getb") ret = std::to_string(h.get_bucket_key(key));
            else {
                std::uint32_t p = next_payload++;
                size_t idx;
                if (o == "push") idx = h.push(std::make_pair(key, MPay(p)));
                else if (o == "emplace") idx = h.emplace(key, key, MPay(p));
                else if (o == "emplacekf") idx = h.emplace_keyfirst(key, MPay(p));
                else {
                    // the hint overloads, with the bucket index the API documents: get_bucket / get_bucket_key
                    std::pair<KT, MPay> val(key, MPay(p));
                    idx = (p % 2) ? h.get_bucket(val) : h.get_bucket_key(key);
                    if (o == "pushb") h.push_to_bucket(idx, val);
                    else h.emplace_in_bucket(idx, key, MPay(p));
                }
                ret = std::to_string(idx);
                ref.insert(k);
                pay[p] = k;
            }
        }
        else if (o == "pushtop" || o == "pushbtop" || o == "emplacetop") {
            // the by-reference entry points called with references to the STORED top element (the bucket vector
            // may or may not reallocate): duplicates the minimum, same payload
            if (ref.empty() || h.size() == 0) { vh::answer("bad-op"); return; }
            wide mn = *ref.begin();
            const auto& e = h.top();
            has_frontier = true; frontier = mn;
            wide k = static_cast<wide>(e.first);
            bool plive = e.second.live;
            std::uint32_t pid = e.second.k;
            size_t idx;
            if (o == "pushtop") idx = h.push(e);
            else if (o == "pushbtop") { idx = h.get_bucket(e); h.push_to_bucket(idx, e); }
            else idx = h.emplace(e.first, e.first, e.second);
            ret = std::to_string(idx);
            if (k != mn) vh::viol("radix top " + show_wide(k) + " != minimum " + show_wide(mn) + " after " + line);
            ref.insert(k);
            if (plive) pay[pid] = k;
        }
        else if (o == "top" || o == "pop" || o == "swap" || o == "peak") {
            if (ref.empty() || h.size() == 0) { vh::answer("bad-op"); return; }
            wide mn = *ref.begin();
            if (o == "peak") ret = show_wide(static_cast<wide>(h.peak_top_key()));
            else if (o == "top") {
                const auto& e = h.top();
                ret = show_wide(static_cast<wide>(e.first)) + "/" + pshow(e.second);
                if (static_cast<wide>(e.first) != mn) vh::viol("radix top " + show_wide(static_cast<wide>(e.first)) + " != minimum " + show_wide(mn) + " after " + line);
                has_frontier = true; frontier = mn;
            }
            else if (o == "pop") {
                h.pop();
                // which element went away is determined in check() through the stored multiset
                std::multiset<wide> got;
                std::set<std::uint32_t> live;
                for (auto& b : h.buckets_data_) for (auto& e : b) { got.insert(static_cast<wide>(e.first)); if (e.second.live) live.insert(e.second.k); }
                std::multiset<wide> want = ref;
                want.erase(want.begin());
                if (got != want) vh::viol("radix pop did not remove exactly one minimum (" + show_wide(mn) + ") after " + line);
                ref = want;
                for (auto it = pay.begin(); it != pay.end();) { if (!live.count(it->first)) it = pay.erase(it); else ++it; }
                has_frontier = true; frontier = mn;
            }
            else {
                typename H::bucket_data_type ex;
                h.swap_top_bucket(ex);
                std::ostringstream os;
                bool first = true;
                bool bad = ex.empty();
                for (auto& e : ex) {
                    if (!first) os << ',';
                    first = false;
                    os << show_wide(static_cast<wide>(e.first)) << '/' << pshow(e.second);
                    if (static_cast<wide>(e.first) != mn) bad = true;
                    auto it = ref.find(static_cast<wide>(e.first));
                    if (it == ref.end()) bad = true; else ref.erase(it);
                    if (e.second.live) pay.erase(e.second.k); else bad = true;
                }
                if (bad) vh::viol("radix swap_top_bucket returned an element that is not a minimum (" + show_wide(mn) + ") or nothing after " + line);
                ret = first ? "-" : os.str();
                has_frontier = true; frontier = mn;
            }
        }
        else if (o == "drain") {
            // top() + pop() until empty: the keys must come out in non-decreasing order
            std::ostringstream os;
            bool first = true, bad = false;
            std::multiset<wide> before = ref, out;
            size_t guard = ref.size() + 1;
            while (h.size() != 0 && guard-- > 0) {
                const auto& e = h.top();
                wide k = static_cast<wide>(e.first);
                if (!first) os << ',';
                first = false;
                os << show_wide(k) << '/' << pshow(e.second);
                if (!out.empty() && k < *out.rbegin()) bad = true;
                if (!e.second.live) bad = true;
                out.insert(k);
                has_frontier = true; frontier = k;
                h.pop();
            }
            if (bad || out != before) vh::viol("radix drain is not the stored multiset in non-decreasing order after " + line);
            ref.clear(); pay.clear();
            ret = first ? "-" : os.str();
        }
        else if (o == "size") ret = std::to_string(h.size());
        else if (o == "empty") ret = h.empty() ? "1" : "0";
        else if (o == "clear") { h.clear(); ref.clear(); pay.clear(); has_frontier = false; }
        else if (o == "copy") { H c(h); H d; d = c; h = d; }
        else if (o == "move") { H c(std::move(h)); H d; d = std::move(c); h = std::move(d); }
        else { vh::answer("bad-op"); return; }
        vh::answer(ret + " ; " + dump());
        check(line);
    }
};

// ------------------------------------------------------------------ dispatch
template <template <unsigned> class T, unsigned A>
static IHeap* make_arity(unsigned a) {
    if (a == A) return new T<A>();
    if constexpr (A < 8) return make_arity<T, A + 1>(a);
    return nullptr;
}
template <unsigned A> using AddrU32 = AddrH<std::uint32_t, A>;
template <unsigned A> using AddrU8 = AddrH<std::uint8_t, A>;
template <unsigned A> using DaryU32 = DaryH<std::uint32_t, A>;
template <unsigned A> using DaryMK = DaryH<MKey, A>;
template <unsigned A> using DaryStr = DaryH<std::string, A>;

template <typename KT>
static IHeap* make_radix(unsigned r) {
    switch (r) {
    case 2: return new RadixH<KT, 2>();
    case 4: return new RadixH<KT, 4>();
    case 8: return new RadixH<KT, 8>();
    case 16: return new RadixH<KT, 16>();
    case 64: return new RadixH<KT, 64>();
    }
    return nullptr;
}

static IHeap* configure(const std::vector<std::string>& t) {
    if (t.size() < 3) return nullptr;
    if (t[1] == "dary" && (t.size() == 4 || t.size() == 5)) {
        g_rev = t[3] == "1";
        unsigned a = static_cast<unsigned>(std::stoul(t[2]));
        std::string kt = t.size() == 5 ? t[4] : "u32";
        if (kt == "u32") return make_arity<DaryU32, 1>(a);
        if (kt == "mk") return make_arity<DaryMK, 1>(a);      // move-sensitive key type
        if (kt == "str") return make_arity<DaryStr, 1>(a);    // std::string keys
        return nullptr;
    }
    if (t[1] == "addr" && t.size() == 5) {
        g_rev = t[3] == "1";
        unsigned a = static_cast<unsigned>(std::stoul(t[2]));
        if (t[4] == "u32") return make_arity<AddrU32, 1>(a);
        if (t[4] == "u8") return make_arity<AddrU8, 1>(a);
        return nullptr;
    }
    if (t[1] == "radix" && t.size() == 4) {
        unsigned r = static_cast<unsigned>(std::stoul(t[2]));
        if (t[3] == "i8") return make_radix<std::int8_t>(r);
        if (t[3] == "u8") return make_radix<std::uint8_t>(r);
        if (t[3] == "i16") return make_radix<std::int16_t>(r);
        if (t[3] == "u32") return make_radix<std::uint32_t>(r);
        if (t[3] == "i64") return make_radix<std::int64_t>(r);
        if (t[3] == "u64") return make_radix<std::uint64_t>(r);
    }
    return nullptr;
}

// an operation that no longer terminates (e.g. a sift loop that stops making progress) must not hang
// the check: 1 s of CPU time per protocol line, then the run ends with a verdict
static void on_vtalarm(int) {
    static const char m[] = "#VIOL hang: an operation used more than 1 s of CPU time\n";
    ssize_t r = write(1, m, sizeof(m) - 1);
    (void)r;
    _exit(3);
}
static void arm_watchdog(long sec) {
    struct itimerval tv;
    tv.it_interval.tv_sec = 0; tv.it_interval.tv_usec = 0;
    tv.it_value.tv_sec = sec; tv.it_value.tv_usec = 0;
    setitimer(ITIMER_VIRTUAL, &tv, nullptr);
}

int main() {
    std::string line;
    std::unique_ptr<IHeap> cur;
    std::signal(SIGVTALRM, on_vtalarm);
    while (std::getline(std::cin, line)) {
        arm_watchdog(1);
        auto t = vh::tokens(line);
        if (t.empty()) { vh::answer(""); continue; }
        if (t[0][0] == '#') { vh::answer(line); continue; }
        if (t[0] == "case") {
            cur.reset();
            for (unsigned k = 0; k < U; ++k) g_prio[k] = k;
            g_rev = false;
            g_move_errors.clear();
            vh::answer("case");
            continue;
        }
        if (t[0] == "cfg") {
            cur.reset(configure(t));
            vh::answer(cur ? cur->info() : "bad-op");
            continue;
        }
        if (!cur) { vh::answer("bad-op"); continue; }
        cur->op(t, line);
    }
    return 0;
}
