// C04 harness: explicit instantiations of run_once<> (see c04_run.hpp), part B.
// name: t<TreeBits>s<smallsort_threshold>i<inssort_threshold>[n = no work sharing]
//       [r = enable_rest_size][u/e = other classifier classes][k = 32-bit keys]; def = public API
#include "c04_run.hpp"

const ParamInfo PARAMS_B[] = {
    {"t2s8i4", &run_once<P<2, 8, 4>, true>, true},
    {"t1s4i4", &run_once<P<1, 4, 4>, false>, false},
    {"t1s4i3", &run_once<P<1, 4, 3>, false>, false},
    {nullptr, nullptr, false}};
