// C11 harness: the real tlx::Semaphore, tlx::ThreadBarrierMutex and tlx::ThreadBarrierSpin
// under the deterministic scheduler (harness/detsched, force-included shim).  Line protocol:
//
//   sem <init>                      scenario kind: semaphore with initial value
//   thread <op>...                  a thread: s (signal()) | s<n> (signal(n)) | w<d>/<s> (wait(d,s)) | a<d>/<s> (try_acquire(d,s))
//   barrier <mutex|spin|spiny> <n> <gens> [act=<k>]   scenario kind: n threads cross the barrier gens times; the
//                                   action is a multi-step action: note actB<g>, k scheduler yields, a write of a
//                                   per-generation value, note actE<g>  (default k = 0)
//                                   (spin = wait(), spiny = wait_yield())
//   run seed=<n> [stick=<0..255>] [spur=<k>] [max=<steps>] [sched=<csv>]
//   explore runs=<n> [spur=<k>]     depth-first enumeration of all schedules (up to n runs);
//                                   answer `explored=<runs> complete=<0|1> violated=<0|1>`
//   sched                           explicit schedule (draw list) reproducing the last run
//
// Main (thread 0) spawns the threads (ids 1..) and joins them.
// Answer of `run`: `end=<done|rest|limit> <summary> steps=<n> | <event trace>`;
//   semaphore summary: value=<final value_> acq=<tokens acquired> sig=<tokens signalled by completed calls>
//   barrier summary:   step=<final step> acts=<number of action calls>
//
// Direct oracle, `#VIOL` lines —
//  semaphore: tokens acquired > initial + tokens of signal calls begun; wait(d,s)/try_acquire return value < s
//    or != value_; final / at-rest ledger value_ + acquired != initial + signalled; at rest a waiter is blocked
//    although value_ >= d + s (stranded), or a thread is blocked on the mutex;
//  barriers: a thread returned from its g-th wait before all threads entered their g-th wait; the action ran
//    while someone had not entered or had already left the generation, not by the last arriver, or not exactly
//    once per generation; any thread blocked at rest.
#include <cstring>
#include <memory>

#include "common.hpp"

#define private public
#include <tlx/semaphore.hpp>
#include <tlx/thread_barrier_mutex.hpp>
#include <tlx/thread_barrier_spin.hpp>
#undef private

using detsched::Op;
using detsched::Sched;

struct SemOp { char kind; size_t a, b; };   // 's' a=n (b=1: plain signal()), 'w' a=delta b=slack, 'a' likewise

struct Scenario {
    enum Kind { None, Sem, Barrier } kind = None;
    size_t init = 0;
    std::vector<std::vector<SemOp>> threads;
    std::string bkind;
    size_t n = 0, gens = 0, act_yields = 0;
};

static Scenario sc;
static std::vector<uint64_t> last_resolved;
static std::vector<std::string> viols;
static void viol(const std::string& s) { viols.push_back(s); }

// ------------------------------------------------------------------------------------------- semaphore
struct SemRun {
    tlx::Semaphore* sem = nullptr;
    size_t acquired = 0, sig_begun = 0, sig_done = 0;
    std::map<int, SemOp> in_wait;
};
static SemRun* sr = nullptr;

static void sem_thread(const std::vector<SemOp>* ops) {
    Sched& S = Sched::get();
    int me = Sched::self_id();
    tlx::Semaphore& sem = *sr->sem;
    for (const SemOp& o : *ops) {
        if (o.kind == 's') {
            sr->sig_begun += o.a;
            size_t r = (o.b == 1) ? sem.signal() : sem.signal(o.a);
            if (S.aborting()) return;
            sr->sig_done += o.a;
            if (r != sem.value_) viol("signal returned " + std::to_string(r) + " but value_ is " + std::to_string(sem.value_));
            S.note("r=" + std::to_string(r));
        } else if (o.kind == 'w') {
            sr->in_wait[me] = o;
            size_t r = sem.wait(o.a, o.b);
            sr->in_wait.erase(me);
            if (S.aborting()) return;
            sr->acquired += o.a;
            if (r < o.b) viol("wait(" + std::to_string(o.a) + "," + std::to_string(o.b) + ") returned with value " + std::to_string(r) + " < slack");
            if (r != sem.value_) viol("wait returned " + std::to_string(r) + " but value_ is " + std::to_string(sem.value_));
            if (sr->acquired > sc.init + sr->sig_begun)
                viol("tokens acquired " + std::to_string(sr->acquired) + " > initial " + std::to_string(sc.init) + " + signalled " + std::to_string(sr->sig_begun));
            S.note("r=" + std::to_string(r));
        } else {
            bool ok = sem.try_acquire(o.a, o.b);
            if (S.aborting()) return;
            if (ok) {
                sr->acquired += o.a;
                if (sem.value_ < o.b) viol("try_acquire succeeded leaving value " + std::to_string(sem.value_) + " < slack");
                if (sr->acquired > sc.init + sr->sig_begun)
                    viol("tokens acquired " + std::to_string(sr->acquired) + " > initial " + std::to_string(sc.init) + " + signalled " + std::to_string(sr->sig_begun));
            }
            S.note(std::string("r=") + (ok ? "1" : "0"));
        }
    }
}

static void sem_main() {
    Sched& S = Sched::get();
    S.name(&sr->sem->mutex_, "m");
    S.name(&sr->sem->cv_, "cv");
    std::vector<int> ids;
    for (size_t i = 0; i < sc.threads.size(); ++i) {
        const std::vector<SemOp>* ops = &sc.threads[i];
        ids.push_back(S.spawn([ops]() { sem_thread(ops); }));
    }
    for (int id : ids) S.join(id);
    if (!S.aborting()) S.note("end");
}

static void sem_stuck(const std::vector<detsched::Blocked>& blocked) {
    tlx::Semaphore& sem = *sr->sem;
    for (const auto& b : blocked) {
        if (b.op == Op::Lock) viol("deadlock: thread " + std::to_string(b.tid) + " blocked on the mutex at rest");
        else if (b.op == Op::Wake) {
            auto it = sr->in_wait.find(b.tid);
            if (it == sr->in_wait.end()) { viol("thread blocked in an unknown wait"); continue; }
            if (sem.value_ >= it->second.a + it->second.b)
                viol("stranded waiter: thread " + std::to_string(b.tid) + " blocked in wait(" + std::to_string(it->second.a) + "," +
                     std::to_string(it->second.b) + ") although value is " + std::to_string(sem.value_));
        }
    }
}

// ------------------------------------------------------------------------------------------- barriers
struct BarRun {
    tlx::ThreadBarrierMutex* bm = nullptr;
    tlx::ThreadBarrierSpin* bs = nullptr;
    std::vector<size_t> entered, left;           // per thread index (tid-1)
    std::vector<std::vector<int>> arrivals;      // per generation: threads in internal arrival order
    std::vector<size_t> actions;                 // per generation: action_begin events
    std::vector<size_t> ended;                   // per generation: action_end events
    std::vector<long> value;                     // per generation: what the action writes
    size_t action_calls = 0;
};
static BarRun* br = nullptr;

static void bar_action(int me) {
    size_t g = br->action_calls++;
    Sched::get().note("actB" + std::to_string(g));
    if (g >= sc.gens) { viol("action ran " + std::to_string(g + 1) + " times for " + std::to_string(sc.gens) + " generations"); return; }
    br->actions[g]++;
    for (size_t t = 0; t < sc.n; ++t) {
        if (br->entered[t] <= g) viol("action of generation " + std::to_string(g) + " ran before thread " + std::to_string(t + 1) + " entered it");
        if (br->left[t] > g) viol("action of generation " + std::to_string(g) + " ran after thread " + std::to_string(t + 1) + " left it");
    }
    if (br->arrivals[g].size() != sc.n || br->arrivals[g].back() != me)
        viol("action of generation " + std::to_string(g) + " ran in thread " + std::to_string(me) + " which is not the last arriver");
    // the action takes time: scheduling points inside it; nobody may be released before it has ended
    for (size_t k = 0; k < sc.act_yields; ++k) {
        Sched::get().yield();
        if (Sched::get().aborting()) return;
    }
    for (size_t t = 0; t < sc.n; ++t)
        if (br->left[t] > g) {
            viol("thread " + std::to_string(t + 1) + " left generation " + std::to_string(g) + " before the action of that generation ended");
            break;
        }
    br->value[g] = 1000 + static_cast<long>(g);
    br->ended[g]++;
    Sched::get().note("actE" + std::to_string(g));
}

static void bar_thread() {
    Sched& S = Sched::get();
    int me = Sched::self_id();
    size_t idx = static_cast<size_t>(me - 1);
    for (size_t g = 0; g < sc.gens; ++g) {
        br->entered[idx] = g + 1;
        auto act = [me]() { bar_action(me); };
        if (sc.bkind == "mutex") br->bm->wait(act);
        else if (sc.bkind == "spin") br->bs->wait(act);
        else br->bs->wait_yield(act);
        if (S.aborting()) return;
        S.spin_reset();
        // runs atomically with the last synchronisation operation of wait()
        for (size_t t = 0; t < sc.n; ++t)
            if (br->entered[t] <= g) {
                viol("thread " + std::to_string(me) + " left generation " + std::to_string(g) + " before thread " + std::to_string(t + 1) + " entered it");
                break;
            }
        if (br->actions[g] != 1)
            viol("thread " + std::to_string(me) + " left generation " + std::to_string(g) + " after " + std::to_string(br->actions[g]) + " action calls");
        if (br->ended[g] != 1 || br->value[g] != 1000 + static_cast<long>(g))
            viol("thread " + std::to_string(me) + " left generation " + std::to_string(g) + " before the action of that generation ended (its write is not visible: value " +
                 std::to_string(br->value[g]) + ")");
        br->left[idx] = g + 1;
        S.note("left" + std::to_string(g));
    }
}

static void bar_main() {
    Sched& S = Sched::get();
    if (br->bm) { S.name(&br->bm->mutex_, "m"); S.name(&br->bm->cv_, "cv"); }
    if (br->bs) { S.name(&br->bs->waiting_, "waiting"); S.name(&br->bs->step_, "step"); S.spin_var(&br->bs->step_); }
    std::vector<int> ids;
    for (size_t i = 0; i < sc.n; ++i) ids.push_back(S.spawn([]() { bar_thread(); }));
    for (int id : ids) S.join(id);
    if (!S.aborting()) S.note("end");
}

// ------------------------------------------------------------------------------------------- driver
static bool get_u64(const std::string& t, const char* key, uint64_t& out) {
    size_t n = strlen(key);
    if (t.compare(0, n, key) != 0 || t.size() <= n || t[n] != '=') return false;
    for (size_t i = n + 1; i < t.size(); ++i) if (!isdigit(static_cast<unsigned char>(t[i]))) return false;
    if (t.size() - n - 1 > 19) return false;
    out = std::stoull(t.substr(n + 1));
    return true;
}

static bool small_num(const std::string& s, size_t maxv, size_t& out) {
    if (s.empty() || s.size() > 2) return false;
    for (char c : s) if (!isdigit(static_cast<unsigned char>(c))) return false;
    out = std::stoul(s);
    return out <= maxv;
}

static bool parse_semop(const std::string& t, SemOp& o) {
    if (t == "s") { o = {'s', 1, 1}; return true; }
    if (t[0] == 's') { size_t n; if (!small_num(t.substr(1), 20, n)) return false; o = {'s', n, 0}; return true; }
    if (t[0] == 'w' || t[0] == 'a') {
        size_t slash = t.find('/');
        if (slash == std::string::npos) return false;
        size_t d, s;
        if (!small_num(t.substr(1, slash - 1), 20, d) || !small_num(t.substr(slash + 1), 20, s)) return false;
        o = {t[0], d, s};
        return true;
    }
    return false;
}

struct RunParams {
    uint64_t seed = 1, stick = 0, spur = 0, maxs = 4000, maxruns = 2000;
    std::vector<uint64_t> sched;
};

static bool parse_params(const std::vector<std::string>& t, RunParams& p) {
    for (size_t i = 1; i < t.size(); ++i) {
        uint64_t v;
        if (get_u64(t[i], "seed", v)) p.seed = v;
        else if (get_u64(t[i], "stick", v)) p.stick = v;
        else if (get_u64(t[i], "spur", v)) p.spur = v;
        else if (get_u64(t[i], "max", v)) p.maxs = v;
        else if (get_u64(t[i], "runs", v)) p.maxruns = v;
        else if (t[i].compare(0, 6, "sched=") == 0) {
            std::string s = t[i].substr(6);
            if (s != "-") {
                for (char ch : s) if (!isdigit(static_cast<unsigned char>(ch)) && ch != ',') return false;
                std::istringstream is(s);
                std::string w;
                while (std::getline(is, w, ',')) { if (w.empty() || w.size() > 18) return false; p.sched.push_back(std::stoull(w)); }
            }
        } else return false;
    }
    return p.stick <= 255 && p.maxs <= 100000 && p.maxruns <= 10000000;
}

// one run of the scenario; returns the answer line, the oracle verdicts are left in `viols`
static std::string execute(const RunParams& p, bool tail_zero) {
    Sched& S = Sched::get();
    S.seed = p.seed; S.sched = p.sched; S.stick = static_cast<unsigned>(p.stick); S.spur = static_cast<unsigned>(p.spur);
    S.max_steps = p.maxs;
    S.tail_zero = tail_zero;
    viols.clear();
    std::ostringstream os;
    if (sc.kind == Scenario::Sem) {
        SemRun run;
        tlx::Semaphore sem(sc.init);
        run.sem = &sem;
        sr = &run;
        S.on_stuck = sem_stuck;
        S.on_event = nullptr;
        detsched::End e = S.run(sem_main);
        if (e != detsched::End::StepLimit && sem.value_ + run.acquired != sc.init + run.sig_done)
            viol("token ledger broken: value " + std::to_string(sem.value_) + " + acquired " + std::to_string(run.acquired) +
                 " != initial " + std::to_string(sc.init) + " + signalled " + std::to_string(run.sig_done));
        os << "end=" << (e == detsched::End::Done ? "done" : e == detsched::End::Stuck ? "rest" : "limit")
           << " value=" << sem.value_ << " acq=" << run.acquired << " sig=" << run.sig_done;
        sr = nullptr;
    } else {
        BarRun run;
        std::unique_ptr<tlx::ThreadBarrierMutex> bm;
        std::unique_ptr<tlx::ThreadBarrierSpin> bs;
        if (sc.bkind == "mutex") bm.reset(new tlx::ThreadBarrierMutex(sc.n)); else bs.reset(new tlx::ThreadBarrierSpin(sc.n));
        run.bm = bm.get(); run.bs = bs.get();
        run.entered.assign(sc.n, 0); run.left.assign(sc.n, 0);
        run.arrivals.assign(sc.gens + 1, {}); run.actions.assign(sc.gens + 1, 0); run.ended.assign(sc.gens + 1, 0); run.value.assign(sc.gens + 1, -1);
        br = &run;
        S.on_stuck = [](const std::vector<detsched::Blocked>& blocked) {
            for (const auto& b : blocked)
                if (b.op != Op::Join)
                    viol("barrier deadlock: thread " + std::to_string(b.tid) + " blocked at rest (entered " +
                         std::to_string(br->entered[b.tid - 1]) + ", left " + std::to_string(br->left[b.tid - 1]) + ")");
        };
        S.on_event = [](int tid, Op op, const void* obj, long long) {
            bool arrival = (br->bm && op == Op::Lock && obj == &br->bm->mutex_) ||
                           (br->bs && op == Op::Rmw && obj == &br->bs->waiting_);
            if (arrival && tid >= 1) {
                size_t g = br->entered[tid - 1] - 1;
                if (g < br->arrivals.size()) br->arrivals[g].push_back(tid);
            }
        };
        detsched::End e = S.run(bar_main);
        if (e == detsched::End::Done) {
            for (size_t g = 0; g < sc.gens; ++g)
                if (run.actions[g] != 1 || run.ended[g] != 1) { viol("generation " + std::to_string(g) + " had " + std::to_string(run.actions[g]) + " action begin(s) and " + std::to_string(run.ended[g]) + " action end(s)"); break; }
            for (size_t t = 0; t < sc.n; ++t)
                if (run.left[t] != sc.gens) { viol("thread " + std::to_string(t + 1) + " finished after " + std::to_string(run.left[t]) + " generations"); break; }
        }
        size_t step = bm ? bm->step_ : bs->step_.peek();
        os << "end=" << (e == detsched::End::Done ? "done" : e == detsched::End::Stuck ? "rest" : "limit")
           << " step=" << step << " acts=" << run.action_calls;
        br = nullptr;
    }
    os << " steps=" << S.steps << " |";
    for (const auto& ev : S.trace) os << ' ' << ev;
    return os.str();
}

static std::string do_run(const std::vector<std::string>& t) {
    if (sc.kind == Scenario::None) return "bad-op";
    RunParams p;
    if (!parse_params(t, p)) return "bad-op";
    std::string ans = execute(p, false);
    last_resolved = Sched::get().resolved;
    vh::answer(ans);
    for (const auto& m : viols) vh::viol(m);
    return "";
}

// systematic exploration of all schedules (depth first) up to `runs` runs
static std::string do_explore(const std::vector<std::string>& t) {
    if (sc.kind == Scenario::None) return "bad-op";
    RunParams p;
    if (!parse_params(t, p) || !p.sched.empty()) return "bad-op";
    p.stick = 0;
    std::vector<std::string> first_viols;
    auto res = detsched::explore([&](const std::vector<uint64_t>& sched) {
        RunParams q = p;
        q.sched = sched;
        execute(q, true);
        if (!viols.empty() && first_viols.empty()) first_viols = viols;
        return !viols.empty();
    }, p.maxruns);
    std::ostringstream os;
    os << "explored=" << res.runs << " complete=" << (res.complete ? 1 : 0) << " violated=" << (res.violated ? 1 : 0);
    vh::answer(os.str());
    if (res.violated) {
        last_resolved = res.witness;
        for (const auto& m : first_viols) vh::viol(m + " [schedule sched=" + vh::show_csv(res.witness) + "]");
    }
    return "";
}

int main(int argc, char** argv) {
    if (argc < 2 || std::string(argv[1]) != "run") { std::cerr << "usage: c11 run\n"; return 2; }
    std::string line;
    while (std::getline(std::cin, line)) {
        auto t = vh::tokens(line);
        if (t.empty()) { vh::answer(""); continue; }
        if (t[0][0] == '#') { vh::answer(line); continue; }
        if (t[0] == "case") { sc = Scenario(); last_resolved.clear(); vh::answer("case"); continue; }
        std::string out = "bad-op";
        size_t v;
        if (t[0] == "sem" && t.size() == 2 && small_num(t[1], 20, v)) {
            sc = Scenario(); sc.kind = Scenario::Sem; sc.init = v; out = "ok";
        } else if (t[0] == "thread" && sc.kind == Scenario::Sem && sc.threads.size() < 6) {
            std::vector<SemOp> ops;
            bool ok = true;
            for (size_t i = 1; i < t.size(); ++i) { SemOp o; if (!parse_semop(t[i], o)) ok = false; else ops.push_back(o); }
            if (ok) { sc.threads.push_back(ops); out = "ok"; }
        } else if (t[0] == "barrier" && (t.size() == 4 || t.size() == 5) && (t[1] == "mutex" || t[1] == "spin" || t[1] == "spiny")) {
            size_t n, g;
            uint64_t k = 0;
            bool ok = small_num(t[2], 6, n) && small_num(t[3], 8, g) && n >= 1;
            if (t.size() == 5 && !(get_u64(t[4], "act", k) && k <= 4)) ok = false;
            if (ok) {
                sc = Scenario(); sc.kind = Scenario::Barrier; sc.bkind = t[1]; sc.n = n; sc.gens = g;
                sc.act_yields = static_cast<size_t>(k); out = "ok";
            }
        } else if (t[0] == "run") {
            out = do_run(t);
            if (out.empty()) continue;
        } else if (t[0] == "explore") {
            out = do_explore(t);
            if (out.empty()) continue;
        } else if (t[0] == "sched" && t.size() == 1) {
            out = vh::show_csv(last_resolved);
        }
        vh::answer(out);
    }
    return 0;
}
