// C04 harness: explicit instantiations of run_once<> (see c04_run.hpp), part C.
// name: t<TreeBits>s<smallsort_threshold>i<inssort_threshold>[n = no work sharing]
//       [r = enable_rest_size][u/e = other classifier classes][k = 32-bit keys]; def = public API
#include "c04_run.hpp"

const ParamInfo PARAMS_C[] = {
    {"t2s16i8", &run_once<P<2, 16, 8>, false>, false},
    {"t3s16i4", &run_once<P<3, 16, 4>, false>, false},
    {"t2s8i4n", &run_once<P<2, 8, 4, false>, false>, false},
    {"t2s8i4r", &run_once<P<2, 8, 4, true, true>, false>, false},
    {"t4s64i16", &run_once<P<4, 64, 16>, false>, false},
    {nullptr, nullptr, false}};
