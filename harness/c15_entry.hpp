// C15: the entry points of the three sorting-network families, shared by the
// translator (tools/c15_extract_networks.cpp) and the harness (harness/c15.cpp).
//   direct   : <family>::sortN(...)           N = 2..16 (no sort0/sort1 exist in tlx)
//   dispatch : <family>::sort(begin,end,cmp)  N = 0..16 (anything else: abort())
#pragma once
#include <tlx/sort/networks/best.hpp>
#include <tlx/sort/networks/bose_nelson.hpp>
#include <tlx/sort/networks/bose_nelson_parameter.hpp>
#include <tlx/sort/networks/cswap.hpp>

#include <cstddef>
#include <string>

namespace c15 {

enum Family { BEST = 0, BOSE_NELSON = 1, BOSE_NELSON_PARAMETER = 2, NUM_FAMILIES = 3 };
static const char* const family_name[3] = {"best", "bose_nelson", "bose_nelson_parameter"};
static const char* const entry_name[2] = {"direct", "dispatch"};

inline int family_of(const char* s) {
    for (int f = 0; f < 3; ++f)
        if (std::string(s) == family_name[f]) return f;
    return -1;
}

#define C15_ARR(NS, N) \
    case N: tlx::sort_networks::NS::sort##N(a, cs); return true;

#define C15_P2 a[0], a[1]
#define C15_P3 C15_P2, a[2]
#define C15_P4 C15_P3, a[3]
#define C15_P5 C15_P4, a[4]
#define C15_P6 C15_P5, a[5]
#define C15_P7 C15_P6, a[6]
#define C15_P8 C15_P7, a[7]
#define C15_P9 C15_P8, a[8]
#define C15_P10 C15_P9, a[9]
#define C15_P11 C15_P10, a[10]
#define C15_P12 C15_P11, a[11]
#define C15_P13 C15_P12, a[12]
#define C15_P14 C15_P13, a[13]
#define C15_P15 C15_P14, a[14]
#define C15_P16 C15_P15, a[15]
#define C15_PAR(N) \
    case N: tlx::sort_networks::bose_nelson_parameter::sort##N(C15_P##N, cs); return true;

#define C15_ALL(M, ...)                                                                         \
    M(__VA_ARGS__ 2) M(__VA_ARGS__ 3) M(__VA_ARGS__ 4) M(__VA_ARGS__ 5) M(__VA_ARGS__ 6)          \
    M(__VA_ARGS__ 7) M(__VA_ARGS__ 8) M(__VA_ARGS__ 9) M(__VA_ARGS__ 10) M(__VA_ARGS__ 11)       \
    M(__VA_ARGS__ 12) M(__VA_ARGS__ 13) M(__VA_ARGS__ 14) M(__VA_ARGS__ 15) M(__VA_ARGS__ 16)

#define C15_ARR_BEST(N) C15_ARR(best, N)
#define C15_ARR_BN(N) C15_ARR(bose_nelson, N)

//! call the size-specific network directly; false if no such function exists
template <typename T, typename CSwap>
bool call_direct(int fam, int n, T* a, CSwap cs) {
    switch (fam) {
    case BEST:
        switch (n) { C15_ALL(C15_ARR_BEST) default: return false; }
    case BOSE_NELSON:
        switch (n) { C15_ALL(C15_ARR_BN) default: return false; }
    case BOSE_NELSON_PARAMETER:
        switch (n) { C15_ALL(C15_PAR) default: return false; }
    }
    return false;
}

#define C15_ARR_DEF(NS, N) \
    case N: tlx::sort_networks::NS::sort##N(a); return true;
#define C15_ARR_DEF_BEST(N) C15_ARR_DEF(best, N)
#define C15_ARR_DEF_BN(N) C15_ARR_DEF(bose_nelson, N)
#define C15_PAR_DEF(N) \
    case N: tlx::sort_networks::bose_nelson_parameter::sort##N(C15_P##N); return true;

//! direct call with the documented default `CSwap cswap = CSwap()` (std::less via CS_IfSwap)
template <typename T>
bool call_direct_default(int fam, int n, T* a) {
    switch (fam) {
    case BEST:
        switch (n) { C15_ALL(C15_ARR_DEF_BEST) default: return false; }
    case BOSE_NELSON:
        switch (n) { C15_ALL(C15_ARR_DEF_BN) default: return false; }
    case BOSE_NELSON_PARAMETER:
        switch (n) { C15_ALL(C15_PAR_DEF) default: return false; }
    }
    return false;
}

//! dispatching call with the default comparator
template <typename T>
bool call_dispatch_default(int fam, int n, T* a) {
    if (n < 0 || n > 16) return false;
    switch (fam) {
    case BEST: tlx::sort_networks::best::sort(a, a + n); return true;
    case BOSE_NELSON: tlx::sort_networks::bose_nelson::sort(a, a + n); return true;
    case BOSE_NELSON_PARAMETER: tlx::sort_networks::bose_nelson_parameter::sort(a, a + n); return true;
    }
    return false;
}

//! call the size-dispatching entry point (precondition 0 <= n <= 16, else tlx abort()s)
template <typename T, typename Cmp>
bool call_dispatch(int fam, int n, T* a, Cmp cmp) {
    if (n < 0 || n > 16) return false;
    switch (fam) {
    case BEST: tlx::sort_networks::best::sort(a, a + n, cmp); return true;
    case BOSE_NELSON: tlx::sort_networks::bose_nelson::sort(a, a + n, cmp); return true;
    case BOSE_NELSON_PARAMETER: tlx::sort_networks::bose_nelson_parameter::sort(a, a + n, cmp); return true;
    }
    return false;
}

//! either entry point with tlx's own CS_IfSwap around `cmp` (entry 0 = direct, 1 = dispatch)
template <typename T, typename Cmp>
bool call(int fam, int entry, int n, T* a, Cmp cmp) {
    if (entry == 0) return call_direct(fam, n, a, tlx::sort_networks::CS_IfSwap<Cmp>(cmp));
    return call_dispatch(fam, n, a, cmp);
}

inline bool exists(int /*fam*/, int entry, int n) {
    return entry == 0 ? (n >= 2 && n <= 16) : (n >= 0 && n <= 16);
}

}  // namespace c15
