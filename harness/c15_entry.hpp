// C15: the entry points of the three sorting-network families, shared by the
// translator (tools/c15_extract_networks.cpp) and the harness (harness/c15.cpp).
//   direct   : <family>::sortN(...)           N = 2..16 (no sort0/sort1 exist in tlx)
//   dispatch : <family>::sort(begin,end,cmp)  N = 0..16 (anything else: abort())
// All entry points are reached through an arbitrary random-access iterator `It`; `Seq<T>` lays a
// sequence out behind four iterator kinds (pointer, std::reverse_iterator over a slice in the
// middle of a larger buffer, std::deque iterators across a block boundary, a user-defined
// strided iterator), with guard elements around / between the elements of the sequence.
#pragma once
#include <tlx/sort/networks/best.hpp>
#include <tlx/sort/networks/bose_nelson.hpp>
#include <tlx/sort/networks/bose_nelson_parameter.hpp>
#include <tlx/sort/networks/cswap.hpp>

#include <cstddef>
#include <deque>
#include <iterator>
#include <string>
#include <type_traits>
#include <utility>
#include <vector>

namespace c15 {

enum Family { BEST = 0, BOSE_NELSON = 1, BOSE_NELSON_PARAMETER = 2, NUM_FAMILIES = 3 };
static const char* const family_name[3] = {"best", "bose_nelson", "bose_nelson_parameter"};
static const char* const entry_name[2] = {"direct", "dispatch"};

inline int family_of(const char* s) {
    for (int f = 0; f < 3; ++f)
        if (std::string(s) == family_name[f]) return f;
    return -1;
}

//! pass `x` on as an lvalue (copied by the by-value parameter of the entry point) or as an rvalue (moved into it)
template <bool Rv, typename T>
typename std::conditional<Rv, T&&, T&>::type pass_as(T& x) {
    return static_cast<typename std::conditional<Rv, T&&, T&>::type>(x);
}

#define C15_ARR(NS, N) \
    case N: tlx::sort_networks::NS::sort##N(a, pass_as<Rv>(cs)); return true;

#define C15_P2 a[0], a[1]
#define C15_P3 C15_P2, a[2]
#define C15_P4 C15_P3, a[3]
#define C15_P5 C15_P4, a[4]
#define C15_P6 C15_P5, a[5]
#define C15_P7 C15_P6, a[6]
#define C15_P8 C15_P7, a[7]
#define C15_P9 C15_P8, a[8]
#define C15_P10 C15_P9, a[9]
#define C15_P11 C15_P10, a[10]
#define C15_P12 C15_P11, a[11]
#define C15_P13 C15_P12, a[12]
#define C15_P14 C15_P13, a[13]
#define C15_P15 C15_P14, a[14]
#define C15_P16 C15_P15, a[15]
#define C15_PAR(N) \
    case N: tlx::sort_networks::bose_nelson_parameter::sort##N(C15_P##N, pass_as<Rv>(cs)); return true;

#define C15_ALL(M, ...)                                                                         \
    M(__VA_ARGS__ 2) M(__VA_ARGS__ 3) M(__VA_ARGS__ 4) M(__VA_ARGS__ 5) M(__VA_ARGS__ 6)          \
    M(__VA_ARGS__ 7) M(__VA_ARGS__ 8) M(__VA_ARGS__ 9) M(__VA_ARGS__ 10) M(__VA_ARGS__ 11)       \
    M(__VA_ARGS__ 12) M(__VA_ARGS__ 13) M(__VA_ARGS__ 14) M(__VA_ARGS__ 15) M(__VA_ARGS__ 16)

#define C15_ARR_BEST(N) C15_ARR(best, N)
#define C15_ARR_BN(N) C15_ARR(bose_nelson, N)

//! call the size-specific network directly; false if no such function exists
template <bool Rv = false, typename It, typename CSwap>
bool call_direct(int fam, int n, It a, CSwap cs) {
    switch (fam) {
    case BEST:
        switch (n) { C15_ALL(C15_ARR_BEST) default: return false; }
    case BOSE_NELSON:
        switch (n) { C15_ALL(C15_ARR_BN) default: return false; }
    case BOSE_NELSON_PARAMETER:
        switch (n) { C15_ALL(C15_PAR) default: return false; }
    }
    return false;
}

#define C15_ARR_DEF(NS, N) \
    case N: tlx::sort_networks::NS::sort##N(a); return true;
#define C15_ARR_DEF_BEST(N) C15_ARR_DEF(best, N)
#define C15_ARR_DEF_BN(N) C15_ARR_DEF(bose_nelson, N)
#define C15_PAR_DEF(N) \
    case N: tlx::sort_networks::bose_nelson_parameter::sort##N(C15_P##N); return true;

//! direct call with the documented default `CSwap cswap = CSwap()` (std::less via CS_IfSwap)
template <typename It>
bool call_direct_default(int fam, int n, It a) {
    switch (fam) {
    case BEST:
        switch (n) { C15_ALL(C15_ARR_DEF_BEST) default: return false; }
    case BOSE_NELSON:
        switch (n) { C15_ALL(C15_ARR_DEF_BN) default: return false; }
    case BOSE_NELSON_PARAMETER:
        switch (n) { C15_ALL(C15_PAR_DEF) default: return false; }
    }
    return false;
}

//! dispatching call with the default comparator
template <typename It>
bool call_dispatch_default(int fam, int n, It a) {
    if (n < 0 || n > 16) return false;
    switch (fam) {
    case BEST: tlx::sort_networks::best::sort(a, a + n); return true;
    case BOSE_NELSON: tlx::sort_networks::bose_nelson::sort(a, a + n); return true;
    case BOSE_NELSON_PARAMETER: tlx::sort_networks::bose_nelson_parameter::sort(a, a + n); return true;
    }
    return false;
}

//! call the size-dispatching entry point (precondition 0 <= n <= 16, else tlx abort()s)
template <bool Rv = false, typename It, typename Cmp>
bool call_dispatch(int fam, int n, It a, Cmp cmp) {
    if (n < 0 || n > 16) return false;
    switch (fam) {
    case BEST: tlx::sort_networks::best::sort(a, a + n, pass_as<Rv>(cmp)); return true;
    case BOSE_NELSON: tlx::sort_networks::bose_nelson::sort(a, a + n, pass_as<Rv>(cmp)); return true;
    case BOSE_NELSON_PARAMETER: tlx::sort_networks::bose_nelson_parameter::sort(a, a + n, pass_as<Rv>(cmp)); return true;
    }
    return false;
}

#define C15_ARR_AS(NS, N) \
    case N: tlx::sort_networks::NS::sort##N<It, CSwap>(a); return true;
#define C15_ARR_AS_BEST(N) C15_ARR_AS(best, N)
#define C15_ARR_AS_BN(N) C15_ARR_AS(bose_nelson, N)
#define C15_PAR_AS(N)                                                                                       \
    case N:                                                                                                 \
        tlx::sort_networks::bose_nelson_parameter::sort##N<typename std::iterator_traits<It>::value_type,   \
                                                           CSwap>(C15_P##N);                                \
        return true;

//! direct call with a *default-constructed* compare-exchange functor of the given type (`CSwap cswap = CSwap()`)
template <typename CSwap, typename It>
bool call_direct_default_as(int fam, int n, It a) {
    switch (fam) {
    case BEST:
        switch (n) { C15_ALL(C15_ARR_AS_BEST) default: return false; }
    case BOSE_NELSON:
        switch (n) { C15_ALL(C15_ARR_AS_BN) default: return false; }
    case BOSE_NELSON_PARAMETER:
        switch (n) { C15_ALL(C15_PAR_AS) default: return false; }
    }
    return false;
}

//! dispatching call with a default-constructed comparator of the given type (`Comparator cmp = Comparator()`)
template <typename Cmp, typename It>
bool call_dispatch_default_as(int fam, int n, It a) {
    if (n < 0 || n > 16) return false;
    switch (fam) {
    case BEST: tlx::sort_networks::best::sort<It, Cmp>(a, a + n); return true;
    case BOSE_NELSON: tlx::sort_networks::bose_nelson::sort<It, Cmp>(a, a + n); return true;
    case BOSE_NELSON_PARAMETER: tlx::sort_networks::bose_nelson_parameter::sort<It, Cmp>(a, a + n); return true;
    }
    return false;
}

//! either entry point with tlx's own CS_IfSwap around `cmp` (entry 0 = direct, 1 = dispatch);
//! Rv: the functor / comparator is handed to tlx as an rvalue (temporary) instead of an lvalue
template <bool Rv = false, typename It, typename Cmp>
bool call(int fam, int entry, int n, It a, Cmp cmp) {
    if (entry == 0) return call_direct<Rv>(fam, n, a, tlx::sort_networks::CS_IfSwap<Cmp>(pass_as<Rv>(cmp)));
    return call_dispatch<Rv>(fam, n, a, pass_as<Rv>(cmp));
}

//! either entry point with a default-constructed comparator of type Cmp
template <typename Cmp, typename It>
bool call_default_as(int fam, int entry, int n, It a) {
    if (entry == 0) return call_direct_default_as<tlx::sort_networks::CS_IfSwap<Cmp> >(fam, n, a);
    return call_dispatch_default_as<Cmp>(fam, n, a);
}

inline bool exists(int /*fam*/, int entry, int n) {
    return entry == 0 ? (n >= 2 && n <= 16) : (n >= 0 && n <= 16);
}

// ---------------------------------------------------------------------------- iterator kinds

enum Kind { K_PTR = 0, K_REV = 1, K_DEQUE = 2, K_STRIDE = 3, NUM_KINDS = 4 };
static const char* const kind_name[4] = {"ptr", "rev", "deque", "stride"};
inline int kind_of(const std::string& s) {
    for (int k = 0; k < 4; ++k)
        if (s == kind_name[k]) return k;
    return -1;
}

//! user-defined random-access iterator: element k lives at base[k * stride]
template <typename T>
class StrideIt {
public:
    typedef std::random_access_iterator_tag iterator_category;
    typedef T value_type;
    typedef std::ptrdiff_t difference_type;
    typedef T* pointer;
    typedef T& reference;
    StrideIt() : p_(nullptr), s_(1) {}
    StrideIt(T* p, std::ptrdiff_t s) : p_(p), s_(s) {}
    reference operator*() const { return *p_; }
    pointer operator->() const { return p_; }
    reference operator[](difference_type k) const { return p_[k * s_]; }
    StrideIt& operator++() { p_ += s_; return *this; }
    StrideIt operator++(int) { StrideIt t = *this; p_ += s_; return t; }
    StrideIt& operator--() { p_ -= s_; return *this; }
    StrideIt operator--(int) { StrideIt t = *this; p_ -= s_; return t; }
    StrideIt& operator+=(difference_type k) { p_ += k * s_; return *this; }
    StrideIt& operator-=(difference_type k) { p_ -= k * s_; return *this; }
    friend StrideIt operator+(StrideIt a, difference_type k) { a += k; return a; }
    friend StrideIt operator+(difference_type k, StrideIt a) { a += k; return a; }
    friend StrideIt operator-(StrideIt a, difference_type k) { a -= k; return a; }
    friend difference_type operator-(const StrideIt& a, const StrideIt& b) { return (a.p_ - b.p_) / a.s_; }
    friend bool operator==(const StrideIt& a, const StrideIt& b) { return a.p_ == b.p_; }
    friend bool operator!=(const StrideIt& a, const StrideIt& b) { return a.p_ != b.p_; }
    friend bool operator<(const StrideIt& a, const StrideIt& b) { return a.p_ < b.p_; }
    friend bool operator>(const StrideIt& a, const StrideIt& b) { return a.p_ > b.p_; }
    friend bool operator<=(const StrideIt& a, const StrideIt& b) { return a.p_ <= b.p_; }
    friend bool operator>=(const StrideIt& a, const StrideIt& b) { return a.p_ >= b.p_; }
private:
    T* p_;
    std::ptrdiff_t s_;
};

//! A sequence of n elements of type T laid out for one iterator kind.  `T` needs
//! `static T guard(long id)` (a recognisable filler value) and `bool same(const T&) const`.
//!   ptr    : heap array of exactly n elements (ASan guards the outside)
//!   rev    : buffer [G guards][n elements][G guards], sequence = reverse_iterator from the slice end
//!   deque  : std::deque with P guards in front such that the n elements straddle a block
//!            boundary (`variant` moves the split point), and G guards behind
//!   stride : buffer with stride 3, two guards between neighbouring elements, G guards at both ends
template <typename T>
struct Seq {
    static const int G = 18;
    int kind, n, variant;
    std::vector<T> buf;
    std::deque<T> dq;
    size_t off;   // rev: index of the slice start; deque: prefix length; stride: index of element 0

    Seq(int kind_, int n_, int variant_) : kind(kind_), n(n_), variant(variant_), off(0) {
        if (kind == K_PTR) buf.assign(size_t(n), T::guard(0));
        else if (kind == K_REV) {
            off = G;
            for (int i = 0; i < n + 2 * G; ++i) buf.push_back(T::guard(i));
        }
        else if (kind == K_DEQUE) {
            size_t block = sizeof(T) < 512 ? 512 / sizeof(T) : 1;   // libstdc++ __deque_buf_size
            size_t split = n >= 2 ? size_t(1 + variant % (n - 1)) : 1;   // elements before the boundary
            off = 2 * block - split;
            for (size_t i = 0; i < off + size_t(n) + G; ++i) dq.push_back(T::guard(long(i)));
        }
        else {
            off = G;
            for (int i = 0; i < 3 * n + 2 * G; ++i) buf.push_back(T::guard(i));
        }
    }
    //! logical element k of the sequence
    T& at(int k) {
        switch (kind) {
        case K_PTR: return buf[size_t(k)];
        case K_REV: return buf[off + size_t(n - 1 - k)];
        case K_DEQUE: return dq[off + size_t(k)];
        default: return buf[off + 3 * size_t(k)];
        }
    }
    bool is_guard_index(size_t i) const {
        if (kind == K_PTR) return false;
        if (kind == K_STRIDE) return !(i >= off && i < off + 3 * size_t(n) && (i - off) % 3 == 0);
        return !(i >= off && i < off + size_t(n));
    }
    //! every cell that is not part of the sequence still holds its filler
    bool guards_ok() const {
        if (kind == K_DEQUE) {
            for (size_t i = 0; i < dq.size(); ++i)
                if (is_guard_index(i) && !dq[i].same(T::guard(long(i)))) return false;
            return true;
        }
        for (size_t i = 0; i < buf.size(); ++i)
            if (is_guard_index(i) && !buf[i].same(T::guard(long(i)))) return false;
        return true;
    }
    //! do the elements of the deque layout really straddle a block boundary?
    bool straddles() {
        if (kind != K_DEQUE) return false;
        for (int k = 0; k + 1 < n; ++k)
            if (&at(k + 1) != &at(k) + 1) return true;
        return false;
    }
    //! logical index of the object at address p, or -1
    int index_of(const T* p) {
        for (int k = 0; k < n; ++k)
            if (&at(k) == p) return k;
        return -1;
    }
    //! f(first) with `first` an iterator of this kind to logical element 0
    template <typename F>
    bool apply(F&& f) {
        switch (kind) {
        case K_PTR: return f(buf.data());
        case K_REV: return f(std::reverse_iterator<T*>(buf.data() + off + n));
        case K_DEQUE: return f(dq.begin() + std::ptrdiff_t(off));
        default: return f(StrideIt<T>(buf.data() + off, 3));
        }
    }
};

}  // namespace c15
