// C04 harness: tlx::sort_strings_parallel / sort_strings_parallel_lcp and the pS5
// internals behind the line protocol (model driver: lean/Driver/C04.lean).
//
//   cfg <params> <repr> <threads> <lcp> <reps>     configuration of this case
//   s <string> [count]                             one input string per line (shrinkable)
//   go   real threads; `reps` repetitions of the same input (the schedule varies);
//        params = def -> the public tlx::sort_strings_parallel* overload of <repr>
//                 otherwise parallel_sample_sort_params<P> on the string set of <repr>
//        answer: "ok <sorted strings> | <lcp[1..]>"   (unique function of the input)
//   big  <params> <repr> <threads> <lcp> <reps> <kind> <n> <seed> <alpha> <len>
//        generated input (too large for a protocol line); answer "ok <n>"
//   keyfn <a> <b> <d>            lcpKeyType / lcpKeyDepth / getCharAtDepth (64 and 32 bit)
//   key <depth> <string>         get_key<uint64>/<uint32> of a string at depth
//   classify <kind> <tb> <depth> <samples> <strings>
//        the real classifier class: build(samples) then find_bkt/classify of every
//        string; answer: splitters, splitter_lcp, bucket ids (unrolled == single)
//   step <tb> <depth> <samples> <strings>
//        classifier + the real ps5_sample_sort_lcp on the range whose buckets were
//        sorted by the oracle; answer: bucket bounds and the lcps written at borders
//
// Strings are comma separated hex byte strings, `-` = empty string, `none` = no strings.
// Direct oracle (#VIOL): sorted by unsigned bytes, pointer multiset, brute-force LCP,
// identical answer in every repetition.  ASan/UBSan (or TSan in the tsan build) abort
// = memory-safety / race failure.  hardware_concurrency() is interposed so that the
// public entry points run with the requested number of workers.
#include <fcntl.h>
#include <signal.h>

#include "c04_run.hpp"

unsigned g_hw = 4;
// interposes libstdc++'s definition: the pool size chosen by parallel_sample_sort_base
unsigned int std::thread::hardware_concurrency() noexcept { return g_hw; }

// ------------------------------------------------------------------ death reports
// A sanitizer report or a failed assert() of tlx is turned into a compact `C04-DEATH:` line
// (error kind + innermost frame inside tlx/sort or tlx/thread_pool, without addresses,
// template arguments and line numbers) before the process dies.
static std::string strip_templates(const std::string& f) {
    std::string r; int depth = 0;
    for (char c : f) {
        if (c == '<') ++depth;
        else if (c == '>') { if (depth > 0) --depth; }
        else if (depth == 0) r.push_back(c);
    }
    size_t p;
    while ((p = r.find("tlx::sort_strings_detail::")) != std::string::npos) r.erase(p, 26);
    p = r.find('(');
    if (p != std::string::npos) r.erase(p);
    return r;
}
static void emit_death(const std::string& msg) {
    // stderr: the check (checks/c04.py, crash_message_c04) turns it into the class of the crash
    std::string l = "\nC04-DEATH: " + msg + "\n";
    fflush(stdout);
    (void)!write(2, l.data(), l.size());
}
static std::string frame_in_tlx(const std::string& rep, size_t from, size_t to) {
    size_t pos = from;
    while (pos < to) {
        size_t e = rep.find('\n', pos);
        if (e == std::string::npos) e = rep.size();
        std::string line = rep.substr(pos, e - pos);
        size_t h = line.find("    #"), in = line.find(" in ");
        if (h == 0 && in != std::string::npos) {
            std::string f = line.substr(in + 4);
            // drop the trailing " /file:line" or " (module+0x...)"
            size_t sp = f.rfind(" /");
            if (sp == std::string::npos) sp = f.rfind(" (/");
            if (sp != std::string::npos) f.erase(sp);
            // the function itself (template arguments removed) must belong to the sorter or the pool
            std::string bare; { int d = 0; for (char c : f) { if (c == '<') ++d; else if (c == '>') { if (d) --d; } else if (!d) bare.push_back(c); } }
            if (bare.find("tlx::sort_strings_detail::") != std::string::npos || bare.find("tlx::ThreadPool::") != std::string::npos)
                return strip_templates(f);
        }
        pos = e + 1;
    }
    return "?";
}
#if defined(__SANITIZE_ADDRESS__)
extern "C" void __asan_set_error_report_callback(void (*)(const char*));
static void asan_report(const char* text) {
    std::string rep(text);
    size_t k = rep.find("ERROR: AddressSanitizer: ");
    std::string kind = "error";
    if (k != std::string::npos) { size_t b = k + 25, e = rep.find_first_of(" \n", b); kind = rep.substr(b, e - b); }
    size_t second = rep.find(" by thread", k == std::string::npos ? 0 : k);     // "freed by thread" / "allocated by thread"
    std::string where = frame_in_tlx(rep, 0, second == std::string::npos ? rep.size() : second);
    std::string freed;
    size_t fr = rep.find("freed by thread");
    if (fr != std::string::npos) {
        size_t al = rep.find("previously allocated", fr);
        freed = ", freed in " + frame_in_tlx(rep, fr, al == std::string::npos ? rep.size() : al);
    }
    emit_death("asan " + kind + " in " + where + freed);
}
#endif
#if defined(__SANITIZE_THREAD__)
extern "C" int __tsan_on_finalize(int failed) { return failed; }
#endif
extern "C" void __assert_fail(const char* expr, const char* file, unsigned int, const char* func) noexcept {
    std::string f = func ? func : "?";
    size_t w = f.find(" [with");
    if (w != std::string::npos) f.erase(w);
    size_t sp = f.find("tlx::");
    if (sp != std::string::npos) f.erase(0, sp);
    std::string fl = file ? file : "?";
    size_t t = fl.find("/tlx/");
    if (t != std::string::npos) fl.erase(0, t + 1);
    emit_death(std::string("assertion `") + expr + "' failed in " + strip_templates(f) + " (" + fl + ")");
    abort();
}

static const ParamInfo* find_params(const std::string& n) {
    for (const ParamInfo* tab : {PARAMS_A, PARAMS_B, PARAMS_C, PARAMS_D})
        for (const ParamInfo* p = tab; p->name; ++p) if (n == p->name) return p;
    return nullptr;
}
static bool repr_ok(const ParamInfo* pi, const std::string& r) {
    static const char* R[] = {"uc", "c", "vuc", "vc", "cuc", "cc", "vcuc", "vcc", "s", "vs"};
    for (int i = 0; i < (pi && pi->all_reprs ? 10 : 4); ++i) if (r == R[i]) return true;
    return false;
}

static std::string show_lcp(const RunResult& r, bool with_lcp) {
    if (!with_lcp || r.lcp.size() < 2) return "-";
    std::string s;
    for (size_t i = 1; i < r.lcp.size(); ++i) { if (i > 1) s += ','; s += std::to_string(r.lcp[i]); }
    return s;
}

// ------------------------------------------------------------------ watchdog
// A sort that does not return (broken classification, lost notification, ...) is a
// failure of the property ("terminates").  alarm() cuts the operation off with a `#VIOL`
// line; once that happened (marker file named by $C04_WATCHDOG) the limits become short so
// that a tree on which every sort hangs does not stall the check.
static const char* g_wd_what = "";
static void wd_fire(int) {
    const char* a = "#VIOL sort did not terminate within the time limit [";
    (void)!write(1, a, strlen(a)); (void)!write(1, g_wd_what, strlen(g_wd_what)); (void)!write(1, "]\n", 2);
    if (const char* m = getenv("C04_WATCHDOG")) { int fd = open(m, O_CREAT | O_WRONLY, 0644); if (fd >= 0) close(fd); }
    _exit(91);
}
static void wd_arm(unsigned secs, const char* what) {
    if (const char* m = getenv("C04_WATCHDOG")) if (access(m, F_OK) == 0) secs = secs > 100 ? 60 : 3;
    g_wd_what = what;
    signal(SIGALRM, wd_fire);
    alarm(secs);
}
static void wd_off() { alarm(0); }

static void do_runs(const ParamInfo* pi, const Strs& in, const std::string& repr, unsigned threads, bool with_lcp,
                    unsigned reps, const std::string& what, bool print_order) {
    g_hw = threads;
    RunResult first;
    vh::Rng sh(0x5eed ^ in.size());
    for (unsigned r = 0; r < reps; ++r) {
        RunResult cur = pi->run(in, repr, with_lcp, r == 0 ? nullptr : &sh);
        for (auto& v : cur.viol) vh::viol(v + " [" + what + " rep " + std::to_string(r) + "]");
        if (r == 0) first = cur;
        else if (cur.viol.empty() && first.viol.empty() &&
                 (cur.order != first.order || (with_lcp && !std::equal(cur.lcp.begin() + (cur.lcp.empty() ? 0 : 1), cur.lcp.end(),
                                                                       first.lcp.begin() + (first.lcp.empty() ? 0 : 1)))))
            vh::viol("repetition " + std::to_string(r) + " differs from repetition 0 [" + what + "]");
        if (!cur.viol.empty()) break;
    }
    if (print_order) vh::answer("ok " + show_strs(first.order) + " | " + show_lcp(first, with_lcp));
    else vh::answer("ok " + std::to_string(first.order.size()));
}

// ------------------------------------------------------------------ generated inputs
static Strs gen_big(const std::string& kind, size_t n, uint64_t seed, unsigned alpha, unsigned len) {
    vh::Rng rng(seed);
    Strs v; v.reserve(n);
    if (alpha == 0) alpha = 1;
    auto ch = [&](uint64_t k) { return (char)(alpha >= 255 ? 1 + k % 255 : 'a' + k % alpha); };
    if (kind == "equal") {
        std::string s; for (unsigned i = 0; i < len; ++i) s.push_back(ch(rng.next()));
        v.assign(n, s);
    } else if (kind == "random") {
        for (size_t i = 0; i < n; ++i) { unsigned l = rng.below(len + 1); std::string s; for (unsigned j = 0; j < l; ++j) s.push_back(ch(rng.next())); v.push_back(s); }
    } else if (kind == "prefix") {        // long common prefix, then random tail
        std::string pre(len, 'p');
        for (size_t i = 0; i < n; ++i) { std::string s = pre; unsigned l = rng.below(4); for (unsigned j = 0; j < l; ++j) s.push_back(ch(rng.next())); v.push_back(s); }
    } else if (kind == "chain") {         // a, aa, aaa, ... cyclic
        for (size_t i = 0; i < n; ++i) v.push_back(std::string(i % (len + 1), 'a'));
    } else if (kind == "few") {           // `alpha` distinct strings of length len
        Strs d; for (unsigned k = 0; k < alpha; ++k) { std::string s; for (unsigned j = 0; j < len; ++j) s.push_back('a' + rng.below(3)); d.push_back(s); }
        for (size_t i = 0; i < n; ++i) v.push_back(d[rng.below(d.size())]);
    } else if (kind == "skew") {          // 48% share an 8-byte prefix (one key), the rest is random
        std::string pre(8, 'm');
        for (size_t i = 0; i < n; ++i) {
            std::string s;
            if (rng.below(100) < 48) { s = pre; unsigned l = rng.below(len + 1); for (unsigned j = 0; j < l; ++j) s.push_back(ch(rng.next())); }
            else { unsigned l = rng.below(len + 1); for (unsigned j = 0; j < l; ++j) s.push_back(ch(rng.next())); }
            v.push_back(s);
        }
    } else return Strs();
    return v;
}

// ------------------------------------------------------------------ key helpers / classifier
template <typename Key>
static Key key_of(const std::string& s, size_t depth) {
    // through the real string set code on an exact-size buffer
    std::unique_ptr<unsigned char[]> b(new unsigned char[s.size() + 1]);
    memcpy(b.get(), s.data(), s.size()); b[s.size()] = 0;
    unsigned char* p = b.get();
    ssd::UCharStringSet ss(&p, &p + 1);
    return ssd::get_key<Key>(ss, p, depth);
}

struct StepCtx { typedef uint64_t key_type; static const bool debug_lcp = false; };

template <typename C>
static void classify_with(unsigned depth, const Strs& samples_s, const Strs& strs, bool with_step) {
    typedef uint64_t Key;
    const size_t ns = C::num_splitters, bktnum = 2 * ns + 1;
    if (samples_s.size() != 2 * ns) { vh::answer("bad-op"); return; }
    for (auto& s : samples_s) if (s.size() < depth) { vh::answer("bad-op"); return; }
    for (auto& s : strs) if (s.size() < depth) { vh::answer("bad-op"); return; }
    std::vector<Key> samples;
    for (auto& s : samples_s) samples.push_back(key_of<Key>(s, depth));
    if (!std::is_sorted(samples.begin(), samples.end())) { vh::answer("bad-op"); return; }
    std::unique_ptr<C> cl(new C);
    std::unique_ptr<unsigned char[]> slcp(new unsigned char[ns + 1]);
    cl->build(samples.data(), samples.size(), slcp.get());
    std::ostringstream os;
    os << "ok spl=";
    for (size_t i = 0; i < ns; ++i) os << (i ? "," : "") << cl->get_splitter(i);
    os << " slcp=";
    for (size_t i = 0; i <= ns; ++i) os << (i ? "," : "") << unsigned(slcp[i]);
    // strings through classify() (unrolled path) and find_bkt() (single path)
    size_t n = strs.size();
    std::vector<std::unique_ptr<unsigned char[]> > store(n);
    std::unique_ptr<unsigned char*[]> arr(new unsigned char*[n ? n : 1]);
    for (size_t i = 0; i < n; ++i) {
        store[i].reset(new unsigned char[strs[i].size() + 1]);
        memcpy(store[i].get(), strs[i].data(), strs[i].size()); store[i][strs[i].size()] = 0;
        arr[i] = store[i].get();
    }
    ssd::UCharStringSet ss(arr.get(), arr.get() + n);
    std::unique_ptr<uint16_t[]> bk(new uint16_t[n ? n : 1]);
    cl->classify(ss, ss.begin(), ss.end(), bk.get(), depth);
    os << " bkt=";
    for (size_t i = 0; i < n; ++i) {
        unsigned single = cl->find_bkt(key_of<Key>(strs[i], depth));
        if (single != bk[i]) vh::viol("classify() and find_bkt() disagree on string " + std::to_string(i));
        if (bk[i] >= bktnum) vh::viol("bucket id out of range");
        os << (i ? "," : "") << bk[i];
    }
    if (n == 0) os << "-";
    // direct oracle: bucket ids are monotone in the key; equal bucket <=> key is a splitter
    for (size_t i = 0; i < n; ++i) for (size_t j = 0; j < n; ++j) {
        Key a = key_of<Key>(strs[i], depth), b = key_of<Key>(strs[j], depth);
        if (a < b && bk[i] > bk[j]) { vh::viol("classification not monotone in the key"); i = n; break; }
        if (a == b && bk[i] != bk[j]) { vh::viol("equal keys in different buckets"); i = n; break; }
    }
    if (with_step) {
        // the range as the sort step leaves it once every bucket is sorted: bucket bounds
        // by counting, strings sorted (stable by bucket == fully sorted, checked), lcps
        // inside buckets pre-filled by brute force, border lcps written by the real
        // ps5_sample_sort_lcp.
        std::vector<size_t> bkt(bktnum + 1, 0);
        for (size_t i = 0; i < n; ++i) ++bkt[bk[i] + 1];
        for (size_t b = 0; b < bktnum; ++b) bkt[b + 1] += bkt[b];
        std::vector<size_t> idx(n);
        for (size_t i = 0; i < n; ++i) idx[i] = i;
        std::stable_sort(idx.begin(), idx.end(), [&](size_t x, size_t y) { return ult(strs[x], strs[y]); });
        std::unique_ptr<unsigned char*[]> sorted(new unsigned char*[n ? n : 1]);
        for (size_t i = 0; i < n; ++i) sorted[i] = arr[idx[i]];
        for (size_t i = 0; i + 1 < n; ++i)
            if (bk[idx[i]] > bk[idx[i + 1]]) { vh::viol("sorting inside buckets does not sort the range"); break; }
        std::unique_ptr<uint32_t[]> lcp(new uint32_t[n ? n : 1]);
        for (size_t i = 0; i < n; ++i) lcp[i] = LCP_SENTINEL;
        ssd::UCharStringSet so(sorted.get(), sorted.get() + n);
        ssd::StringShadowLcpPtr<ssd::UCharStringSet, uint32_t> sp(so, so, lcp.get());
        StepCtx ctx;
        if (n > 0) {
            // ps5_sample_sort_lcp is instantiated with a compile-time bucket count
            ssd::ps5_sample_sort_lcp<2 * C::num_splitters + 1>(ctx, *cl, sp, depth, bkt.data());
        }
        os << " bounds=";
        for (size_t b = 0; b <= bktnum; ++b) os << (b ? "," : "") << bkt[b];
        os << " border=";
        bool any = false;
        for (size_t i = 0; i < n; ++i) {
            if (lcp[i] == LCP_SENTINEL) continue;
            os << (any ? "," : "") << i << ":" << lcp[i]; any = true;
            if (i == 0 || bk[idx[i]] == bk[idx[i - 1]]) vh::viol("lcp written inside a bucket / at position 0");
            else if (lcp[i] != lcp_of(strs[idx[i - 1]], strs[idx[i]]))
                vh::viol("border lcp[" + std::to_string(i) + "]=" + std::to_string(lcp[i]) + " wrong, neighbours share " +
                         std::to_string(lcp_of(strs[idx[i - 1]], strs[idx[i]])));
        }
        if (!any) os << "-";
        for (size_t i = 1; i < n; ++i)
            if (bk[idx[i]] != bk[idx[i - 1]] && lcp[i] == LCP_SENTINEL) { vh::viol("border lcp at " + std::to_string(i) + " not written"); break; }
    }
    vh::answer(os.str());
}

static void do_classify(const std::vector<std::string>& t, bool with_step) {
    // classify <kind> <tb> <depth> <samples> <strings>  /  step <kind> <tb> <depth> <samples> <strings>
    if (t.size() != 6) { vh::answer("bad-op"); return; }
    int kind = atoi(t[1].c_str()), tb = atoi(t[2].c_str());
    unsigned depth = atoi(t[3].c_str());
    Strs samples, strs;
    if (!parse_strs(t[4], samples) || !parse_strs(t[5], strs)) { vh::answer("bad-op"); return; }
#define CASE(K, TB, CL) if (kind == K && tb == TB) { classify_with<CL<uint64_t, TB> >(depth, samples, strs, with_step); return; }
    CASE(0, 1, ssd::SSClassifyTreeCalcUnrollInterleave)
    CASE(0, 2, ssd::SSClassifyTreeCalcUnrollInterleave)
    CASE(0, 3, ssd::SSClassifyTreeCalcUnrollInterleave)
    CASE(1, 2, ssd::SSClassifyTreeUnrollInterleave)
    CASE(1, 3, ssd::SSClassifyTreeUnrollInterleave)
#undef CASE
    vh::answer("bad-op");
}

int main(int argc, char** argv) {
#if defined(__SANITIZE_ADDRESS__)
    __asan_set_error_report_callback(asan_report);
#endif
    if (argc < 2 || std::string(argv[1]) != "run") { std::cerr << "usage: c04 run\n"; return 2; }
    std::string line;
    Strs input;                       // strings of the current case (`s` lines)
    std::string prefix;               // `px`: common prefix of the following `s` strings
    const ParamInfo* cfg_pi = nullptr;
    std::string cfg_repr, cfg_name;
    unsigned cfg_threads = 1, cfg_reps = 1;
    bool cfg_lcp = false;
    while (std::getline(std::cin, line)) {
        auto t = vh::tokens(line);
        if (t.empty()) { vh::answer(""); continue; }
        if (t[0][0] == '#') { vh::answer(line); continue; }
        if (t[0] == "case") { input.clear(); prefix.clear(); cfg_pi = nullptr; vh::answer("case"); continue; }
        if (t[0] == "px" && t.size() == 3) {
            // px <pattern> <len>: the following strings start with the pattern repeated up to <len> characters
            Strs pat; size_t len = strtoull(t[2].c_str(), nullptr, 10);
            if (!parse_strs(t[1], pat) || pat.size() != 1 || pat[0].empty() || t[1] == "none" || len > 100000) { vh::answer("bad-op"); continue; }
            prefix.clear();
            while (prefix.size() < len) prefix += pat[0];
            prefix.resize(len);
            vh::answer("ok"); continue;
        }
        if (t[0] == "cfg" && t.size() == 6) {
            // cfg <params> <repr> <threads> <lcp> <reps>
            cfg_pi = find_params(t[1]);
            cfg_threads = atoi(t[3].c_str()); cfg_reps = atoi(t[5].c_str());
            if (!cfg_pi || !repr_ok(cfg_pi, t[2]) || cfg_threads < 1 || cfg_threads > 16 || cfg_reps < 1 || (t[4] != "0" && t[4] != "1")) {
                cfg_pi = nullptr; vh::answer("bad-op"); continue;
            }
            cfg_repr = t[2]; cfg_lcp = (t[4] == "1"); cfg_name = t[1] + "/" + t[2] + "/" + t[3] + "thr";
            vh::answer("ok");
        } else if (t[0] == "s" && (t.size() == 2 || t.size() == 3)) {
            // s <string> [count]: append the string (count times) to the input of this case
            Strs one;
            size_t cnt = t.size() == 3 ? strtoull(t[2].c_str(), nullptr, 10) : 1;
            if (!parse_strs(t[1], one) || one.size() != 1 || t[1] == "none" || cnt < 1 || cnt > 100000) { vh::answer("bad-op"); continue; }
            for (size_t i = 0; i < cnt; ++i) input.push_back(prefix + one[0]);
            vh::answer("ok");
        } else if (t[0] == "go" && t.size() == 1) {
            if (!cfg_pi) { vh::answer("bad-op"); continue; }
            wd_arm(45, cfg_name.c_str());
            do_runs(cfg_pi, input, cfg_repr, cfg_threads, cfg_lcp, cfg_reps, cfg_name, true);
            wd_off();
        } else if (t[0] == "big" && t.size() == 11) {
            const ParamInfo* pi = find_params(t[1]);
            unsigned threads = atoi(t[3].c_str()), reps = atoi(t[5].c_str());
            size_t n = strtoull(t[7].c_str(), nullptr, 10);
            Strs in = gen_big(t[6], n, strtoull(t[8].c_str(), nullptr, 10), atoi(t[9].c_str()), atoi(t[10].c_str()));
            if (!pi || !repr_ok(pi, t[2]) || threads < 1 || threads > 16 || reps < 1 || (t[4] != "0" && t[4] != "1") || in.size() != n || n == 0) {
                vh::answer("bad-op"); continue;
            }
            wd_arm(600, "big");
            do_runs(pi, in, t[2], threads, t[4] == "1", reps, t[1] + "/" + t[2] + "/" + t[3] + "thr/" + t[6], false);
            wd_off();
        } else if (t[0] == "keyfn" && t.size() == 4) {
            uint64_t a = strtoull(t[1].c_str(), nullptr, 10), b = strtoull(t[2].c_str(), nullptr, 10);
            unsigned d = atoi(t[3].c_str());
            if (d > 7) { vh::answer("bad-op"); continue; }
            std::ostringstream os;
            os << "ok " << unsigned(ssd::lcpKeyType<uint64_t>(a, b)) << " " << unsigned(ssd::lcpKeyDepth<uint64_t>(a)) << " "
               << unsigned(ssd::getCharAtDepth<uint64_t>(a, d));
            uint32_t a4 = uint32_t(a), b4 = uint32_t(b);
            os << " " << unsigned(ssd::lcpKeyType<uint32_t>(a4, b4)) << " " << unsigned(ssd::lcpKeyDepth<uint32_t>(a4)) << " "
               << unsigned(ssd::getCharAtDepth<uint32_t>(a4, d & 3));
            vh::answer(os.str());
        } else if (t[0] == "key" && t.size() == 3) {
            Strs s; unsigned depth = atoi(t[1].c_str());
            if (!parse_strs(t[2], s) || s.size() != 1 || depth > s[0].size()) { vh::answer("bad-op"); continue; }
            std::ostringstream os;
            os << "ok " << key_of<uint64_t>(s[0], depth) << " " << key_of<uint32_t>(s[0], depth);
            vh::answer(os.str());
        } else if (t[0] == "classify") {
            do_classify(t, false);
        } else if (t[0] == "step") {
            do_classify(t, true);
        } else {
            vh::answer("bad-op");
        }
    }
    return 0;
}
