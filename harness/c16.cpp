// C16 harness: tlx::RingBuffer<Tracked> and tlx::SimpleVector<Tracked> behind the
// line protocol (see lean/Driver/C16.lean for the operation list).
// Answer = "<ret> ; <dump r0> ; <dump r1> ; <dump r2>".  The dump shows the
// private cursors and, from the lifetime ledger, which slots of data_ hold a
// live element object.  Direct oracle: a std::deque per register, the ledger's
// error list, and live-object counts.
#include <algorithm>
#include <cassert>
#include <cstring>
#include <deque>
#include <memory>
#include <vector>

#include "common.hpp"

#define private public
#include <tlx/container/ring_buffer.hpp>
#include <tlx/container/simple_vector.hpp>
#undef private

using vh::Tracked;
using RB = tlx::RingBuffer<Tracked>;
using SV = tlx::SimpleVector<Tracked>;

static RB* rb[3];
alignas(RB) static unsigned char rb_store[3][sizeof(RB)];
static std::deque<long long> ref[3];
static bool has_ref[3];

static SV* sv[3];
alignas(SV) static unsigned char sv_store[3][sizeof(SV)];

static std::string elem(const Tracked& t) {
    return t.is_alive() ? std::to_string(t.val) : std::string("!");
}

static std::string dump_rb(int i) {
    if (!rb[i]) return "-";
    RB& r = *rb[i];
    std::ostringstream os;
    os << "max=" << r.max_size_ << " cap=" << r.capacity_ << " mask=" << r.mask_
       << " data=" << (r.data_ ? 1 : 0) << " b=" << r.begin_ << " e=" << r.end_ << " alive=[";
    if (r.data_)
        for (size_t k = 0; k < r.capacity_; ++k) os << (vh::Ledger::get().alive.count(r.data_ + k) ? '1' : '0');
    os << "] vals=[";
    size_t n = r.size();
    for (size_t k = 0; k < n && k < 64; ++k) {
        if (k) os << ',';
        os << (r.data_ ? elem(r[k]) : std::string("!"));
    }
    os << "]";
    return os.str();
}

static std::string dump_all() {
    return dump_rb(0) + " ; " + dump_rb(1) + " ; " + dump_rb(2);
}

static void oracle_rb(const std::string& op) {
    auto& L = vh::Ledger::get();
    for (auto& e : L.errors) vh::viol("ringbuffer lifetime: " + e + " after " + op);
    L.errors.clear();
    size_t live_expected = 0;
    for (int i = 0; i < 3; ++i) {
        if (!rb[i]) continue;
        RB& r = *rb[i];
        if (r.size() != ref[i].size()) {
            vh::viol("ringbuffer size " + std::to_string(r.size()) + " != deque " + std::to_string(ref[i].size()) + " after " + op);
            continue;
        }
        if (r.empty() != ref[i].empty()) vh::viol("ringbuffer empty() wrong after " + op);
        for (size_t k = 0; k < ref[i].size(); ++k) {
            if (!r[k].is_alive() || r[k].val != ref[i][k]) {
                vh::viol("ringbuffer element " + std::to_string(k) + " is " + elem(r[k]) + " deque has " + std::to_string(ref[i][k]) + " after " + op);
                break;
            }
        }
        if (!ref[i].empty()) {
            if (!r.front().is_alive() || r.front().val != ref[i].front()) vh::viol("ringbuffer front() wrong after " + op);
            if (!r.back().is_alive() || r.back().val != ref[i].back()) vh::viol("ringbuffer back() wrong after " + op);
        }
        live_expected += ref[i].size();
    }
    for (int i = 0; i < 3; ++i)
        if (sv[i]) live_expected += sv[i]->size();
    if (L.alive.size() != live_expected)
        vh::viol("live element objects " + std::to_string(L.alive.size()) + " != stored elements " + std::to_string(live_expected) + " after " + op);
}

static std::string dump_sv(int i) {
    if (!sv[i]) return "-";
    SV& v = *sv[i];
    std::ostringstream os;
    os << "size=" << v.size_ << " ";
    if (!v.array_) { os << "null"; return os.str(); }
    os << "[";
    for (size_t k = 0; k < v.size_; ++k) { if (k) os << ','; os << elem(v[k]); }
    os << "]";
    return os.str();
}

static void do_rb(const std::vector<std::string>& t, const std::string& line) {
    const std::string& op = t[0];
    if (t.size() < 2) { vh::answer("bad-op"); return; }
    int r = std::stoi(t[1]);
    std::string ret = "ok";
    long long a = t.size() > 2 ? std::stoll(t[2]) : 0;
    // documented preconditions; an operation that violates them is not executed
    {
        bool ok = r >= 0 && r < 3;
        bool two = (op == "copyctor" || op == "movector" || op == "assign" || op == "massign");
        if (ok && two) ok = a >= 0 && a < 3 && rb[a] != nullptr;
        if (ok && (op == "new" || op == "copyctor" || op == "movector")) ok = rb[r] == nullptr && (op == "new" || a != r);
        else if (ok) ok = rb[r] != nullptr;
        if (ok && op == "copyctor") ok = rb[a]->data_ != nullptr;
        if (ok && (op == "pushb" || op == "pushf" || op == "emplb" || op == "emplf"))
            ok = rb[r]->data_ && ref[r].size() + 1 <= rb[r]->max_size_;
        if (ok && (op == "popf" || op == "popb" || op == "front" || op == "back")) ok = rb[r]->data_ && !ref[r].empty();
        if (ok && op == "at") ok = rb[r]->data_ && a >= 0 && static_cast<size_t>(a) < ref[r].size();
        if (ok && op == "alloc") ok = rb[r]->data_ == nullptr && a >= 0;
        if (ok && op == "new") ok = a >= 0;
        if (!ok) { vh::answer("bad-op"); return; }
    }
    if (op == "new") {
        rb[r] = new (rb_store[r]) RB(static_cast<size_t>(a));
        ref[r].clear();
    }
    else if (op == "pushb") { Tracked x(a); rb[r]->push_back(x); ref[r].push_back(a); }
    else if (op == "pushf") { Tracked x(a); rb[r]->push_front(x); ref[r].push_front(a); }
    else if (op == "emplb") { rb[r]->emplace_back(a); ref[r].push_back(a); }
    else if (op == "emplf") { rb[r]->emplace_front(a); ref[r].push_front(a); }
    else if (op == "popf") { rb[r]->pop_front(); ref[r].pop_front(); }
    else if (op == "popb") { rb[r]->pop_back(); ref[r].pop_back(); }
    else if (op == "clear") { rb[r]->clear(); ref[r].clear(); }
    else if (op == "front") ret = elem(rb[r]->front());
    else if (op == "back") ret = elem(rb[r]->back());
    else if (op == "at") ret = elem((*rb[r])[static_cast<size_t>(a)]);
    else if (op == "size") ret = std::to_string(rb[r]->size());
    else if (op == "empty") ret = rb[r]->empty() ? "1" : "0";
    else if (op == "alloc") { rb[r]->allocate(static_cast<size_t>(a)); }
    else if (op == "dealloc") { rb[r]->deallocate(); ref[r].clear(); }
    else if (op == "copyctor") { rb[r] = new (rb_store[r]) RB(*rb[a]); ref[r] = ref[a]; }
    else if (op == "movector") { rb[r] = new (rb_store[r]) RB(std::move(*rb[a])); ref[r] = ref[a]; ref[a].clear(); }
    else if (op == "assign") { *rb[r] = *rb[a]; if (r != a) ref[r] = ref[a]; }
    else if (op == "massign") { *rb[r] = std::move(*rb[a]); if (r != a) { ref[r] = ref[a]; ref[a].clear(); } }
    else if (op == "copyto") {
        std::vector<Tracked> out; rb[r]->copy_to(&out);
        std::vector<long long> v; for (auto& x : out) v.push_back(x.val);
        ret = "[" + (v.empty() ? std::string() : vh::show_csv(v)) + "]";
    }
    else if (op == "moveto") {
        std::vector<Tracked> out; rb[r]->move_to(&out);
        std::vector<long long> v; for (auto& x : out) v.push_back(x.val);
        ret = "[" + (v.empty() ? std::string() : vh::show_csv(v)) + "]";
        ref[r].clear();
    }
    else if (op == "dtor") { rb[r]->~RB(); rb[r] = nullptr; ref[r].clear(); }
    else { vh::answer("bad-op"); return; }
    vh::answer(ret + " ; " + dump_all());
    oracle_rb(line);
}

static void do_sv(const std::vector<std::string>& t, const std::string& line) {
    // t[0] == "sv"
    auto& L = vh::Ledger::get();
    uint64_t c0 = L.constructed, d0 = L.destroyed;
    if (t.size() < 3) { vh::answer("bad-op"); return; }
    const std::string& op = t[1];
    int r = std::stoi(t[2]);
    std::string ret = "ok";
    long long a = t.size() > 3 ? std::stoll(t[3]) : 0;
    long long b = t.size() > 4 ? std::stoll(t[4]) : 0;
    {
        bool ok = r >= 0 && r < 3;
        bool two = (op == "swap" || op == "movector" || op == "massign");
        if (ok && two) ok = a >= 0 && a < 3 && sv[a] != nullptr;
        if (ok && (op == "new" || op == "movector" || op == "tnew")) ok = sv[r] == nullptr && (op != "movector" || a != r) && a >= 0;
        else if (ok) ok = sv[r] != nullptr;
        if (ok && (op == "set" || op == "get")) ok = a >= 0 && static_cast<size_t>(a) < sv[r]->size();
        if (ok && (op == "resize" || op == "tresize")) ok = a >= 0;
        if (ok && (op == "tnew" || op == "tresize")) ok = b >= 1;
        if (!ok) { vh::answer("bad-op"); return; }
    }
    uint64_t adj = 0;  // temporaries created by the harness itself
    if (op == "new") sv[r] = new (sv_store[r]) SV(static_cast<size_t>(a));
    else if (op == "resize") sv[r]->resize(static_cast<size_t>(a));
    else if (op == "tnew") {
        // construction of the b-th element throws: the constructor must not leave anything behind
        L.throw_countdown = b;
        try { sv[r] = new (sv_store[r]) SV(static_cast<size_t>(a)); }
        catch (const std::runtime_error&) { sv[r] = new (sv_store[r]) SV(); ret = "threw"; }
        L.throw_countdown = -1;
    }
    else if (op == "tresize") {
        L.throw_countdown = b;
        try { sv[r]->resize(static_cast<size_t>(a)); }
        catch (const std::runtime_error&) { ret = "threw"; }
        L.throw_countdown = -1;
    }
    else if (op == "destroy") sv[r]->destroy();
    else if (op == "dtor") { sv[r]->~SV(); sv[r] = nullptr; }
    else if (op == "fill") { Tracked x(a); sv[r]->fill(x); adj = 1; }
    else if (op == "set") { (*sv[r])[static_cast<size_t>(a)].val = b; }
    else if (op == "get") ret = elem((*sv[r])[static_cast<size_t>(a)]);
    else if (op == "size") ret = std::to_string(sv[r]->size());
    else if (op == "swap") sv[r]->swap(*sv[a]);
    else if (op == "movector") sv[r] = new (sv_store[r]) SV(std::move(*sv[a]));
    else if (op == "massign") *sv[r] = std::move(*sv[a]);
    else { vh::answer("bad-op"); return; }
    std::ostringstream os;
    os << ret << " +" << (L.constructed - c0 - adj) << " -" << (L.destroyed - d0 - adj) << " ; "
       << dump_sv(0) << " ; " << dump_sv(1) << " ; " << dump_sv(2);
    vh::answer(os.str());
    for (auto& e : L.errors) vh::viol("simplevector lifetime: " + e + " after " + line);
    L.errors.clear();
    oracle_rb(line);
}

static void end_case() {
    for (int i = 0; i < 3; ++i) {
        if (rb[i]) { rb[i]->~RB(); rb[i] = nullptr; }
        if (sv[i]) { sv[i]->~SV(); sv[i] = nullptr; }
        ref[i].clear();
    }
    auto& L = vh::Ledger::get();
    for (auto& e : L.errors) vh::viol("lifetime at destruction: " + e);
    if (!L.alive.empty()) vh::viol("elements still alive after destroying all containers: " + std::to_string(L.alive.size()));
    L.reset();
}

int main(int argc, char** argv) {
    std::string line;
    bool in_case = false;
    while (std::getline(std::cin, line)) {
        auto t = vh::tokens(line);
        if (t.empty()) { vh::answer(""); continue; }
        if (t[0][0] == '#') { vh::answer(line); continue; }
        if (t[0] == "case") {
            if (in_case) end_case();
            in_case = true;
            vh::answer("case");
            continue;
        }
        if (t[0] == "sv") do_sv(t, line);
        else do_rb(t, line);
    }
    if (in_case) end_case();
    return 0;
}
