// C09 harness: the eight tlx loser tree classes behind the line protocol.
//
//   new <variant> <cmp> <k> <sentinel|-> <seq0> ... <seq(k-1)>
//        variant = [c|p][g|u][u|s]  copy/pointer, guarded/unguarded, unstable/stable
//        cmp     = lt | gt | q4      a<b, a>b, a/4<b/4 (equivalence coarser than equality)
//        seq     = csv of the keys player i will present, '-' = none (starts exhausted)
//   ctor <named|temp|mutate|factory>   (before init) how the comparator is handed to the constructor, see Session::ctor
//   storage <array|slot|fresh>   (before init) where the keys handed to the tree live, see Session::storage
//   init [perm] insert_start(head or sup) for every player in the order `perm` (csv permutation of
//               0..k-1, default ascending), then init()
//   replace     delete_min_insert(winner's next key, or sup when it has none)
//
// Answer of init/replace: "w=<min_source> T=[<losers_[0]> ... <losers_[k_-1]>]", an entry is
// "<source>:<key>" or "<source>:S" for a supremum (source -1 = invalid_).  The losers_ array is
// read through the exposed protected member, so the comparison with the model is structural.
//
// Preconditions (answered bad-op, not executed): replace needs a live winner (guarded) /
// a winner whose sequence has a next key (unguarded: "no player runs out"); unguarded trees need
// non-empty sequences and a sentinel.
//
// Direct oracle (#VIOL): the reported winner is a live player whose key is not greater than any
// live key, never an exhausted player while a live one remains, smallest index among equivalent
// keys for the stable classes.  Unguarded trees: the padding players (key = sentinel) take part;
// a padding winner (invalid_) is accepted only when no real key is smaller than the sentinel
// (unstable) / every real key is greater than it (stable) -- in particular never when the
// sentinel is strictly greater than every key, nor (stable) when it is not smaller than any.
#include <algorithm>
#include <cassert>
#include <cstddef>
#include <cstdint>
#include <functional>
#include <memory>
#include <type_traits>
#include <utility>
#include <vector>

#include <sys/time.h>

#include "common.hpp"

#define private public
#define protected public
#include <tlx/container/loser_tree.hpp>
#undef protected
#undef private

struct K8 { int v; K8() : v(0) {} explicit K8(long long x) : v(static_cast<int>(x)) {} };
struct K40 {
    long long v; char pad[32];
    K40() : v(0) { pad[0] = 0; }
    explicit K40(long long x) : v(x) { pad[0] = 1; }
};
static_assert(sizeof(K8) <= 2 * sizeof(size_t), "copy-sized");
static_assert(sizeof(K40) > 2 * sizeof(size_t), "pointer-sized");

// A STATEFUL comparator: the order lives in an own heap cell.  Copies are deep; the destructor
// scribbles over the cell before releasing it, so a tree that merely aliases the comparator it was
// constructed with (instead of owning a copy) replays with a garbage order / trips ASan as soon as
// the caller's object is gone, and follows the caller's later modifications.
template <typename K>
struct Cmp {
    int* st;
    explicit Cmp(int m = 0) : st(new int(m)) {}
    Cmp(const Cmp& o) : st(new int(*o.st)) {}
    Cmp& operator=(const Cmp& o) { *st = *o.st; return *this; }
    ~Cmp() { *st = 0x5a5a5a5a; delete st; }
    int mode() const { return *st; }
    void set(int m) { *st = m; }
    bool operator()(const K& a, const K& b) const {
        switch (*st) {
        case 0: return a.v < b.v;
        case 1: return a.v > b.v;
        case 2: return (a.v >> 2) < (b.v >> 2);
        default: return a.v == 12345;      // scribbled state: no order at all
        }
    }
};

static const uint32_t INVALID = uint32_t(-1);

static std::string src_str(uint32_t s) { return s == INVALID ? std::string("-1") : std::to_string(s); }

// ---- entry printers for the four Loser layouts
template <typename L>
auto entry_str(const L& e, int) -> decltype(e.sup, e.key, std::string()) {
    // copy guarded classes: the key member of a supremum node is shown too (first_insert_ fill)
    return src_str(e.source) + ":" + (e.sup ? "S/" + std::to_string(e.key.v) : std::to_string(e.key.v));
}
template <typename L>
auto entry_str(const L& e, long) -> decltype(e.keyp, std::string()) {
    return src_str(e.source) + ":" + (e.keyp ? std::to_string(e.keyp->v) : std::string("S"));
}
template <typename L>
auto entry_str(const L& e, long long) -> decltype(e.key, std::string()) {
    return src_str(e.source) + ":" + std::to_string(e.key.v);
}

struct ITree {
    virtual ~ITree() {}
    virtual void insert_start(const void* keyp, uint32_t source, bool sup) = 0;
    virtual void init() = 0;
    virtual void dmi(const void* keyp, bool sup) = 0;
    virtual uint32_t raw_source() = 0;      // losers_[0].source
    virtual bool raw_sup() = 0;             // losers_[0] is a supremum (guarded only)
    virtual uint32_t min_source() = 0;
    virtual std::string dump() = 0;
};

template <typename T, typename K, bool Guarded>
struct TreeW : ITree {
    T t;
    template <typename... A>
    explicit TreeW(A&&... a) : t(std::forward<A>(a)...) {}
    void insert_start(const void* p, uint32_t s, bool sup) override { t.insert_start(static_cast<const K*>(p), s, sup); }
    void init() override { t.init(); }
    void dmi(const void* p, bool sup) override { t.delete_min_insert(static_cast<const K*>(p), sup); }
    uint32_t raw_source() override { return t.losers_[0].source; }
    template <typename L> static auto is_sup(const L& e, int) -> decltype(e.sup, bool()) { return e.sup; }
    template <typename L> static auto is_sup(const L& e, long) -> decltype(e.keyp, bool()) { return e.keyp == nullptr; }
    template <typename L> static bool is_sup(const L&, ...) { return false; }
    bool raw_sup() override { return Guarded ? is_sup(t.losers_[0], 0) : false; }
    uint32_t min_source() override { return t.min_source(); }
    std::string dump() override {
        if (t.k_ > 256) return "#" + std::to_string(t.k_);     // huge trees: only the size
        std::string s = "[";
        for (uint32_t i = 0; i < t.k_; ++i) { if (i) s += ' '; s += entry_str(t.losers_[i], 0); }
        return s + "]";
    }
};

struct SessionBase {
    virtual ~SessionBase() {}
    virtual void init(const std::vector<long long>& order) = 0;
    virtual void replace() = 0;
    virtual bool set_storage(const std::string& m) = 0;
    virtual bool set_ctor(const std::string& m) = 0;
};

template <typename K>
struct Session : SessionBase {
    bool copy, guarded, stable;
    Cmp<K> cmp;
    uint32_t k;
    bool has_sentinel = false;
    K sentinel;
    std::vector<std::vector<K> > seqs;
    std::vector<size_t> pos;     // index of the current key of player i (== size: exhausted)
    std::unique_ptr<ITree> tree;
    bool inited = false;

    // Where the key handed to the tree lives (the tree classes only get `const ValueType*`):
    //   0 array : in the player's key array; consumed keys stay readable (as in multiway_merge)
    //   1 slot  : each player has ONE head slot that is overwritten in place with its next key
    //             before delete_min_insert(&slot) is called (a refilled buffer head)
    //   2 fresh : every key is an own heap object that is freed as soon as it is consumed, so any
    //             read of a consumed key is an ASan use-after-free
    int storage = 0;
    std::vector<K> slots;
    std::vector<K*> cells;
    ~Session() { tree.reset(); for (K* c : cells) delete c; }

    bool live(uint32_t i) const { return pos[i] < seqs[i].size(); }
    const K& cur(uint32_t i) const { return seqs[i][pos[i]]; }          // by value, for the oracle
    // make player i's current key available to the tree (called whenever pos[i] changed)
    void load(uint32_t i) {
        if (storage == 1) {
            if (slots.size() != k) slots.assign(k, K(424242));
            slots[i] = live(i) ? cur(i) : K(424242);
        }
        else if (storage == 2) {
            if (cells.size() != k) cells.assign(k, nullptr);
            delete cells[i];
            cells[i] = live(i) ? new K(cur(i)) : nullptr;
        }
    }
    const K* keyptr(uint32_t i) const {
        if (storage == 1) return &slots[i];
        if (storage == 2) return cells[i];
        return &seqs[i][pos[i]];
    }
    bool set_storage(const std::string& m) override {
        if (inited) return false;
        if (m == "array") storage = 0; else if (m == "slot") storage = 1; else if (m == "fresh") storage = 2; else return false;
        return true;
    }
    bool any_live() const { for (uint32_t i = 0; i < k; ++i) if (live(i)) return true; return false; }
    bool pow2() const { return (k & (k - 1)) == 0; }

    // How the tree gets its comparator (the classes take `const Comparator&` and must own a copy):
    //   0 named   : a named object that stays alive and unchanged
    //   1 temp    : a temporary, destroyed (and scribbled over) right after the constructor
    //   2 mutate  : a named object that the caller switches to another order after construction
    //   3 factory : a function-local comparator; the function returns the tree
    // The oracle always uses the ORIGINAL order.
    int ctor = 0;
    std::unique_ptr<Cmp<K> > scratch;
    bool set_ctor(const std::string& m) override {
        if (inited) return false;
        if (m == "named") ctor = 0; else if (m == "temp") ctor = 1; else if (m == "mutate") ctor = 2;
        else if (m == "factory") ctor = 3; else return false;
        return true;
    }
    template <typename T, bool G, typename... A>
    static ITree* factory(int m, A&... a) { Cmp<K> local(m); return new TreeW<T, K, G>(a..., local); }
    template <typename T, bool G, typename... A>
    void build(A&... a) {
        int m = cmp.mode();
        switch (ctor) {
        case 1: tree.reset(new TreeW<T, K, G>(a..., Cmp<K>(m))); break;
        case 2:
            scratch.reset(new Cmp<K>(m));
            tree.reset(new TreeW<T, K, G>(a..., *scratch));
            scratch->set((m + 1) % 3);
            break;
        case 3: tree.reset(factory<T, G>(m, a...)); break;
        default: tree.reset(new TreeW<T, K, G>(a..., cmp)); break;
        }
    }
    void make_tree() {
        if (copy && guarded && !stable) build<tlx::LoserTreeCopy<false, K, Cmp<K> >, true>(k);
        if (copy && guarded && stable) build<tlx::LoserTreeCopy<true, K, Cmp<K> >, true>(k);
        if (!copy && guarded && !stable) build<tlx::LoserTreePointer<false, K, Cmp<K> >, true>(k);
        if (!copy && guarded && stable) build<tlx::LoserTreePointer<true, K, Cmp<K> >, true>(k);
        if (copy && !guarded && !stable) build<tlx::LoserTreeCopyUnguarded<false, K, Cmp<K> >, false>(k, sentinel);
        if (copy && !guarded && stable) build<tlx::LoserTreeCopyUnguarded<true, K, Cmp<K> >, false>(k, sentinel);
        if (!copy && !guarded && !stable) build<tlx::LoserTreePointerUnguarded<false, K, Cmp<K> >, false>(k, sentinel);
        if (!copy && !guarded && stable) build<tlx::LoserTreePointerUnguarded<true, K, Cmp<K> >, false>(k, sentinel);
    }

    void oracle(const char* after) {
        uint32_t w = tree->raw_source();
        bool wsup = tree->raw_sup();
        std::string ctx = std::string(" after ") + after + " variant=" + (copy ? "c" : "p") + (guarded ? "g" : "u") + (stable ? "s" : "u") + " k=" + std::to_string(k);
        if (guarded) {
            if (!any_live()) return;
            if (wsup || w >= k || !live(w)) { vh::viol("winner " + src_str(w) + " is exhausted/invalid while a live player remains" + ctx); return; }
            if (tree->min_source() != w) vh::viol("min_source() differs from losers_[0].source for a live winner" + ctx);
            for (uint32_t j = 0; j < k; ++j) {
                if (!live(j)) continue;
                if (cmp(cur(j), cur(w))) { vh::viol("winner " + std::to_string(w) + " key " + std::to_string(cur(w).v) + " is greater than live player " + std::to_string(j) + " key " + std::to_string(cur(j).v) + ctx); return; }
                if (stable && j < w && !cmp(cur(w), cur(j))) { vh::viol("stable tree reports " + std::to_string(w) + " but player " + std::to_string(j) + " holds an equivalent key" + ctx); return; }
            }
            return;
        }
        // unguarded: every real player is live here
        bool padding = !pow2();
        if (w == INVALID) {
            bool ok = padding;
            for (uint32_t j = 0; ok && j < k; ++j)
                ok = stable ? cmp(sentinel, cur(j)) : !cmp(cur(j), sentinel);
            if (!ok) vh::viol("unguarded tree reports the padding player although a real key is not above the sentinel" + ctx);
            return;
        }
        if (w >= k) { vh::viol("winner out of range " + std::to_string(w) + ctx); return; }
        if (tree->min_source() != w) vh::viol("min_source() differs from losers_[0].source" + ctx);
        if (padding && cmp(sentinel, cur(w))) { vh::viol("unguarded winner is greater than the sentinel padding" + ctx); return; }
        for (uint32_t j = 0; j < k; ++j) {
            if (cmp(cur(j), cur(w))) { vh::viol("winner " + std::to_string(w) + " key " + std::to_string(cur(w).v) + " is greater than player " + std::to_string(j) + " key " + std::to_string(cur(j).v) + ctx); return; }
            if (stable && j < w && !cmp(cur(w), cur(j))) { vh::viol("stable tree reports " + std::to_string(w) + " but player " + std::to_string(j) + " holds an equivalent key" + ctx); return; }
        }
    }

    std::string state() {
        uint32_t w = tree->raw_source();
        // min_source() of the copy-unguarded class asserts on invalid_; report the raw value there
        uint32_t ms = (!guarded && w == INVALID) ? w : tree->min_source();
        return "w=" + src_str(ms) + " T=" + tree->dump();
    }

    // `order` = the order in which the players are registered with insert_start (a permutation of
    // 0..k-1; empty = ascending)
    void init(const std::vector<long long>& order) override {
        if (inited) { vh::answer("bad-op"); return; }
        std::vector<uint32_t> ord;
        if (order.empty()) { for (uint32_t i = 0; i < k; ++i) ord.push_back(i); }
        else {
            std::vector<bool> seen(k, false);
            if (order.size() != k) { vh::answer("bad-op"); return; }
            for (long long x : order) {
                if (x < 0 || x >= static_cast<long long>(k) || seen[static_cast<size_t>(x)]) { vh::answer("bad-op"); return; }
                seen[static_cast<size_t>(x)] = true;
                ord.push_back(static_cast<uint32_t>(x));
            }
        }
        make_tree();
        for (uint32_t i = 0; i < k; ++i) load(i);
        for (uint32_t i : ord) {
            if (live(i)) tree->insert_start(keyptr(i), i, false);
            else tree->insert_start(nullptr, i, true);
        }
        tree->init();
        inited = true;
        vh::answer(state());
        oracle("init");
    }

    void replace() override {
        if (!inited) { vh::answer("bad-op"); return; }
        uint32_t w = tree->raw_source();
        if (w >= k || !live(w) || (guarded && tree->raw_sup())) { vh::answer("bad-op"); return; }
        if (!guarded && pos[w] + 1 >= seqs[w].size()) { vh::answer("bad-op"); return; }
        ++pos[w];
        load(w);            // slot: the consumed key is overwritten; fresh: it is freed
        if (live(w)) tree->dmi(keyptr(w), false);
        else tree->dmi(nullptr, true);
        vh::answer(state());
        oracle("replace");
    }
};

static std::unique_ptr<SessionBase> sess;

template <typename K>
static bool make_session(const std::vector<std::string>& t) {
    // new <variant> <cmp> <k> <sentinel|-> seqs...
    if (t.size() < 5) return false;
    const std::string& v = t[1];
    if (v.size() != 3) return false;
    std::unique_ptr<Session<K> > s(new Session<K>());
    s->copy = v[0] == 'c';
    s->guarded = v[1] == 'g';
    s->stable = v[2] == 's';
    if ((v[0] != 'c' && v[0] != 'p') || (v[1] != 'g' && v[1] != 'u') || (v[2] != 'u' && v[2] != 's')) return false;
    if (t[2] == "lt") s->cmp.set(0); else if (t[2] == "gt") s->cmp.set(1); else if (t[2] == "q4") s->cmp.set(2); else return false;
    long long k = std::stoll(t[3]);
    if (k < 1 || k > 200000 || t.size() != static_cast<size_t>(5 + k)) return false;
    s->k = static_cast<uint32_t>(k);
    if (t[4] != "-") { s->has_sentinel = true; s->sentinel = K(std::stoll(t[4])); }
    if (!s->guarded && !s->has_sentinel) return false;
    for (long long i = 0; i < k; ++i) {
        std::vector<K> q;
        for (long long x : vh::csv(t[5 + i])) { if (x < 0 || x > 1000000) return false; q.push_back(K(x)); }
        if (!s->guarded && q.empty()) return false;
        s->seqs.push_back(q);
    }
    s->pos.assign(s->k, 0);
    sess = std::move(s);
    return true;
}

// an operation that burns more than 5 s of CPU time is a hang: die with SIGVTALRM so that the check
// attributes it to the case instead of waiting for a wall-clock timeout
static void arm_watchdog() {
    struct itimerval tv;
    tv.it_interval.tv_sec = 0; tv.it_interval.tv_usec = 0;
    tv.it_value.tv_sec = 5; tv.it_value.tv_usec = 0;
    setitimer(ITIMER_VIRTUAL, &tv, nullptr);
}

int main(int argc, char** argv) {
    if (argc < 2 || std::string(argv[1]) != "run") { std::cerr << "usage: c09 run\n"; return 2; }
    std::string line;
    while (std::getline(std::cin, line)) {
        arm_watchdog();
        auto t = vh::tokens(line);
        if (t.empty()) { vh::answer(""); continue; }
        if (t[0][0] == '#') { vh::answer(line); continue; }
        if (t[0] == "case") { sess.reset(); vh::answer("case"); continue; }
        if (t[0] == "new") {
            bool ok = false;
            try {
                if (t.size() > 1 && t[1].size() == 3 && t[1][0] == 'c') ok = make_session<K8>(t);
                else ok = make_session<K40>(t);
            } catch (...) { ok = false; }
            if (!ok) sess.reset();
            vh::answer(ok ? "ok" : "bad-op");
            continue;
        }
        if (!sess) { vh::answer("bad-op"); continue; }
        if (t[0] == "ctor") { vh::answer(t.size() == 2 && sess->set_ctor(t[1]) ? "ok" : "bad-op"); continue; }
        if (t[0] == "storage") { vh::answer(t.size() == 2 && sess->set_storage(t[1]) ? "ok" : "bad-op"); continue; }
        if (t[0] == "init") {
            std::vector<long long> order;
            bool ok = t.size() <= 2;
            if (ok && t.size() == 2) { try { order = vh::csv(t[1]); } catch (...) { ok = false; } }
            if (!ok) { vh::answer("bad-op"); continue; }
            sess->init(order);
        }
        else if (t[0] == "replace") sess->replace();
        else vh::answer("bad-op");
    }
    return 0;
}
