// C04 copy of harness/detsched/shim.hpp of builder `conc` (branch w-conc, commit d123079), with
// three local changes, all marked `C04:`
//   * tlx::std::thread::hardware_concurrency() returns ::c04d::hw (pool size of the sorter);
//   * an optional scheduling point *after* every atomic operation and mutex unlock
//     (::c04d::post_yield): a thread can then be preempted between a synchronisation
//     operation and the plain member accesses that follow it, which is exactly the window
//     of D24 and of the job creation loops;
//   * construction / destruction hooks of tlx::std::atomic (life time of the sort steps'
//     counters, i.e. of the steps: `new` and `delete this` become visible events).
// sched.hpp is an unmodified copy.
//
// Force-included (`g++ -include harness/c04_detsched/shim.hpp`) in front of every
// translation unit of a scheduler harness.  Inside `namespace tlx` the name `std`
// then denotes `tlx::std`, which re-exports all of `::std` and replaces the
// synchronisation primitives by scheduler shims (sched.hpp).  Code outside
// namespace tlx (the harness itself, libstdc++) keeps the real primitives.  No tlx
// source file is modified.
#pragma once
#ifdef __cplusplus
#include <atomic>
#include <chrono>
#include <condition_variable>
#include <cstddef>
#include <cstdint>
#include <deque>
#include <functional>
#include <iostream>
#include <memory>
#include <mutex>
#include <thread>
#include <type_traits>
#include <utility>
#include <vector>

#include "sched.hpp"

namespace c04d {   // C04: knobs and hooks of this copy
extern unsigned hw;
extern bool post_yield;
extern void (*atomic_ctor_hook)(const void*);
extern void (*atomic_dtor_hook)(const void*);
inline void after_op() {
    if (post_yield && ::detsched::Sched::in_logical_thread() && !::detsched::Sched::get().aborting())
        ::detsched::Sched::get().yield();
}
}  // namespace c04d

namespace tlx {
namespace std {
using namespace ::std;

class mutex
{
public:
    mutex() = default;
    mutex(const mutex&) = delete;
    mutex& operator=(const mutex&) = delete;
    void lock() {
        if (!::detsched::Sched::in_logical_thread()) { st_.owner = -3; return; }
        ::detsched::Sched::get().mutex_lock(this, &st_);
    }
    bool try_lock() {
        if (!::detsched::Sched::in_logical_thread()) { if (st_.owner != -1) return false; st_.owner = -3; return true; }
        return ::detsched::Sched::get().mutex_try_lock(this, &st_);
    }
    void unlock() {
        if (!::detsched::Sched::in_logical_thread()) { st_.owner = -1; return; }
        ::detsched::Sched::get().mutex_unlock(this, &st_);
        ::c04d::after_op();   // C04
    }
    ::detsched::MutexState st_;
};

class condition_variable
{
public:
    condition_variable() = default;
    condition_variable(const condition_variable&) = delete;
    condition_variable& operator=(const condition_variable&) = delete;
    void notify_one() {
        if (!::detsched::Sched::in_logical_thread()) return;
        ::detsched::Sched::get().cv_notify_one(this, &st_);
    }
    void notify_all() {
        if (!::detsched::Sched::in_logical_thread()) return;
        ::detsched::Sched::get().cv_notify_all(this, &st_);
    }
    template <typename Lock>
    void wait(Lock& lock) {
        ::detsched::Sched::get().cv_wait(this, &st_, lock.mutex(), &lock.mutex()->st_);
    }
    template <typename Lock, typename Pred>
    void wait(Lock& lock, Pred pred) {
        while (!pred()) wait(lock);
    }
    ::detsched::CvState st_;
};
using condition_variable_any = condition_variable;

inline void atomic_thread_fence(::std::memory_order) {
    if (!::detsched::Sched::in_logical_thread()) return;
    ::detsched::Sched::get().fence();
}

template <typename T>
class atomic
{
    T v_;
    static long long show(const T& v) {
        if constexpr (::std::is_integral<T>::value || ::std::is_enum<T>::value) return static_cast<long long>(v);
        else if constexpr (::std::is_pointer<T>::value) return v ? 1 : 0;
        else return 0;
    }
    static unsigned long long bits(const T& v) {
        if constexpr (::std::is_integral<T>::value || ::std::is_enum<T>::value) return static_cast<unsigned long long>(v);
        else if constexpr (::std::is_pointer<T>::value) return reinterpret_cast<unsigned long long>(v);
        else return 0;
    }
    template <typename F>
    auto op(::detsched::Op o, F f) const {
        atomic* self = const_cast<atomic*>(this);
        if (!::detsched::Sched::in_logical_thread()) return f(self->v_).first;
        ::std::function<unsigned long long()> cur = [self] { return bits(self->v_); };
        ::detsched::Sched::get().atomic_pre(o, this, cur);
        auto r = f(self->v_);
        ::detsched::Sched::get().atomic_post(o, this, show(r.second));
        auto res = r.first;
        if (o != ::detsched::Op::Load) ::c04d::after_op();   // C04
        return res;
    }

public:
    // C04: not constexpr / defaulted any more: life time hooks
    atomic() { if (::c04d::atomic_ctor_hook) ::c04d::atomic_ctor_hook(this); }
    atomic(T v) : v_(v) { if (::c04d::atomic_ctor_hook) ::c04d::atomic_ctor_hook(this); }
    ~atomic() { if (::c04d::atomic_dtor_hook) ::c04d::atomic_dtor_hook(this); }
    atomic(const atomic&) = delete;
    atomic& operator=(const atomic&) = delete;

    T load(::std::memory_order = ::std::memory_order_seq_cst) const {
        return op(::detsched::Op::Load, [](T& v) { return ::std::pair<T, T>(v, v); });
    }
    void store(T x, ::std::memory_order = ::std::memory_order_seq_cst) {
        op(::detsched::Op::Store, [x](T& v) { v = x; return ::std::pair<T, T>(x, x); });
    }
    T exchange(T x, ::std::memory_order = ::std::memory_order_seq_cst) {
        return op(::detsched::Op::Rmw, [x](T& v) { T o = v; v = x; return ::std::pair<T, T>(o, x); });
    }
    bool compare_exchange_strong(T& expected, T desired, ::std::memory_order = ::std::memory_order_seq_cst,
                                 ::std::memory_order = ::std::memory_order_seq_cst) {
        return op(::detsched::Op::Rmw, [&expected, desired](T& v) {
            if (v == expected) { v = desired; return ::std::pair<bool, T>(true, v); }
            expected = v;
            return ::std::pair<bool, T>(false, v);
        });
    }
    bool compare_exchange_weak(T& expected, T desired, ::std::memory_order a = ::std::memory_order_seq_cst,
                               ::std::memory_order b = ::std::memory_order_seq_cst) {
        return compare_exchange_strong(expected, desired, a, b);
    }
    template <typename U = T>
    T fetch_add(U d, ::std::memory_order = ::std::memory_order_seq_cst) {
        return op(::detsched::Op::Rmw, [d](T& v) { T o = v; v = static_cast<T>(v + d); return ::std::pair<T, T>(o, v); });
    }
    template <typename U = T>
    T fetch_sub(U d, ::std::memory_order = ::std::memory_order_seq_cst) {
        return op(::detsched::Op::Rmw, [d](T& v) { T o = v; v = static_cast<T>(v - d); return ::std::pair<T, T>(o, v); });
    }
    //! harness-side look at the value: no synchronisation point, no event
    T peek() const { return v_; }
    operator T() const { return load(); }
    T operator=(T x) { store(x); return x; }
    T operator++() { return static_cast<T>(fetch_add(1) + 1); }
    T operator++(int) { return fetch_add(1); }
    T operator--() { return static_cast<T>(fetch_sub(1) - 1); }
    T operator--(int) { return fetch_sub(1); }
    T operator+=(T d) { return static_cast<T>(fetch_add(d) + d); }
    T operator-=(T d) { return static_cast<T>(fetch_sub(d) - d); }
};

class thread
{
    int tid_ = -1;

public:
    using id = int;
    thread() = default;
    template <typename F, typename... Args,
              typename = typename ::std::enable_if<!::std::is_same<typename ::std::decay<F>::type, thread>::value>::type>
    explicit thread(F&& f, Args&&... args) {
        auto fn = ::std::bind(::std::forward<F>(f), ::std::forward<Args>(args)...);
        tid_ = ::detsched::Sched::get().spawn([fn]() mutable { fn(); });
    }
    thread(const thread&) = delete;
    thread& operator=(const thread&) = delete;
    thread(thread&& o) noexcept : tid_(o.tid_) { o.tid_ = -1; }
    thread& operator=(thread&& o) noexcept { tid_ = o.tid_; o.tid_ = -1; return *this; }
    ~thread() {}
    bool joinable() const { return tid_ >= 0; }
    int get_id() const { return tid_; }
    void join() {
        if (tid_ < 0) return;
        if (::detsched::Sched::in_logical_thread()) ::detsched::Sched::get().join(tid_);
        tid_ = -1;
    }
    void detach() { tid_ = -1; }
    static unsigned hardware_concurrency() { return ::c04d::hw; }   // C04
};

namespace this_thread {
using namespace ::std::this_thread;
inline void yield() {
    if (!::detsched::Sched::in_logical_thread()) return;
    ::detsched::Sched::get().yield();
}
}  // namespace this_thread

}  // namespace std
}  // namespace tlx
#endif  // __cplusplus
