// C15 compile probe: every direct sortN is declared with `CSwap cswap = CSwap()` and every
// dispatching sort with `Comparator cmp = Comparator()`.  This file instantiates all of the
// defaulted forms; it must compile (checks/c15.py reports a finding if it does not, and then
// builds the main harness with -DC15_NO_DEFAULT).
#include "c15_entry.hpp"

struct Elem {
    long long key;
    int tag;
    bool operator<(const Elem& o) const { return key < o.key; }
};

int main() {
    Elem a[16];
    for (int i = 0; i < 16; ++i) { a[i].key = 16 - i; a[i].tag = i; }
    int bad = 0;
    for (int fam = 0; fam < 3; ++fam)
        for (int n = 2; n <= 16; ++n) {
            c15::call_direct_default(fam, n, a);
            c15::call_dispatch_default(fam, n, a);
            for (int i = 1; i < n; ++i) bad += a[i] < a[i - 1];
        }
    return bad != 0;
}
