// Shared pieces of the correspondence harnesses (DESIGN §2).
//  * line protocol: one answer line on stdout per operation line on stdin;
//    `#VIOL <msg>` lines are verdicts of the harness' direct property oracle;
//  * splitmix64 PRNG (all randomness derives from one seed);
//  * Tracked: element type with a live-instance ledger and a heap-owning member.
#pragma once
#include <cstdint>
#include <cstdio>
#include <cstdlib>
#include <iostream>
#include <map>
#include <set>
#include <sstream>
#include <stdexcept>
#include <string>
#include <vector>

namespace vh {

struct Rng {
    uint64_t s;
    explicit Rng(uint64_t seed) : s(seed) {}
    uint64_t next() {
        uint64_t z = (s += 0x9e3779b97f4a7c15ULL);
        z = (z ^ (z >> 30)) * 0xbf58476d1ce4e5b9ULL;
        z = (z ^ (z >> 27)) * 0x94d049bb133111ebULL;
        return z ^ (z >> 31);
    }
    uint64_t below(uint64_t n) { return n ? next() % n : 0; }
    bool chance(unsigned num, unsigned den) { return below(den) < num; }
};

inline std::vector<std::string> tokens(const std::string& line) {
    std::vector<std::string> t;
    std::istringstream is(line);
    std::string w;
    while (is >> w) t.push_back(w);
    return t;
}

inline std::vector<long long> csv(const std::string& s) {
    std::vector<long long> v;
    if (s == "-") return v;
    std::istringstream is(s);
    std::string w;
    while (std::getline(is, w, ',')) v.push_back(std::stoll(w));
    return v;
}

template <typename C>
std::string show_csv(const C& c) {
    std::ostringstream os;
    bool first = true;
    for (const auto& x : c) { if (!first) os << ','; os << x; first = false; }
    if (first) os << '-';
    return os.str();
}

// Answers must be flushed line by line so that a sanitizer abort can be
// attributed to the operation that was being executed.
inline void answer(const std::string& s) { std::cout << s << '\n' << std::flush; }
inline void viol(const std::string& s) { std::cout << "#VIOL " << s << '\n' << std::flush; }

// ---------------------------------------------------------------- lifetime ledger
struct Ledger {
    std::map<const void*, uint64_t> alive;   // address -> serial
    std::vector<std::string> events;         // drained by the harness per operation
    std::vector<std::string> errors;
    uint64_t next_serial = 1;
    uint64_t constructed = 0, destroyed = 0;
    bool log_events = false;
    long long throw_countdown = -1;          // k > 0: the k-th Tracked construction from now throws
    // called at the very start of every Tracked constructor (before any resource is acquired)
    int maybe_throw() {
        if (throw_countdown > 0 && --throw_countdown == 0) { throw_countdown = -1; throw std::runtime_error("Tracked: construction failed"); }
        return 0;
    }
    static Ledger& get() { static Ledger l; return l; }
    void reset() { alive.clear(); events.clear(); errors.clear(); constructed = destroyed = 0; }
};

// Element with unique heap storage; construction over a live object, destruction
// of a dead one and leaks are reported through the ledger (and by ASan).
struct Tracked {
    long long val;
    long long* heap;
    Tracked() : val(Ledger::get().maybe_throw()), heap(new long long(0)) { born(); }
    explicit Tracked(long long v) : val(v + Ledger::get().maybe_throw()), heap(new long long(v)) { born(); }
    Tracked(const Tracked& o) : val(o.val + Ledger::get().maybe_throw()), heap(new long long(o.val)) { o.check("copy-from"); born(); }
    Tracked(Tracked&& o) noexcept : val(o.val), heap(new long long(o.val)) { o.check("move-from"); born(); }
    Tracked& operator=(const Tracked& o) { o.check("assign-from"); check("assign-to"); val = o.val; *heap = o.val; return *this; }
    Tracked& operator=(Tracked&& o) noexcept { o.check("massign-from"); check("massign-to"); val = o.val; *heap = o.val; return *this; }
    ~Tracked() {
        Ledger& l = Ledger::get();
        auto it = l.alive.find(this);
        if (it == l.alive.end()) { l.errors.push_back("destroy-of-dead-object val=" + std::to_string(val)); return; }
        l.alive.erase(it);
        ++l.destroyed;
        delete heap; heap = nullptr;
        val = -1000000 - val;
    }
    void born() {
        Ledger& l = Ledger::get();
        if (l.alive.count(this)) l.errors.push_back("construct-over-live-object val=" + std::to_string(val));
        l.alive[this] = l.next_serial++;
        ++l.constructed;
    }
    void check(const char* what) const {
        Ledger& l = Ledger::get();
        if (!l.alive.count(this)) l.errors.push_back(std::string(what) + "-dead-object val=" + std::to_string(val));
    }
    bool is_alive() const { return Ledger::get().alive.count(this) != 0; }
    friend bool operator<(const Tracked& a, const Tracked& b) { return a.val < b.val; }
    friend bool operator==(const Tracked& a, const Tracked& b) { return a.val == b.val; }
};

}  // namespace vh
