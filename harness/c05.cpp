// C05 harness: every sequential multiway merge entry point of tlx behind the line protocol.
//
//   merge <entry> <algo> <elem> <cmp> <len> <sentinel|-> <seq0> ... <seq(k-1)>
//     entry = mm | smm | mms | smms          multiway_merge, stable_…, …_sentinels, stable_…_sentinels
//           | b00 | b10 | b01 | b11          multiway_merge_base<Stable, Sentinels>
//     algo  = lt | ltc | lts | bub | def     MWMA_LOSER_TREE, _COMBINED, _SENTINEL, MWMA_BUBBLE, default argument
//     elem  = e8 | e40 | d8 | d40            8-byte elements (copy loser trees) / 40-byte (pointer loser trees);
//                                            d*: sequences and target are std::deque (non-contiguous iterators)
//     cmp   = lt | gt | q4                   key order a<b, a>b, a/4<b/4
//     len   = number of elements to merge (0..total)
//     sentinel: key of the element stored behind every sequence for the *_sentinels entry points
//     seq   = csv of keys, '-' = empty; k = number of seq tokens (k >= 0)
//
// Elements are (key, seq, pos) triples compared by key only, so stability is observable.
// Answer: "ret=<returned - target> out=<key:seq:pos,...> adv=<begin_i - original begin_i,...>".
// Sequences live in exactly-sized heap vectors (ASan sees every read past the end; the sentinel
// entry points get exactly one extra element), the target has exactly `len` elements.
//
// bad-op (not executed): unsorted sequence, len > total, sentinel missing / not greater than all keys.
//
// Direct oracle (#VIOL): reference = std::stable_sort of the concatenation by key, first len.
//   stable entry points: output, returned iterator, advanced begins equal the reference exactly;
//   unstable: returned iterator, output sorted, i-th output equivalent to i-th reference element,
//             every output element is a genuine input element, the elements taken from input s are
//             exactly its first adv[s] elements in order, sum adv = len.
#include <algorithm>
#include <cassert>
#include <cstdint>
#include <deque>
#include <functional>
#include <memory>
#include <utility>
#include <vector>

#include <setjmp.h>
#include <signal.h>
#include <sys/time.h>
#include <unistd.h>

#include "common.hpp"

#include <tlx/algorithm/multiway_merge.hpp>

struct E8 {
    int32_t key; uint32_t tag;
    E8() : key(0), tag(0) {}
    // 18 bits sequence number (huge-k cases: up to 2^18 sequences), 14 bits position
    E8(long long k, unsigned s, unsigned p) : key(static_cast<int32_t>(k)), tag((s << 14) | (p & 0x3fff)) {}
    long long k() const { return key; }
    unsigned seq() const { return tag >> 14; }
    unsigned pos() const { return tag & 0x3fff; }
};
struct E40 {
    long long key; uint32_t s, p; char pad[24];
    E40() : key(0), s(0), p(0) { pad[0] = 0; }
    E40(long long k, unsigned s_, unsigned p_) : key(k), s(s_), p(p_) { pad[0] = 1; }
    long long k() const { return key; }
    unsigned seq() const { return s; }
    unsigned pos() const { return p; }
};
static_assert(sizeof(E8) == 8 && sizeof(E8) <= 2 * sizeof(size_t), "copy-sized");
static_assert(sizeof(E40) == 40 && sizeof(E40) > 2 * sizeof(size_t), "pointer-sized");

// A STATEFUL comparator (the order lives in an own heap cell; copies are deep; the destructor
// scribbles over the cell).  The merge front ends take the comparator by value: the harness hands
// them a separate object and switches it to a garbage order as soon as the call has returned.
template <typename E>
struct Cmp {
    int* st;
    explicit Cmp(int m = 0) : st(new int(m)) {}
    Cmp(const Cmp& o) : st(new int(*o.st)) {}
    Cmp& operator=(const Cmp& o) { *st = *o.st; return *this; }
    ~Cmp() { *st = 0x5a5a5a5a; delete st; }
    void set(int m) { *st = m; }
    bool operator()(const E& a, const E& b) const {
        switch (*st) {
        case 0: return a.k() < b.k();
        case 1: return a.k() > b.k();
        case 2: return (a.k() >> 2) < (b.k() >> 2);
        default: return a.k() == 12345;
        }
    }
};

template <typename E>
static std::string show(const E& e) {
    return std::to_string(e.k()) + ":" + std::to_string(e.seq()) + ":" + std::to_string(e.pos());
}

template <typename C> static void tighten(C&, size_t) {}
template <typename E> static void tighten(std::vector<E>& v, size_t) { v.shrink_to_fit(); }
template <typename C> static void prealloc(C&, size_t) {}
template <typename E> static void prealloc(std::vector<E>& v, size_t n) { v.reserve(n); }

// Cont = std::vector<E> (contiguous, exactly sized) or std::deque<E> (random access, not contiguous)
template <typename E, typename Cont>
static void run_merge(const std::vector<std::string>& t) {
    // t: merge entry algo elem cmp len sentinel seqs...
    const std::string& entry = t[1];
    const std::string& algo = t[2];
    Cmp<E> cmp;
    if (t[4] == "lt") cmp.set(0); else if (t[4] == "gt") cmp.set(1); else if (t[4] == "q4") cmp.set(2);
    else { vh::answer("bad-op"); return; }
    long long len = std::stoll(t[5]);
    bool stable, sentinels, base;
    if (entry == "mm") { stable = false; sentinels = false; base = false; }
    else if (entry == "smm") { stable = true; sentinels = false; base = false; }
    else if (entry == "mms") { stable = false; sentinels = true; base = false; }
    else if (entry == "smms") { stable = true; sentinels = true; base = false; }
    else if (entry.size() == 3 && entry[0] == 'b' && (entry[1] == '0' || entry[1] == '1') && (entry[2] == '0' || entry[2] == '1')) {
        stable = entry[1] == '1'; sentinels = entry[2] == '1'; base = true;
    }
    else { vh::answer("bad-op"); return; }
    int mw;
    if (algo == "lt") mw = tlx::MWMA_LOSER_TREE; else if (algo == "ltc") mw = tlx::MWMA_LOSER_TREE_COMBINED;
    else if (algo == "lts") mw = tlx::MWMA_LOSER_TREE_SENTINEL; else if (algo == "bub") mw = tlx::MWMA_BUBBLE;
    else if (algo == "def") mw = -1; else { vh::answer("bad-op"); return; }

    size_t k = t.size() - 7;
    if (k > 200000) { vh::answer("bad-op"); return; }
    std::vector<std::vector<long long> > keys;
    long long total = 0;
    for (size_t i = 0; i < k; ++i) {
        keys.push_back(vh::csv(t[7 + i]));
        if (keys.back().size() > 16000) { vh::answer("bad-op"); return; }
        total += static_cast<long long>(keys.back().size());
    }
    if (len < 0 || len > total) { vh::answer("bad-op"); return; }
    bool has_sen = t[6] != "-";
    long long sen = has_sen ? std::stoll(t[6]) : 0;
    if (sentinels && !has_sen) { vh::answer("bad-op"); return; }
    // build the sequences; heap arrays of exactly the needed size
    std::vector<std::unique_ptr<Cont> > store;
    for (size_t i = 0; i < k; ++i) {
        std::unique_ptr<Cont> v(new Cont());
        prealloc(*v, keys[i].size() + (sentinels ? 1 : 0));
        for (size_t p = 0; p < keys[i].size(); ++p) v->push_back(E(keys[i][p], static_cast<unsigned>(i), static_cast<unsigned>(p)));
        for (size_t p = 1; p < v->size(); ++p)
            if (cmp((*v)[p], (*v)[p - 1])) { vh::answer("bad-op"); return; }
        if (sentinels) {
            E s(sen, 0x3ffff, 0x3fff);
            for (size_t p = 0; p < v->size(); ++p)
                if (!cmp((*v)[p], s)) { vh::answer("bad-op"); return; }   // sentinel must be greater than all real ones
            v->push_back(s);
        }
        tighten(*v, 0);
        store.push_back(std::move(v));
    }
    using It = typename Cont::iterator;
    std::vector<std::pair<It, It> > seqs;
    for (size_t i = 0; i < k; ++i)
        seqs.push_back(std::make_pair(store[i]->begin(), store[i]->begin() + static_cast<long>(keys[i].size())));
    std::vector<std::pair<It, It> > orig = seqs;
    Cont out(static_cast<size_t>(len));
    tighten(out, 0);
    It target = out.begin();
    It ret;
    tlx::MultiwayMergeAlgorithm a = mw < 0 ? tlx::MWMA_ALGORITHM_DEFAULT : static_cast<tlx::MultiwayMergeAlgorithm>(mw);
    Cmp<E> callcmp(cmp);      // the caller's object; modified right after the call
    if (base) {
        if (stable && sentinels) ret = mw < 0 ? tlx::multiway_merge_base<true, true>(seqs.begin(), seqs.end(), target, len, callcmp) : tlx::multiway_merge_base<true, true>(seqs.begin(), seqs.end(), target, len, callcmp, a);
        else if (stable) ret = mw < 0 ? tlx::multiway_merge_base<true, false>(seqs.begin(), seqs.end(), target, len, callcmp) : tlx::multiway_merge_base<true, false>(seqs.begin(), seqs.end(), target, len, callcmp, a);
        else if (sentinels) ret = mw < 0 ? tlx::multiway_merge_base<false, true>(seqs.begin(), seqs.end(), target, len, callcmp) : tlx::multiway_merge_base<false, true>(seqs.begin(), seqs.end(), target, len, callcmp, a);
        else ret = mw < 0 ? tlx::multiway_merge_base<false, false>(seqs.begin(), seqs.end(), target, len, callcmp) : tlx::multiway_merge_base<false, false>(seqs.begin(), seqs.end(), target, len, callcmp, a);
    }
    else if (stable && sentinels) ret = mw < 0 ? tlx::stable_multiway_merge_sentinels(seqs.begin(), seqs.end(), target, len, callcmp) : tlx::stable_multiway_merge_sentinels(seqs.begin(), seqs.end(), target, len, callcmp, a);
    else if (stable) ret = mw < 0 ? tlx::stable_multiway_merge(seqs.begin(), seqs.end(), target, len, callcmp) : tlx::stable_multiway_merge(seqs.begin(), seqs.end(), target, len, callcmp, a);
    else if (sentinels) ret = mw < 0 ? tlx::multiway_merge_sentinels(seqs.begin(), seqs.end(), target, len, callcmp) : tlx::multiway_merge_sentinels(seqs.begin(), seqs.end(), target, len, callcmp, a);
    else ret = mw < 0 ? tlx::multiway_merge(seqs.begin(), seqs.end(), target, len, callcmp) : tlx::multiway_merge(seqs.begin(), seqs.end(), target, len, callcmp, a);

    callcmp.set(0x5a5a);
    long long r = ret - target;
    std::vector<long long> adv;
    bool sane = true;
    for (size_t i = 0; i < k; ++i) {
        long long d = seqs[i].first - orig[i].first;
        adv.push_back(d);
        if (d < 0 || d > static_cast<long long>(keys[i].size())) sane = false;
        if (seqs[i].second != orig[i].second) sane = false;
    }
    std::string o;
    for (long long i = 0; i < len; ++i) { if (i) o += ','; o += show(out[static_cast<size_t>(i)]); }
    if (o.empty()) o = "-";
    vh::answer("ret=" + std::to_string(r) + " out=" + o + " adv=" + vh::show_csv(adv));

    // ------------------------------------------------------------------ direct oracle
    std::string ctx = " [" + entry + " " + algo + " " + t[3] + " " + t[4] + " k=" + std::to_string(k) + " len=" + std::to_string(len) + "]";
    if (!sane) { vh::viol("an input iterator pair was moved outside its sequence or its end changed" + ctx); return; }
    if (r != len) { vh::viol("returned iterator is target+" + std::to_string(r) + ", expected target+" + std::to_string(len) + ctx); return; }
    std::vector<E> ref;
    for (size_t i = 0; i < k; ++i)
        for (size_t p = 0; p < keys[i].size(); ++p) ref.push_back(E(keys[i][p], static_cast<unsigned>(i), static_cast<unsigned>(p)));
    std::stable_sort(ref.begin(), ref.end(), cmp);
    ref.resize(static_cast<size_t>(len));
    if (stable) {
        std::vector<long long> cnt(k, 0);
        for (long long i = 0; i < len; ++i) {
            const E& x = out[static_cast<size_t>(i)]; const E& y = ref[static_cast<size_t>(i)];
            if (x.k() != y.k() || x.seq() != y.seq() || x.pos() != y.pos()) {
                vh::viol("stable merge: output[" + std::to_string(i) + "]=" + show(x) + " but the stable merge has " + show(y) + ctx); return;
            }
            cnt[y.seq()]++;
        }
        for (size_t i = 0; i < k; ++i)
            if (adv[i] != cnt[i]) { vh::viol("input " + std::to_string(i) + " advanced by " + std::to_string(adv[i]) + " but " + std::to_string(cnt[i]) + " of its elements were merged" + ctx); return; }
        return;
    }
    std::vector<long long> next(k, 0);
    long long sum = 0;
    for (long long i = 0; i < len; ++i) {
        const E& x = out[static_cast<size_t>(i)];
        if (i > 0 && cmp(x, out[static_cast<size_t>(i - 1)])) { vh::viol("output not sorted at " + std::to_string(i) + ctx); return; }
        if (cmp(x, ref[static_cast<size_t>(i)]) || cmp(ref[static_cast<size_t>(i)], x)) {
            vh::viol("output[" + std::to_string(i) + "]=" + show(x) + " is not equivalent to the " + std::to_string(i) + "-th smallest element " + show(ref[static_cast<size_t>(i)]) + ctx); return;
        }
        if (x.seq() >= k || x.pos() >= keys[x.seq()].size() || keys[x.seq()][x.pos()] != x.k()) { vh::viol("output[" + std::to_string(i) + "]=" + show(x) + " is not an input element" + ctx); return; }
        if (x.pos() != next[x.seq()]) { vh::viol("elements of input " + std::to_string(x.seq()) + " are not taken in order / exactly once (got pos " + std::to_string(x.pos()) + ", expected " + std::to_string(next[x.seq()]) + ")" + ctx); return; }
        next[x.seq()]++;
    }
    for (size_t i = 0; i < k; ++i) {
        sum += adv[i];
        if (adv[i] != next[i]) { vh::viol("input " + std::to_string(i) + " advanced by " + std::to_string(adv[i]) + " but " + std::to_string(next[i]) + " of its elements were merged" + ctx); return; }
    }
    if (sum != len) vh::viol("inputs advanced by " + std::to_string(sum) + " in total, expected " + std::to_string(len) + ctx);
}

// An operation that burns more than 2 s of CPU time is a hang.  The handler jumps back into the
// main loop (the abandoned buffers leak, hence the _exit at the end), the op is answered `hang`
// with a #VIOL line; after 3 hangs the remaining operations are skipped so that a systematic
// non-termination does not stall the whole check.
static sigjmp_buf hang_jmp;
static volatile sig_atomic_t in_op = 0;
static int hangs = 0;
static void on_alarm(int) { if (in_op) siglongjmp(hang_jmp, 1); }
static void arm_watchdog(int sec) {
    struct itimerval tv;
    tv.it_interval.tv_sec = 0; tv.it_interval.tv_usec = 0;
    tv.it_value.tv_sec = sec; tv.it_value.tv_usec = 0;
    setitimer(ITIMER_VIRTUAL, &tv, nullptr);
}

int main(int argc, char** argv) {
    if (argc < 2 || std::string(argv[1]) != "run") { std::cerr << "usage: c05 run\n"; return 2; }
    signal(SIGVTALRM, on_alarm);
    std::string line;
    while (std::getline(std::cin, line)) {
        auto t = vh::tokens(line);
        if (t.empty()) { vh::answer(""); continue; }
        if (t[0][0] == '#') { vh::answer(line); continue; }
        if (t[0] == "case") { vh::answer("case"); continue; }
        if (t[0] == "merge" && t.size() >= 7) {
            if (hangs >= 3) { vh::answer("skipped-after-hangs"); continue; }
            if (sigsetjmp(hang_jmp, 1) == 0) {
                in_op = 1;
                arm_watchdog(2);
                try {
                    if (t[3] == "e8") run_merge<E8, std::vector<E8> >(t);
                    else if (t[3] == "e40") run_merge<E40, std::vector<E40> >(t);
                    else if (t[3] == "d8") run_merge<E8, std::deque<E8> >(t);
                    else if (t[3] == "d40") run_merge<E40, std::deque<E40> >(t);
                    else vh::answer("bad-op");
                } catch (const std::exception&) { vh::answer("bad-op"); }
                in_op = 0;
                arm_watchdog(0);
            }
            else {
                in_op = 0;
                ++hangs;
                vh::answer("hang");
                vh::viol("the merge did not terminate (2 s of CPU time) [" + t[1] + " " + t[2] + " " + t[3] + " " + t[4] + " len=" + t[5] + "]");
            }
            continue;
        }
        vh::answer("bad-op");
    }
    if (hangs > 0) { std::cout.flush(); _exit(0); }
    return 0;
}
