// C14 harness: the real tlx digests and SipHash behind the line protocol.
//
//   d <md5|sha1|sha256|sha512> <form> <expected lower-case hex> <chunk sizes csv|-> <message hex|->
//       one object life per line.  forms:
//         raw hex HEX fin        default ctor, process(ptr,size) per chunk, then digest() /
//                                digest_hex() / digest_hex_uc() / finalize(void*)
//         sv-raw sv-hex sv-HEX   the same through process(tlx::string_view)
//         ctor-raw ctor-hex ctor-HEX / ctorsv-hex
//                                first chunk through X(ptr,size) / X(string_view), rest process()
//         fn-hex fn-HEX fnsv-hex fnsv-HEX
//                                helper functions xxx_hex(ptr,size) / xxx_hex_uc / string_view forms
//       answer: `<result> | <trace>`; trace = `curlen:length:state:buffered` after construction and
//       after every chunk (private members, exposed below), `;`-separated; raw/fin results are
//       hex-encoded by the harness.  Direct oracle: result == expected (hashlib, via the op line).
//   big <algo> <sv-hex|ctorsv-hex|fnsv-hex> <expected> <len> <a> <b>
//       message of `len` bytes (may exceed 4 GiB) with byte i = (a*i + b) & 0xff, passed as ONE
//       tlx::string_view to process(string_view) / X(string_view) / xxx_hex(string_view).  No trace.
//   bigz <algo> <ptr-hex|fn-hex|ctor-hex|sv-hex|fnsv-hex|ctorsv-hex> <expected> <len>
//       sparse message of `len` >= 64 bytes in a MAP_NORESERVE mapping (no real memory): byte i = i+1 for
//       i < 3, byte i = 0x40 + (len - i) for the last 16 bytes, zero elsewhere.  ptr/fn/ctor forms pass it
//       in ONE call with a 32-bit size (len < 2^32), the sv forms as one tlx::string_view (any len).
//   sipz <plain|sse2|auto> <key hex> <len>
//       SipHash of the same sparse message (len may exceed 4 GiB); the oracle is an independent
//       byte-wise SipHash-2-4 inside this harness (`ref_siphash24`, validated against the Python
//       reference on every `sip` line), since 4 GiB cannot be hashed in Python.
//   sip <plain|sse2|auto|dk|dkc|sv> <expected 16 hex> <key align> <key hex> <msg align> <message hex|->
//       key and message are placed at the given offsets (0..15) of 16-byte aligned heap blocks that
//       end exactly at their last byte.  dk/dkc/sv use the built-in default key (key must be 00..0f).
#include <cstring>
#include <map>
#include <memory>
#include <sys/mman.h>

#define private public
#include <tlx/digest/md5.hpp>
#include <tlx/digest/sha1.hpp>
#include <tlx/digest/sha256.hpp>
#include <tlx/digest/sha512.hpp>
#undef private
#include <tlx/siphash.hpp>

#include "common.hpp"

typedef std::vector<uint8_t> Bytes;

static bool unhex(const std::string& s, Bytes& out) {
    out.clear();
    if (s == "-") return true;
    if (s.size() % 2) return false;
    for (size_t i = 0; i < s.size(); i += 2) {
        int v = 0;
        for (int k = 0; k < 2; ++k) {
            char c = s[i + k];
            int d = (c >= '0' && c <= '9') ? c - '0' : (c >= 'a' && c <= 'f') ? c - 'a' + 10 : -1;
            if (d < 0) return false;
            v = v * 16 + d;
        }
        out.push_back(uint8_t(v));
    }
    return true;
}

static std::string tohex(const uint8_t* p, size_t n) {
    static const char* d = "0123456789abcdef";
    std::string s;
    for (size_t i = 0; i < n; ++i) { s += d[p[i] >> 4]; s += d[p[i] & 15]; }
    return s;
}

template <typename W>
static std::string hexword(W w) {
    std::string s;
    for (int i = int(sizeof(W)) * 2 - 1; i >= 0; --i) s += "0123456789abcdef"[(w >> (4 * i)) & 15];
    return s;
}

// exact-size heap copy of a chunk (nullptr for the empty chunk): over-reads are ASan reports
struct Chunk {
    std::unique_ptr<uint8_t[]> mem;
    size_t n;
    Chunk(const uint8_t* p, size_t n_) : mem(n_ ? new uint8_t[n_] : nullptr), n(n_) { if (n) std::memcpy(mem.get(), p, n); }
    const uint8_t* ptr() const { return mem.get(); }
    tlx::string_view sv() const { return tlx::string_view(reinterpret_cast<const char*>(mem.get()), n); }
};

template <typename D>
static std::string trace_of(const D& d) {
    std::string s = std::to_string(d.curlen_) + ":" + std::to_string(d.length_) + ":";
    for (size_t i = 0; i < sizeof(d.state_) / sizeof(d.state_[0]); ++i) s += hexword(d.state_[i]);
    s += ":";
    s += d.curlen_ ? tohex(d.buf_, d.curlen_ <= sizeof(d.buf_) ? d.curlen_ : sizeof(d.buf_)) : "-";
    return s;
}

template <typename D>
static bool run_digest(const std::string& form, const std::vector<Chunk>& ch, const Bytes& whole,
                       std::string (*fn_hex)(const void*, std::uint32_t), std::string (*fn_hex_sv)(tlx::string_view),
                       std::string (*fn_HEX)(const void*, std::uint32_t), std::string (*fn_HEX_sv)(tlx::string_view),
                       std::string& result, std::string& trace) {
    trace.clear();
    if (form.compare(0, 2, "fn") == 0) {
        Chunk w(whole.data(), whole.size());
        if (form == "fn-hex") result = fn_hex(w.ptr(), std::uint32_t(w.n));
        else if (form == "fn-HEX") result = fn_HEX(w.ptr(), std::uint32_t(w.n));
        else if (form == "fnsv-hex") result = fn_hex_sv(w.sv());
        else if (form == "fnsv-HEX") result = fn_HEX_sv(w.sv());
        else return false;
        return true;
    }
    std::string pre, out = form;
    size_t dash = form.find('-');
    if (dash != std::string::npos) { pre = form.substr(0, dash); out = form.substr(dash + 1); }
    if (!(pre == "" || pre == "sv" || pre == "ctor" || pre == "ctorsv")) return false;
    if (!(out == "raw" || out == "hex" || out == "HEX" || out == "fin")) return false;
    std::unique_ptr<D> d;
    size_t first = 0;
    if (pre == "ctor" || pre == "ctorsv") {
        if (ch.empty()) return false;
        if (pre == "ctor") d.reset(new D(ch[0].ptr(), std::uint32_t(ch[0].n)));
        else d.reset(new D(ch[0].sv()));
        first = 1;
    }
    else d.reset(new D());
    trace = trace_of(*d);
    for (size_t i = first; i < ch.size(); ++i) {
        if (pre == "sv" || pre == "ctorsv") d->process(ch[i].sv());
        else d->process(ch[i].ptr(), std::uint32_t(ch[i].n));
        trace += ";" + trace_of(*d);
    }
    if (out == "raw") { std::string r = d->digest(); result = tohex(reinterpret_cast<const uint8_t*>(r.data()), r.size()); }
    else if (out == "hex") result = d->digest_hex();
    else if (out == "HEX") result = d->digest_hex_uc();
    else {
        std::unique_ptr<uint8_t[]> buf(new uint8_t[D::kDigestLength]);
        d->finalize(buf.get());
        result = tohex(buf.get(), D::kDigestLength);
    }
    return true;
}

static std::string upper(std::string s) {
    for (char& c : s) if (c >= 'a' && c <= 'f') c = char(c - 'a' + 'A');
    return s;
}

// the bytes live at [base + align, base + align + n) of a 16-byte aligned heap block of exactly
// align + n bytes: the address is ≡ align (mod 16) and any read behind the last byte is an ASan report
struct Placed {
    void* base;
    uint8_t* p;
    Placed(const Bytes& b, size_t align) {
        size_t total = align + b.size();
        base = nullptr;
        if (posix_memalign(&base, 16, total ? total : 1) != 0) std::abort();
        p = static_cast<uint8_t*>(base) + align;
        if (!b.empty()) std::memcpy(p, b.data(), b.size());
    }
    ~Placed() { free(base); }
};

// ---------------------------------------------------------------- sparse big messages
struct SparseMsg {
    uint8_t* p;
    size_t len;
    explicit SparseMsg(size_t n) : p(nullptr), len(n) {
        void* m = mmap(nullptr, n, PROT_READ | PROT_WRITE, MAP_PRIVATE | MAP_ANONYMOUS | MAP_NORESERVE, -1, 0);
        if (m == MAP_FAILED) return;
        p = static_cast<uint8_t*>(m);
        for (size_t i = 0; i < 3; ++i) p[i] = uint8_t(i + 1);
        for (size_t i = n - 16; i < n; ++i) p[i] = uint8_t(0x40 + (n - i));
    }
    ~SparseMsg() { if (p) munmap(p, len); }
};

// independent SipHash-2-4 (paper §2), byte-wise loads; oracle for messages too long for Python
static inline uint64_t rotl64(uint64_t x, int b) { return (x << b) | (x >> (64 - b)); }
static uint64_t ref_siphash24(const uint8_t* key, const uint8_t* m, uint64_t len) {
    auto le64 = [](const uint8_t* q) { uint64_t v = 0; for (int i = 7; i >= 0; --i) v = (v << 8) | q[i]; return v; };
    uint64_t k0 = le64(key), k1 = le64(key + 8);
    uint64_t v0 = k0 ^ 0x736f6d6570736575ULL, v1 = k1 ^ 0x646f72616e646f6dULL;
    uint64_t v2 = k0 ^ 0x6c7967656e657261ULL, v3 = k1 ^ 0x7465646279746573ULL;
    auto round = [&]() {
        v0 += v1; v1 = rotl64(v1, 13); v1 ^= v0; v0 = rotl64(v0, 32);
        v2 += v3; v3 = rotl64(v3, 16); v3 ^= v2;
        v0 += v3; v3 = rotl64(v3, 21); v3 ^= v0;
        v2 += v1; v1 = rotl64(v1, 17); v1 ^= v2; v2 = rotl64(v2, 32);
    };
    uint64_t w = len / 8;
    for (uint64_t i = 0; i < w; ++i) {
        uint64_t mi;                        // little-endian host (x86-64): plain 8-byte copy; the tail and the
        std::memcpy(&mi, m + 8 * i, 8);     // key use the byte-wise le64, and every `sip` line re-validates this
        v3 ^= mi; round(); round(); v0 ^= mi;
    }
    uint64_t b = (len & 0xff) << 56;
    for (uint64_t i = 0; i < len % 8; ++i) b |= uint64_t(m[8 * w + i]) << (8 * i);
    v3 ^= b; round(); round(); v0 ^= b;
    v2 ^= 0xff; round(); round(); round(); round();
    return v0 ^ v1 ^ v2 ^ v3;
}

int main(int argc, char** argv) {
    (void)argc; (void)argv;
    std::string line;
    while (std::getline(std::cin, line)) {
        std::vector<std::string> t = vh::tokens(line);
        if (t.empty()) { vh::answer(""); continue; }
        if (t[0][0] == '#') { vh::answer(line); continue; }
        if (t[0] == "case") { vh::answer("case"); continue; }
        if (t[0] == "d" && t.size() == 6) {
            Bytes msg;
            if (!unhex(t[5], msg)) { vh::answer("bad-op"); continue; }
            std::vector<long long> sizes = vh::csv(t[4]);
            size_t sum = 0;
            bool ok = true;
            for (long long s : sizes) { if (s < 0) ok = false; else sum += size_t(s); }
            if (!ok || sum != msg.size()) { vh::answer("bad-op"); continue; }
            std::vector<Chunk> ch;
            size_t off = 0;
            for (long long s : sizes) { ch.emplace_back(msg.data() + off, size_t(s)); off += size_t(s); }
            std::string result, trace;
            bool done = false;
            const std::string& a = t[1];
            using namespace tlx;
            typedef std::string (*FP)(const void*, std::uint32_t);
            typedef std::string (*FS)(tlx::string_view);
            if (a == "md5") done = run_digest<MD5>(t[2], ch, msg, FP(md5_hex), FS(md5_hex), FP(md5_hex_uc), FS(md5_hex_uc), result, trace);
            else if (a == "sha1") done = run_digest<SHA1>(t[2], ch, msg, FP(sha1_hex), FS(sha1_hex), FP(sha1_hex_uc), FS(sha1_hex_uc), result, trace);
            else if (a == "sha256") done = run_digest<SHA256>(t[2], ch, msg, FP(sha256_hex), FS(sha256_hex), FP(sha256_hex_uc), FS(sha256_hex_uc), result, trace);
            else if (a == "sha512") done = run_digest<SHA512>(t[2], ch, msg, FP(sha512_hex), FS(sha512_hex), FP(sha512_hex_uc), FS(sha512_hex_uc), result, trace);
            if (!done) { vh::answer("bad-op"); continue; }
            vh::answer(result + " | " + (trace.empty() ? "-" : trace));
            bool uc = t[2].size() >= 3 && t[2].compare(t[2].size() - 3, 3, "HEX") == 0;
            std::string want = uc ? upper(t[3]) : t[3];
            if (result != want)
                vh::viol("digest-mismatch " + a + " " + t[2] + " len=" + std::to_string(msg.size()) + " chunks=" + t[4] +
                         " got=" + result + " want=" + want);
            continue;
        }
        if (t[0] == "big" && t.size() == 7) {
            unsigned long long len = std::strtoull(t[4].c_str(), nullptr, 10);
            unsigned a = unsigned(std::atoi(t[5].c_str())), b = unsigned(std::atoi(t[6].c_str()));
            const std::string& al = t[1];
            const std::string& form = t[2];
            if (!(form == "sv-hex" || form == "ctorsv-hex" || form == "fnsv-hex") || len > (1ull << 34) ||
                !(al == "md5" || al == "sha1" || al == "sha256" || al == "sha512")) { vh::answer("bad-op"); continue; }
            std::unique_ptr<char[]> mem(new char[len ? len : 1]);
            for (unsigned long long i = 0; i < len; ++i) mem[i] = char((a * unsigned(i & 0xff) + b) & 0xff);
            tlx::string_view sv(mem.get(), size_t(len));
            std::string result;
            if (al == "md5") result = form == "fnsv-hex" ? tlx::md5_hex(sv) : form == "ctorsv-hex" ? tlx::MD5(sv).digest_hex() : [&] { tlx::MD5 d; d.process(sv); return d.digest_hex(); }();
            else if (al == "sha1") result = form == "fnsv-hex" ? tlx::sha1_hex(sv) : form == "ctorsv-hex" ? tlx::SHA1(sv).digest_hex() : [&] { tlx::SHA1 d; d.process(sv); return d.digest_hex(); }();
            else if (al == "sha256") result = form == "fnsv-hex" ? tlx::sha256_hex(sv) : form == "ctorsv-hex" ? tlx::SHA256(sv).digest_hex() : [&] { tlx::SHA256 d; d.process(sv); return d.digest_hex(); }();
            else result = form == "fnsv-hex" ? tlx::sha512_hex(sv) : form == "ctorsv-hex" ? tlx::SHA512(sv).digest_hex() : [&] { tlx::SHA512 d; d.process(sv); return d.digest_hex(); }();
            vh::answer(result);
            if (result != t[3])
                vh::viol("digest-mismatch " + al + " " + form + " big len=" + t[4] + " got=" + result + " want=" + t[3]);
            continue;
        }
        if (t[0] == "bigz" && t.size() == 5) {
            unsigned long long len = std::strtoull(t[4].c_str(), nullptr, 10);
            const std::string& al = t[1];
            const std::string& form = t[2];
            bool svform = form == "sv-hex" || form == "fnsv-hex" || form == "ctorsv-hex";
            bool ptrform = form == "ptr-hex" || form == "fn-hex" || form == "ctor-hex";
            if (!(svform || ptrform) || len < 64 || len > (1ull << 36) || (ptrform && len >= (1ull << 32)) ||
                !(al == "md5" || al == "sha1" || al == "sha256" || al == "sha512")) { vh::answer("bad-op"); continue; }
            SparseMsg msg{size_t(len)};
            if (!msg.p) { vh::answer("bad-op"); continue; }
            tlx::string_view sv(reinterpret_cast<const char*>(msg.p), size_t(len));
            const void* ptr = msg.p;
            std::uint32_t sz = std::uint32_t(len);
            std::string result;
#define C14_BIGZ(CLS, low)                                                                        \
            if (form == "ptr-hex") { tlx::CLS d; d.process(ptr, sz); result = d.digest_hex(); }   \
            else if (form == "fn-hex") result = tlx::low##_hex(ptr, sz);                           \
            else if (form == "ctor-hex") result = tlx::CLS(ptr, sz).digest_hex();                  \
            else if (form == "sv-hex") { tlx::CLS d; d.process(sv); result = d.digest_hex(); }    \
            else if (form == "fnsv-hex") result = tlx::low##_hex(sv);                              \
            else result = tlx::CLS(sv).digest_hex();
            if (al == "md5") { C14_BIGZ(MD5, md5) }
            else if (al == "sha1") { C14_BIGZ(SHA1, sha1) }
            else if (al == "sha256") { C14_BIGZ(SHA256, sha256) }
            else { C14_BIGZ(SHA512, sha512) }
#undef C14_BIGZ
            vh::answer(result);
            if (result != t[3])
                vh::viol("digest-mismatch " + al + " " + form + " sparse len=" + t[4] + " got=" + result + " want=" + t[3]);
            continue;
        }
        if (t[0] == "sipz" && t.size() == 4) {
            Bytes key;
            unsigned long long len = std::strtoull(t[3].c_str(), nullptr, 10);
            const std::string& v = t[1];
            if (!unhex(t[2], key) || key.size() != 16 || len < 64 || len > (1ull << 36) ||
                !(v == "plain" || v == "sse2" || v == "auto")) { vh::answer("bad-op"); continue; }
#if !defined(__SSE2__)
            if (v == "sse2") { vh::answer("bad-op"); continue; }
#endif
            SparseMsg msg{size_t(len)};
            if (!msg.p) { vh::answer("bad-op"); continue; }
            static std::map<std::pair<std::string, unsigned long long>, uint64_t> ref_cache;
            std::pair<std::string, unsigned long long> ck(t[2], len);
            if (!ref_cache.count(ck)) ref_cache[ck] = ref_siphash24(key.data(), msg.p, len);
            uint64_t want = ref_cache[ck], r = 0;
            if (v == "plain") r = tlx::siphash_plain(key.data(), msg.p, size_t(len));
#if defined(__SSE2__)
            else if (v == "sse2") r = tlx::siphash_sse2(key.data(), msg.p, size_t(len));
#endif
            else r = tlx::siphash(key.data(), msg.p, size_t(len));
            vh::answer(hexword(r));
            if (r != want)
                vh::viol("siphash-mismatch " + v + " sparse len=" + t[3] + " got=" + hexword(r) + " want=" + hexword(want));
            continue;
        }
        if (t[0] == "sip" && t.size() == 7) {
            Bytes key, msg;
            int ka = std::atoi(t[3].c_str()), ma = std::atoi(t[5].c_str());
            if (!unhex(t[4], key) || !unhex(t[6], msg) || key.size() != 16 || ka < 0 || ka > 15 || ma < 0 || ma > 15) {
                vh::answer("bad-op");
                continue;
            }
            const std::string& v = t[1];
            bool defkey = true;
            for (int i = 0; i < 16; ++i) defkey = defkey && key[i] == i;
            Placed pk(key, size_t(ka)), pm(msg, size_t(ma));
            uint64_t r = 0;
            if (v == "plain") r = tlx::siphash_plain(pk.p, pm.p, msg.size());
#if defined(__SSE2__)
            else if (v == "sse2") r = tlx::siphash_sse2(pk.p, pm.p, msg.size());
#endif
            else if (v == "auto") r = tlx::siphash(pk.p, pm.p, msg.size());
            else if (v == "dk" && defkey) r = tlx::siphash(static_cast<const uint8_t*>(pm.p), msg.size());
            else if (v == "dkc" && defkey) r = tlx::siphash(reinterpret_cast<const char*>(pm.p), msg.size());
            else if (v == "sv" && defkey) r = tlx::siphash(tlx::string_view(reinterpret_cast<const char*>(pm.p), msg.size()));
            else { vh::answer("bad-op"); continue; }
            std::string res = hexword(r);
            // the harness' own reference (oracle of the sipz lines) must agree with the Python reference
            if (hexword(ref_siphash24(key.data(), msg.data(), msg.size())) != t[2]) res += " HARNESS-REFERENCE-DISAGREES";
            vh::answer(res);
            if (res != t[2])
                vh::viol("siphash-mismatch " + v + " len=" + std::to_string(msg.size()) + " keyalign=" + t[3] + " msgalign=" + t[5] +
                         " got=" + res + " want=" + t[2]);
            continue;
        }
        vh::answer("bad-op");
    }
    return 0;
}
