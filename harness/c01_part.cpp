// one translation unit per container kind (compiled in parallel by checks/c01.py): -DC01_KIND=0..3
#include "c01.hpp"

#ifndef C01_KIND
#error "compile with -DC01_KIND=0|1|2|3"
#endif

#define C01_CAT2(a, b) a##b
#define C01_CAT(a, b) C01_CAT2(a, b)

IRunner* C01_CAT(c01_make_, C01_KIND)(int l, int i, bool bin, int mode0, int mode1) {
#define SL(LL, II) if (l == LL && i == II) return new Runner<C01_KIND, LL, II>(mode0, mode1, bin);
    SL(4, 4) SL(4, 5) SL(5, 4) SL(5, 5) SL(6, 6) SL(7, 7) SL(8, 8) SL(16, 16) SL(4, 7) SL(7, 4) SL(5, 16) SL(16, 5) SL(16, 4) SL(64, 21)
#undef SL
    return nullptr;
}
