// C04 harness: explicit instantiations of run_once<> (see c04_run.hpp), part A.
// name: t<TreeBits>s<smallsort_threshold>i<inssort_threshold>[n = no work sharing]
//       [r = enable_rest_size][u/e = other classifier classes][k = 32-bit keys]; def = public API
#include "c04_run.hpp"

const ParamInfo PARAMS_A[] = {
    {"def", &run_once<void, true>, true},
    {nullptr, nullptr, false}};
