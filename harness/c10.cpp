// C10 harness: the real tlx::ThreadPool under the deterministic scheduler
// (harness/detsched, force-included shim).  Line protocol:
//
//   pool <n> [init=<k>]      number of worker threads (>= 1); init=<k>: pass an init_thread callback that
//                            yields k times (a worker that is neither idle nor busy while starting up)
//   job <code> <act>...      body of job code <code>: e<code> = enqueue a job, t = terminate(), d = done(),
//                            i = idle(), x = throw std::runtime_error (the rest of the body is not executed;
//                            the pool catches and logs it)
//                            after a `~`: what the DESTRUCTOR of the job's closure does (e<code> | d | i) — the
//                            closure captures an object whose destructor logs `job~<id>` and may enqueue a
//                            continuation (fork-join idiom) or read the observers
//   client <call>...         a client thread: e<code> | t | d | i | w (loop_until_empty) | u (loop_until_terminate)
//   main <call>...           calls made by the main thread itself after starting the clients
//   run seed=<n> [stick=<0..255>] [spur=<k>] [max=<steps>] [sched=<csv>]
//   explore runs=<n> [spur=<k>] [max=<steps>]   depth-first enumeration of all schedules (up to n runs);
//                            answer `explored=<runs> complete=<0|1> violated=<0|1>`
//   sched                    explicit schedule (draw list) reproducing the last run
//
// `run` executes: main constructs the pool (spawning the workers, thread ids 1..n),
// spawns the clients (ids n+1..), performs its own calls, joins the clients and
// destroys the pool.  Answer: `end=<done|rest|limit> jobs=<pushed> runs=<csv> done=<done()> thrown=<n> steps=<n> | <event trace>`.
//
// Direct oracle (independent of the Lean model), `#VIOL` lines:
//   * a job body executed a second time;
//   * loop_until_empty returned while a job was queued or running (private jobs_/busy_),
//     or while a job pushed before had not run exactly once, or done() != number of finished jobs
//     (a job that threw counts as run and as finished: the pool catches the exception and carries on);
//   * the closure of a job destroyed more than once / not at all, before its body ended, after the worker's
//     bookkeeping for it (++done_), by another thread than the worker that ran it, or while the destroying
//     thread holds the pool mutex; loop_until_empty returned while the closure of a job that ran is still alive;
//     a thread re-locking the pool mutex it owns (self-deadlock);
//   * done() larger than the number of finished job bodies or more than <workers> behind it, done() decreasing,
//     idle() > size(), size() != <workers>; init_thread not called exactly once per worker with its index
//     before the worker's first job; number of logged exceptions != number of jobs that threw;
//   * loop_until_terminate returned while !terminate_ or busy_ != 0;
//   * a worker picked a job (++busy_) although terminate_ was already set (the real worker checks terminate_ and
//     picks in ONE critical section, terminate_ is set under the mutex: jobs picked before the flag was set finish,
//     every job still queued at that moment is dropped — termination never waits for a backlog), or without
//     holding the mutex; after a loop_until_terminate() call has returned: a job picked, a job body started,
//     done() changed;
//   * the run came to rest with a thread blocked in a condition wait whose predicate holds
//     (lost wake-up / stranded waiter) or blocked on the mutex (deadlock), or with a terminate() call
//     (from a job or an outside thread) still blocked in a condition wait: terminate() never waits;
//   * at the normal end: a job ran more than once, done() != finished jobs.
#include <algorithm>
#include <cstring>
#include <memory>
#include <stdexcept>

#include "common.hpp"

#define private public
#include <tlx/thread_pool.hpp>
#undef private

using detsched::Op;
using detsched::Sched;

struct Act { char kind; int code; };

struct Scenario {
    int nworkers = -1;
    int init_yields = -1;                    // -1: no init_thread callback
    std::map<int, std::vector<Act>> jobs;
    std::map<int, std::vector<Act>> dtors;    // what the closure's destructor does
    std::vector<std::vector<Act>> clients;
    std::vector<Act> main_calls;
};

struct JobInst {
    int code; int id = -1; int runs = 0; bool finished = false; bool threw = false; long effect = 0;
    int destroyed = 0; bool counted = false; int runner = -1;
};

struct RunState {
    alignas(tlx::ThreadPool) unsigned char store[sizeof(tlx::ThreadPool)];
    tlx::ThreadPool* pool = nullptr;
    bool constructed = false, destroyed = false;
    std::vector<std::unique_ptr<JobInst>> insts;
    std::vector<JobInst*> pushed;            // in push (= id) order
    std::map<int, JobInst*> cur_enq;         // logical thread -> job being enqueued
    std::map<int, char> in_call;             // logical thread -> blocking call it is in
    int finished_jobs = 0;
    int thrown_jobs = 0;
    std::vector<int> dropped;                // closures destroyed with the queue by ~ThreadPool
    std::map<int, JobInst*> cur_run;         // worker thread -> the job it ran last
    std::map<int, int> init_calls;           // worker index -> number of init_thread calls
    std::map<int, long long> last_done;      // logical thread -> last value of done() it saw
    long long final_done = -1;
    long long done_seen = 0;                 // value of done_ after its last read-modify-write of the (not abandoned) run
    long long last_busy = 0;                 // value of busy_ after its last read-modify-write
    bool lut_returned = false;               // some loop_until_terminate() call has returned
    long long done_at_lut = -1;              // done_ at that moment
    bool in_dtor = false;
    std::vector<std::string> viols;
    void viol(const std::string& s) { viols.push_back(s); }
};

static Scenario sc;
static RunState* rs = nullptr;
static std::ostringstream cerr_capture;     // what the pool logs ("EXCEPTION: …") goes here, not to stderr
static std::vector<uint64_t> last_resolved;

static bool parse_act(const std::string& t, bool in_job, Act& a) {
    if (t == "t") { a = {'t', 0}; return true; }
    if (t == "d") { a = {'d', 0}; return true; }
    if (t == "i") { a = {'i', 0}; return true; }
    if (in_job && t == "x") { a = {'x', 0}; return true; }
    if (!in_job && t == "w") { a = {'w', 0}; return true; }
    if (!in_job && t == "u") { a = {'u', 0}; return true; }
    if (t.size() >= 2 && t[0] == 'e') {
        for (size_t i = 1; i < t.size(); ++i) if (!isdigit(static_cast<unsigned char>(t[i]))) return false;
        if (t.size() > 4) return false;
        a = {'e', std::stoi(t.substr(1))};
        return true;
    }
    return false;
}

static void do_call(const Act& a);

// The object captured by a job's closure: its destructor is the "job destroyed" event.
struct Closure {
    JobInst* inst;
    explicit Closure(JobInst* i) : inst(i) {}
    Closure(const Closure&) = delete;
    Closure& operator=(const Closure&) = delete;
    ~Closure();
};

Closure::~Closure() {
    Sched& S = Sched::get();
    ++inst->destroyed;
    if (rs == nullptr || !Sched::in_logical_thread() || S.aborting()) return;   // clean-up of an abandoned run
    int me = Sched::self_id();
    if (inst->destroyed > 1) rs->viol("closure of job " + std::to_string(inst->id) + " destroyed " + std::to_string(inst->destroyed) + " times");
    if (rs->in_dtor && me == 0) {
        // ~ThreadPool (main thread) destroys the jobs that are still queued; nothing may touch the pool any more
        if (inst->runs != 0) rs->viol("job " + std::to_string(inst->id) + " was run but its closure lived until ~ThreadPool");
        rs->dropped.push_back(inst->id);     // logged in id order: std::deque destroys its nodes in an unspecified order
        return;
    }
    if (inst->runs == 0) rs->viol("closure of job " + std::to_string(inst->id) + " destroyed although the job never ran and the pool is alive");
    else {
        if (!inst->finished) rs->viol("closure of job " + std::to_string(inst->id) + " destroyed before its body ended");
        if (inst->counted) rs->viol("closure of job " + std::to_string(inst->id) + " destroyed after the worker's bookkeeping (++done_) for it");
        if (inst->runner != me) rs->viol("closure of job " + std::to_string(inst->id) + " destroyed by thread " + std::to_string(me) + ", run by thread " + std::to_string(inst->runner));
    }
    if (rs->pool->mutex_.st_.owner == me)
        rs->viol("closure of job " + std::to_string(inst->id) + " destroyed while thread " + std::to_string(me) + " holds the pool mutex");
    // what the destructor does: enqueue a continuation, read the observers
    auto it = sc.dtors.find(inst->code);
    if (it != sc.dtors.end()) {
        // a destructor must not let the exception that unwinds an abandoned run escape
        try { for (const Act& a : it->second) do_call(a); } catch (detsched::Abort&) { return; }
    }
    S.note("job~" + std::to_string(inst->id));
}

static void run_job(JobInst* inst) {
    Sched& S = Sched::get();
    // an abandoned run (stuck / step limit): in abort mode enabled operations are simply performed, so a worker
    // with an endless supply of jobs (self-re-enqueueing jobs) would never block; unwind it here
    if (S.aborting()) throw detsched::Abort();
    if (++inst->runs > 1) rs->viol("job " + std::to_string(inst->id) + " executed " + std::to_string(inst->runs) + " times");
    if (rs->lut_returned)
        rs->viol("body of job " + std::to_string(inst->id) + " started after loop_until_terminate had returned (pool not quiescent at return)");
    S.note("job+" + std::to_string(inst->id));
    inst->runner = Sched::self_id();
    rs->cur_run[inst->runner] = inst;
    {
        // the worker executing a job has been through init_thread exactly once
        int p = Sched::self_id() - 1;
        if (sc.init_yields >= 0 && rs->init_calls[p] != 1)
            rs->viol("worker " + std::to_string(p) + " runs a job after " + std::to_string(rs->init_calls[p]) + " init_thread calls");
    }
    inst->effect = 1000 + inst->id;
    auto it = sc.jobs.find(inst->code);
    if (it != sc.jobs.end())
        for (const Act& a : it->second) {
            if (a.kind == 'x') {
                // the job throws: it has run (once), the pool catches the exception and carries on
                inst->finished = true;
                inst->threw = true;
                ++rs->finished_jobs;
                ++rs->thrown_jobs;
                S.note("job!" + std::to_string(inst->id));
                throw std::runtime_error("job " + std::to_string(inst->id));
            }
            do_call(a);
        }
    inst->finished = true;
    ++rs->finished_jobs;
    S.note("job-" + std::to_string(inst->id));
}

static void check_lue_return() {
    tlx::ThreadPool& p = *rs->pool;
    // runs atomically with the unlock that ends loop_until_empty
    if (!p.jobs_.empty()) rs->viol("loop_until_empty returned with " + std::to_string(p.jobs_.size()) + " job(s) queued");
    if (p.busy_.peek() != 0) rs->viol("loop_until_empty returned with busy=" + std::to_string(p.busy_.peek()));
    for (JobInst* j : rs->pushed) {
        if (j->runs != 1 || !j->finished || j->effect != 1000 + j->id) {
            rs->viol("loop_until_empty returned but job " + std::to_string(j->id) + " has runs=" + std::to_string(j->runs) +
                     " finished=" + std::to_string(j->finished));
            break;
        }
    }
    for (JobInst* j : rs->pushed)
        if (j->runs == 1 && j->destroyed != 1) {
            rs->viol("loop_until_empty returned but the closure of job " + std::to_string(j->id) + " is still alive (its destructor has not run)");
            break;
        }
    if (static_cast<long long>(p.done_.peek()) != rs->finished_jobs)
        rs->viol("loop_until_empty returned with done()=" + std::to_string(p.done_.peek()) + " but " +
                 std::to_string(rs->finished_jobs) + " job(s) finished");
}

static void do_call(const Act& a) {
    Sched& S = Sched::get();
    int me = Sched::self_id();
    switch (a.kind) {
    case 'e': {
        rs->insts.push_back(std::make_unique<JobInst>());
        JobInst* inst = rs->insts.back().get();
        inst->code = a.code;
        rs->cur_enq[me] = inst;
        {
            // the closure owns the Closure object; the temporaries it is moved from hold nothing
            std::shared_ptr<Closure> cl = std::make_shared<Closure>(inst);
            rs->pool->enqueue([cl = std::move(cl)]() { run_job(cl->inst); });
        }
        rs->cur_enq.erase(me);
        break;
    }
    case 't': {
        // terminate() sets the flag and notifies; a call that is still blocked when the run is at rest never returns
        bool had = rs->in_call.count(me) != 0;
        char prev = had ? rs->in_call[me] : '?';
        rs->in_call[me] = 't';
        rs->pool->terminate();
        if (had) rs->in_call[me] = prev; else rs->in_call.erase(me);
        break;
    }
    case 'd': {
        long long v = static_cast<long long>(rs->pool->done());
        if (S.aborting()) break;
        // atomic with the load: job bodies finished so far
        if (v > rs->finished_jobs) rs->viol("done()=" + std::to_string(v) + " but only " + std::to_string(rs->finished_jobs) + " job(s) finished");
        if (v + sc.nworkers < rs->finished_jobs)
            rs->viol("done()=" + std::to_string(v) + " is more than " + std::to_string(sc.nworkers) + " behind the " + std::to_string(rs->finished_jobs) + " finished job(s)");
        if (rs->last_done.count(me) && v < rs->last_done[me]) rs->viol("done() went down from " + std::to_string(rs->last_done[me]) + " to " + std::to_string(v));
        rs->last_done[me] = v;
        S.note("r=" + std::to_string(v));
        break;
    }
    case 'i': {
        size_t v = rs->pool->idle();
        if (S.aborting()) break;
        if (rs->pool->size() != static_cast<size_t>(sc.nworkers)) rs->viol("size()=" + std::to_string(rs->pool->size()) + " for " + std::to_string(sc.nworkers) + " workers");
        if (v > rs->pool->size()) rs->viol("idle()=" + std::to_string(v) + " > size()");
        S.note("r=" + std::to_string(v));
        break;
    }
    case 'w':
        rs->in_call[me] = 'w';
        rs->pool->loop_until_empty();
        rs->in_call.erase(me);
        if (!S.aborting()) { check_lue_return(); S.note("ret(w)"); }
        break;
    case 'u':
        rs->in_call[me] = 'u';
        rs->pool->loop_until_terminate();
        rs->in_call.erase(me);
        if (!S.aborting()) {
            if (!rs->pool->terminate_.peek()) rs->viol("loop_until_terminate returned although terminate_ is not set");
            if (rs->pool->busy_.peek() != 0) rs->viol("loop_until_terminate returned with busy=" + std::to_string(rs->pool->busy_.peek()));
            // from now on the pool is quiescent for good: no job is picked, no body runs, done() is stable
            if (!rs->lut_returned) { rs->lut_returned = true; rs->done_at_lut = static_cast<long long>(rs->pool->done_.peek()); }
            S.note("ret(u)");
        }
        break;
    }
}

static void scenario_main() {
    Sched& S = Sched::get();
    tlx::ThreadPool* p = reinterpret_cast<tlx::ThreadPool*>(rs->store);
    S.name(&p->mutex_, "m");
    S.name(&p->cv_jobs_, "cvj");
    S.name(&p->cv_finished_, "cvf");
    S.name(&p->busy_, "busy");
    S.name(&p->idle_, "idle");
    S.name(&p->done_, "done");
    S.name(&p->terminate_, "term");
    rs->pool = p;
    if (sc.init_yields >= 0)
        new (p) tlx::ThreadPool(static_cast<size_t>(sc.nworkers), tlx::ThreadPool::InitThread([](size_t idx) {
            ++rs->init_calls[static_cast<int>(idx)];
            if (static_cast<int>(idx) != Sched::self_id() - 1)
                rs->viol("init_thread called with index " + std::to_string(idx) + " in thread " + std::to_string(Sched::self_id()));
            for (int k = 0; k < sc.init_yields; ++k) Sched::get().yield();
        }));
    else
        new (p) tlx::ThreadPool(static_cast<size_t>(sc.nworkers));
    rs->constructed = true;
    std::vector<int> ids;
    for (size_t i = 0; i < sc.clients.size(); ++i) {
        const std::vector<Act>* calls = &sc.clients[i];
        ids.push_back(S.spawn([calls]() { for (const Act& a : *calls) do_call(a); }));
    }
    for (const Act& a : sc.main_calls) do_call(a);
    for (int id : ids) S.join(id);
    if (S.aborting()) return;
    S.note("dtor");
    rs->in_dtor = true;
    p->~ThreadPool();   // the final done() check runs when the last worker was joined (event hook)
    rs->destroyed = true;
    std::sort(rs->dropped.begin(), rs->dropped.end());
    for (int id : rs->dropped) S.note("job~" + std::to_string(id));
    S.note("end");
}

static void on_stuck(const std::vector<detsched::Blocked>& blocked) {
    tlx::ThreadPool& p = *rs->pool;
    bool term = p.terminate_.peek();
    size_t busy = p.busy_.peek();
    bool qempty = p.jobs_.empty();
    for (const auto& b : blocked) {
        if (b.op == Op::Lock && b.self_owner) {
            rs->viol("self-deadlock: thread " + std::to_string(b.tid) + " locks the pool mutex it already owns");
        } else if (b.op == Op::Lock) {
            rs->viol("deadlock: thread " + std::to_string(b.tid) + " blocked on the mutex at rest");
        } else if (b.op == Op::Wake && b.obj == &p.cv_jobs_) {
            if (term || !qempty)
                rs->viol("stranded worker: thread " + std::to_string(b.tid) + " waits for jobs although terminate=" +
                         std::to_string(term) + " queued=" + std::to_string(p.jobs_.size()));
        } else if (b.op == Op::Wake && b.obj == &p.cv_finished_) {
            char c = rs->in_call.count(b.tid) ? rs->in_call[b.tid] : '?';
            if (c == 't') {
                rs->viol("deadlock: terminate() called by thread " + std::to_string(b.tid) + " is blocked for good (busy=" +
                         std::to_string(busy) + " terminate=" + std::to_string(term) + "); terminate() must return without waiting for the caller's own job");
                continue;
            }
            bool pred = (c == 'w') ? (qempty && busy == 0) : (term && busy == 0);
            if (pred)
                rs->viol(std::string("stranded waiter: thread ") + std::to_string(b.tid) + " blocked in " +
                         (c == 'w' ? "loop_until_empty" : "loop_until_terminate") + " although its predicate holds (queued=" +
                         std::to_string(p.jobs_.size()) + " busy=" + std::to_string(busy) + " terminate=" + std::to_string(term) + ")");
            else if (c == 'w' && !term)
                rs->viol("loop_until_empty of thread " + std::to_string(b.tid) + " can never return although the pool is not terminated");
        } else if (b.op == Op::Wake) {
            rs->viol("thread " + std::to_string(b.tid) + " blocked on an unknown condition variable");
        }
    }
}

static bool get_u64(const std::string& t, const char* key, uint64_t& out) {
    size_t n = strlen(key);
    if (t.compare(0, n, key) != 0 || t.size() <= n || t[n] != '=') return false;
    for (size_t i = n + 1; i < t.size(); ++i) if (!isdigit(static_cast<unsigned char>(t[i]))) return false;
    if (t.size() - n - 1 > 19) return false;
    out = std::stoull(t.substr(n + 1));
    return true;
}

struct RunParams {
    uint64_t seed = 1, stick = 0, spur = 0, maxs = 4000, maxruns = 2000;
    std::vector<uint64_t> sched;
};

static bool parse_params(const std::vector<std::string>& t, RunParams& p) {
    for (size_t i = 1; i < t.size(); ++i) {
        uint64_t v;
        if (get_u64(t[i], "seed", v)) p.seed = v;
        else if (get_u64(t[i], "stick", v)) p.stick = v;
        else if (get_u64(t[i], "spur", v)) p.spur = v;
        else if (get_u64(t[i], "max", v)) p.maxs = v;
        else if (get_u64(t[i], "runs", v)) p.maxruns = v;
        else if (t[i].compare(0, 6, "sched=") == 0) {
            std::string s = t[i].substr(6);
            if (s != "-") {
                for (char ch : s) if (!isdigit(static_cast<unsigned char>(ch)) && ch != ',') return false;
                std::istringstream is(s);
                std::string w;
                while (std::getline(is, w, ',')) { if (w.empty() || w.size() > 18) return false; p.sched.push_back(std::stoull(w)); }
            }
        } else return false;
    }
    return p.stick <= 255 && p.maxs <= 100000 && p.maxruns <= 10000000;
}

// one run of the scenario; returns the answer line, fills `v` with the oracle verdicts
static std::string execute(const RunParams& p, bool tail_zero, std::vector<std::string>& v) {
    Sched& S = Sched::get();
    RunState state;
    rs = &state;
    S.seed = p.seed; S.sched = p.sched; S.stick = static_cast<unsigned>(p.stick); S.spur = static_cast<unsigned>(p.spur);
    S.max_steps = p.maxs;
    S.tail_zero = tail_zero;
    S.on_stuck = on_stuck;
    S.on_event = [](int tid, Op op, const void* obj, long long val) {
        if (op == Op::Join && tid == 0 && rs->in_dtor && val == sc.nworkers) {
            // inside ~ThreadPool, all workers joined, members still alive
            rs->final_done = static_cast<long long>(rs->pool->done_.peek());
            if (rs->final_done != rs->finished_jobs)
                rs->viol("at the end done()=" + std::to_string(rs->final_done) + " but " + std::to_string(rs->finished_jobs) + " job(s) finished");
        }
        if (op == Op::Rmw && obj == &rs->pool->done_) {
            // the worker's bookkeeping for the job it ran last
            auto it = rs->cur_run.find(tid);
            if (it != rs->cur_run.end()) it->second->counted = true;
            rs->done_seen = val;
            if (rs->lut_returned)
                rs->viol("done() changed to " + std::to_string(val) + " after loop_until_terminate had returned with done()=" +
                         std::to_string(rs->done_at_lut));
        }
        if (op == Op::Rmw && obj == &rs->pool->busy_) {
            if (val > rs->last_busy) {
                // ++busy_: the worker picks a job.  The real worker does this in the critical section in which it
                // has read terminate_ == false, and terminate_ is only set under the mutex: once terminate() /
                // ~ThreadPool has set the flag no further job is picked (jobs picked before finish, queued ones are dropped)
                if (rs->pool->terminate_.peek())
                    rs->viol("worker thread " + std::to_string(tid) + " picked a job (++busy_) although terminate_ was already set: " +
                             "termination waits for queued jobs, not only for the running ones");
                if (rs->pool->mutex_.st_.owner != tid)
                    rs->viol("worker thread " + std::to_string(tid) + " picked a job (++busy_) without holding the pool mutex");
                if (rs->lut_returned)
                    rs->viol("worker thread " + std::to_string(tid) + " picked a job after loop_until_terminate had returned");
            }
            rs->last_busy = val;
        }
        if (op == Op::NotifyOne && obj == &rs->pool->cv_jobs_) {
            auto it = rs->cur_enq.find(tid);
            if (it != rs->cur_enq.end() && it->second->id < 0) {
                it->second->id = static_cast<int>(rs->pushed.size());
                rs->pushed.push_back(it->second);
            }
        }
    };
    cerr_capture.str("");
    detsched::End e = S.run(scenario_main);
    {
        // the catch path of the worker logs every exception it swallowed
        const std::string log = cerr_capture.str();
        int logged = 0;
        for (size_t pos = log.find("EXCEPTION:"); pos != std::string::npos; pos = log.find("EXCEPTION:", pos + 1)) ++logged;
        if (e != detsched::End::StepLimit && logged != state.thrown_jobs)
            state.viol(std::to_string(state.thrown_jobs) + " job(s) threw but the pool logged " + std::to_string(logged) + " exception(s)");
        if (e == detsched::End::Done && sc.init_yields >= 0)
            for (int p = 0; p < sc.nworkers; ++p)
                if (state.init_calls[p] != 1) { state.viol("init_thread called " + std::to_string(state.init_calls[p]) + " times for worker " + std::to_string(p)); break; }
    }
    // summary (all logical threads are gone now)
    long long done = state.final_done;
    // an abandoned run: what the threads do while they are unwound (abort mode) does not count
    if (state.constructed && !state.destroyed) done = state.done_seen;
    if (e == detsched::End::Done)
        for (JobInst* j : state.pushed)
            if (j->destroyed != 1) { state.viol("closure of job " + std::to_string(j->id) + " destroyed " + std::to_string(j->destroyed) + " times by the end"); break; }
    for (JobInst* j : state.pushed)
        if (j->runs > 1) { state.viol("job " + std::to_string(j->id) + " ran " + std::to_string(j->runs) + " times"); break; }
    std::ostringstream os;
    os << "end=" << (e == detsched::End::Done ? "done" : e == detsched::End::Stuck ? "rest" : "limit")
       << " jobs=" << state.pushed.size() << " runs=";
    if (state.pushed.empty()) os << "-";
    for (size_t i = 0; i < state.pushed.size(); ++i) os << (i ? "," : "") << state.pushed[i]->runs;
    os << " done=" << done << " thrown=" << state.thrown_jobs << " steps=" << S.steps << " |";
    for (const auto& ev : S.trace) os << ' ' << ev;
    if (state.constructed && !state.destroyed) state.pool->~ThreadPool();
    v = state.viols;
    rs = nullptr;
    return os.str();
}

static std::string do_run(const std::vector<std::string>& t) {
    if (sc.nworkers < 1) return "bad-op";
    RunParams p;
    if (!parse_params(t, p)) return "bad-op";
    std::vector<std::string> v;
    std::string ans = execute(p, false, v);
    last_resolved = Sched::get().resolved;
    vh::answer(ans);
    for (const auto& m : v) vh::viol(m);
    return "";
}

// systematic exploration of all schedules (depth first) up to `runs` runs
static std::string do_explore(const std::vector<std::string>& t) {
    if (sc.nworkers < 1) return "bad-op";
    RunParams p;
    if (!parse_params(t, p) || !p.sched.empty()) return "bad-op";
    p.stick = 0;
    std::vector<std::string> first_viols;
    auto res = detsched::explore([&](const std::vector<uint64_t>& sched) {
        RunParams q = p;
        q.sched = sched;
        std::vector<std::string> v;
        execute(q, true, v);
        if (!v.empty() && first_viols.empty()) first_viols = v;
        return !v.empty();
    }, p.maxruns);
    std::ostringstream os;
    os << "explored=" << res.runs << " complete=" << (res.complete ? 1 : 0) << " violated=" << (res.violated ? 1 : 0);
    vh::answer(os.str());
    if (res.violated) {
        last_resolved = res.witness;
        for (const auto& m : first_viols) vh::viol(m + " [schedule sched=" + vh::show_csv(res.witness) + "]");
    }
    return "";
}

int main(int argc, char** argv) {
    if (argc < 2 || std::string(argv[1]) != "run") { std::cerr << "usage: c10 run\n"; return 2; }
    std::cerr.rdbuf(cerr_capture.rdbuf());
    std::string line;
    while (std::getline(std::cin, line)) {
        auto t = vh::tokens(line);
        if (t.empty()) { vh::answer(""); continue; }
        if (t[0][0] == '#') { vh::answer(line); continue; }
        if (t[0] == "case") { sc = Scenario(); last_resolved.clear(); vh::answer("case"); continue; }
        std::string out = "bad-op";
        if (t[0] == "pool" && (t.size() == 2 || t.size() == 3) && t[1].size() <= 2 && isdigit(static_cast<unsigned char>(t[1][0])) &&
            (t[1].size() == 1 || isdigit(static_cast<unsigned char>(t[1][1])))) {
            int n = std::stoi(t[1]);
            uint64_t k = 0;
            bool ok = n >= 1 && n <= 8;
            if (t.size() == 3 && !(get_u64(t[2], "init", k) && k <= 8)) ok = false;
            if (ok) { sc.nworkers = n; sc.init_yields = (t.size() == 3) ? static_cast<int>(k) : -1; out = "ok"; }
        } else if (t[0] == "job" && t.size() >= 2) {
            Act c;
            if (parse_act("e" + t[1], true, c)) {
                std::vector<Act> body, dtor;
                bool ok = true, in_dtor = false;
                for (size_t i = 2; i < t.size(); ++i) {
                    if (t[i] == "~" && !in_dtor) { in_dtor = true; continue; }
                    Act a;
                    if (!parse_act(t[i], true, a)) ok = false;
                    else if (in_dtor) { if (a.kind == 'e' || a.kind == 'd' || a.kind == 'i') dtor.push_back(a); else ok = false; }
                    else body.push_back(a);
                }
                if (ok) { sc.jobs[c.code] = body; sc.dtors[c.code] = dtor; out = "ok"; }
            }
        } else if ((t[0] == "client" || t[0] == "main")) {
            std::vector<Act> calls;
            bool ok = true;
            for (size_t i = 1; i < t.size(); ++i) { Act a; if (!parse_act(t[i], false, a)) ok = false; else calls.push_back(a); }
            if (ok && t[0] == "client" && sc.clients.size() < 8) { sc.clients.push_back(calls); out = "ok"; }
            if (ok && t[0] == "main") { sc.main_calls = calls; out = "ok"; }
        } else if (t[0] == "run") {
            out = do_run(t);
            if (out.empty()) continue;
        } else if (t[0] == "explore") {
            out = do_explore(t);
            if (out.empty()) continue;
        } else if (t[0] == "sched" && t.size() == 1) {
            out = vh::show_csv(last_resolved);
        }
        vh::answer(out);
    }
    return 0;
}
