// C04 harness: explicit instantiations of run_once<> (see c04_run.hpp), part D.
// name: t<TreeBits>s<smallsort_threshold>i<inssort_threshold>[n = no work sharing]
//       [r = enable_rest_size][u/e = other classifier classes][k = 32-bit keys]; def = public API
#include "c04_run.hpp"

const ParamInfo PARAMS_D[] = {
    {"t2s8i4u", &run_once<P<2, 8, 4, true, false, 1>, false>, false},
    {"t2s8i4e", &run_once<P<2, 8, 4, true, false, 2>, false>, false},
    {"t2s8i4k", &run_once<P<2, 8, 4, true, false, 0, uint32_t>, false>, false},
    {"t1s4i2", &run_once<P<1, 4, 2>, false>, false},
    {"t1s2i1", &run_once<P<1, 2, 1>, false>, false},
    {nullptr, nullptr, false}};
