// C01/C02 harness entry point; the container code lives in c01.hpp / c01_part.cpp (see there).
#include "c01.hpp"

bool g_c01 = true, g_c02 = true;

IRunner* c01_make_0(int l, int i, bool bin, int mode0, int mode1);
IRunner* c01_make_1(int l, int i, bool bin, int mode0, int mode1);
IRunner* c01_make_2(int l, int i, bool bin, int mode0, int mode1);
IRunner* c01_make_3(int l, int i, bool bin, int mode0, int mode1);

static IRunner* make(const std::string& kind, int l, int i, bool bin, int mode, int mode1) {
    if (kind == "set") return c01_make_0(l, i, bin, mode, mode1);
    if (kind == "mset") return c01_make_1(l, i, bin, mode, mode1);
    if (kind == "map") return c01_make_2(l, i, bin, mode, mode1);
    if (kind == "mmap") return c01_make_3(l, i, bin, mode, mode1);
    return nullptr;
}

static IRunner* cur = nullptr;

static void end_case() {
    delete cur;
    cur = nullptr;
    auto& Lg = vh::Ledger::get();
    Blocks& B = Blocks::get();
    if (g_c02) {
        for (auto& e : Lg.errors) vh::viol("invariant: element lifetime at destruction: " + e);
        for (auto& e : B.errors) vh::viol("invariant: allocator at destruction: " + e);
        if (!B.live.empty()) vh::viol("invariant: " + std::to_string(B.live.size()) + " node blocks never returned to the allocator");
        if (!Lg.alive.empty()) vh::viol("invariant: " + std::to_string(Lg.alive.size()) + " key/value objects still alive after destroying the containers");
    }
    for (auto& kv : B.live) ::operator delete(const_cast<void*>(kv.first));
    B.live.clear(); B.errors.clear();
    Lg.reset();
}

int main(int argc, char** argv) {
    tlx::set_die_with_exception(true);
    if (argc > 2) {
        std::string m = argv[2];
        g_c01 = (m == "c01" || m == "all");
        g_c02 = (m == "c02" || m == "all");
    }
    std::string line;
    bool in_case = false;
    while (std::getline(std::cin, line)) {
        auto t = vh::tokens(line);
        if (t.empty()) { vh::answer(""); continue; }
        if (t[0][0] == '#') { vh::answer(line); continue; }
        if (t[0] == "case") {
            if (in_case) end_case();
            in_case = true;
            vh::answer("case");
            continue;
        }
        if (t[0] == "cfg") {
            // cfg <kind> <leaf> <inner> <binsearch> <order of register 0> [<order of register 1>]
            if (cur || (t.size() != 6 && t.size() != 7)) { vh::answer("bad-op"); continue; }
            int l = std::atoi(t[2].c_str()), i = std::atoi(t[3].c_str());
            int bin = std::atoi(t[4].c_str()), mode = std::atoi(t[5].c_str());
            int mode1 = t.size() == 7 ? std::atoi(t[6].c_str()) : mode;
            if (mode < 0 || mode > 2 || mode1 < 0 || mode1 > 2) { vh::answer("bad-op"); continue; }
            cur = make(t[1], l, i, bin != 0, mode, mode1);
            vh::answer(cur ? "cfg" : "bad-op");
            continue;
        }
        if (!cur) { vh::answer("bad-op"); continue; }
        cur->exec(t, line);
    }
    if (in_case) end_case();
    return 0;
}
