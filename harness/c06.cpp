// C06 harness: tlx::(stable_)parallel_mergesort behind the line protocol.
//
//   ms <variant> <cmp> <split> <threads> <osf> <elem> <keys csv>
//        variant s|u (stable / unstable)     cmp lt|gt|half      split exact|sampling
//        threads >= 1, osf = parallel_multiway_merge_oversampling >= 1
//        elem pod|log|own   pod: trivially copyable struct; log: copy operations are recorded;
//                           own: additionally owns a heap cell (leaks / double frees -> ASan, LSan)
//                           log/own are move-sensitive: a moved-from element is marked and poisoned, any later
//                           read of it (copy, move, comparison, presence in the result) is a violation
//                           str: std::string key (zero-padded decimal, keys >= 0, cmp lt|gt only)
//                     containers other than std::vector (trivially copyable element, answered like pod):
//                           deque   std::deque of 16-byte elements (32 per 512-byte block)
//                           deque64 std::deque of 64-byte elements (8 per block)
//                           strided user-defined random-access iterator with stride 2 over an array whose
//                                   in-between guard elements must stay untouched
//                           rev     std::reverse_iterator over an array
// answer
//   out <key:idx,...> cw <start+len,...> mw <start+len,...> live <delta> spec <0|1>
//        out : the caller's range afterwards, elements tagged with their original index; for the
//              unstable variant the order inside runs of equivalent keys is canonicalised (by idx)
//        cw  : per thread, the window of the input that the thread copy-constructed from
//              (uninitialized_copy into its temporary) = the `starts` table      (log/own only)
//        mw  : per thread, the window of the range it assigned to while merging back
//              = the offset/length table derived from `pieces`                   (log/own only)
//        live: live element objects after the call minus before                  (log/own only)
//
// Direct oracle: std::stable_sort of the tagged input (stable: exact arrangement; unstable: same keys
// position by position and a permutation of the input), every position assigned exactly once, every
// input element copied exactly once, live delta 0 (temporaries destroyed), ASan/UBSan/LSan; the TSan
// build of the same file reports data races.
#include <algorithm>
#include <atomic>
#include <cstring>
#include <deque>
#include <iterator>
#include <functional>
#include <thread>
#include <utility>
#include <vector>

#include "common.hpp"

#include <tlx/sort/parallel_mergesort.hpp>

using ll = long long;

extern "C" const char* __asan_default_options() { return "stack_trace_format='#%n %L'"; }
extern "C" const char* __ubsan_default_options() { return "stack_trace_format='#%n %L'"; }

static std::atomic<int> g_next_serial{1};
struct Serial { int v; Serial() : v(g_next_serial++) {} };
static thread_local Serial t_serial;

// ---------------------------------------------------------------- element kinds
// Every element type has a *poisoned* operator< / operator> / operator== that orders by a scrambled
// function of the original index — inconsistent with every comparator the harness passes (key <, key >,
// key>>1).  tlx code that forgets to pass `comp` on (std::lower_bound(first, last, v) etc.) still compiles
// and then produces a wrong arrangement that the oracle reports with a concrete input.
static inline unsigned poison(long x) { return static_cast<unsigned>(x + 1) * 2654435761u; }

struct Pod {
    ll key; int idx;
    friend bool operator<(const Pod& a, const Pod& b) { return poison(a.idx) < poison(b.idx); }
    friend bool operator>(const Pod& a, const Pod& b) { return poison(a.idx) > poison(b.idx); }
    friend bool operator==(const Pod& a, const Pod& b) { return a.idx == b.idx; }
};

struct Big {       // 64 bytes: 8 elements per std::deque block
    ll key; int idx; char pad[48];
    friend bool operator<(const Big& a, const Big& b) { return poison(a.idx) < poison(b.idx); }
    friend bool operator>(const Big& a, const Big& b) { return poison(a.idx) > poison(b.idx); }
    friend bool operator==(const Big& a, const Big& b) { return a.idx == b.idx; }
};
static_assert(sizeof(Pod) == 16 && sizeof(Big) == 64, "element sizes chosen for the std::deque block size");

struct SE {        // std::string key: a moved-from key is empty
    std::string key; int idx;
    friend bool operator<(const SE& a, const SE& b) { return poison(a.idx) < poison(b.idx); }
    friend bool operator>(const SE& a, const SE& b) { return poison(a.idx) > poison(b.idx); }
    friend bool operator==(const SE& a, const SE& b) { return a.idx == b.idx; }
};

static std::atomic<bool> g_moved_read{false};      // an element in moved-from state was read
static const ll MOVED_KEY = -987654321;

struct Track {
    const void* base = nullptr;   // the caller's range while a sort runs
    long n = 0;
    size_t esize = 1;
    std::vector<std::atomic<int>> copy_by, copy_cnt, assign_by, assign_cnt;
    std::atomic<long> constructed{0}, destroyed{0};
    void arm(const void* b, long n_, size_t es) {
        base = b; n = n_; esize = es;
        copy_by = std::vector<std::atomic<int>>(n_); copy_cnt = std::vector<std::atomic<int>>(n_);
        assign_by = std::vector<std::atomic<int>>(n_); assign_cnt = std::vector<std::atomic<int>>(n_);
        for (long i = 0; i < n_; ++i) { copy_by[i] = 0; copy_cnt[i] = 0; assign_by[i] = 0; assign_cnt[i] = 0; }
    }
    void disarm() { base = nullptr; n = 0; }
    long index_of(const void* p) const {
        if (!base) return -1;
        long d = static_cast<const char*>(p) - static_cast<const char*>(base);
        if (d < 0 || d >= n * (long)esize || d % (long)esize != 0) return -1;
        return d / (long)esize;
    }
};
static Track g_tr;

template <bool Own>
struct Elem {
    ll key;
    int idx;
    ll* heap;
    bool moved = false;
    static void note_copy_from(const Elem& o) {
        if (o.moved) g_moved_read.store(true, std::memory_order_relaxed);
        long s = g_tr.index_of(&o);
        if (s >= 0) {
            g_tr.copy_by[s].store(t_serial.v, std::memory_order_relaxed);
            g_tr.copy_cnt[s].fetch_add(1, std::memory_order_relaxed);
        }
    }
    void note_assigned() {
        long d = g_tr.index_of(this);
        if (d >= 0) {
            g_tr.assign_by[d].store(t_serial.v, std::memory_order_relaxed);
            g_tr.assign_cnt[d].fetch_add(1, std::memory_order_relaxed);
        }
    }
    Elem() : key(0), idx(-1), heap(Own ? new ll(0) : nullptr) { g_tr.constructed.fetch_add(1, std::memory_order_relaxed); }
    Elem(ll k, int i) : key(k), idx(i), heap(Own ? new ll(k) : nullptr) { g_tr.constructed.fetch_add(1, std::memory_order_relaxed); }
    Elem(const Elem& o) : key(o.key), idx(o.idx), heap(Own ? new ll(o.heap ? *o.heap : MOVED_KEY) : nullptr) {
        g_tr.constructed.fetch_add(1, std::memory_order_relaxed);
        note_copy_from(o);
    }
    Elem(Elem&& o) noexcept : key(o.key), idx(o.idx), heap(o.heap) {
        g_tr.constructed.fetch_add(1, std::memory_order_relaxed);
        note_copy_from(o);
        o.heap = nullptr; o.moved = true; o.key = MOVED_KEY;
    }
    Elem& operator=(const Elem& o) {
        if (o.moved) g_moved_read.store(true, std::memory_order_relaxed);
        key = o.key; idx = o.idx; moved = false;
        if (Own) { if (!heap) heap = new ll(0); *heap = o.heap ? *o.heap : MOVED_KEY; }
        note_assigned();
        return *this;
    }
    Elem& operator=(Elem&& o) noexcept {
        if (o.moved) g_moved_read.store(true, std::memory_order_relaxed);
        if (this != &o) {
            key = o.key; idx = o.idx; moved = false;
            if (Own) { delete heap; heap = o.heap; o.heap = nullptr; }
            o.moved = true; o.key = MOVED_KEY;
        }
        note_assigned();
        return *this;
    }
    ~Elem() {
        if (Own) { delete heap; heap = nullptr; }
        g_tr.destroyed.fetch_add(1, std::memory_order_relaxed);
    }
    // poisoned default order (see above)
    friend bool operator<(const Elem& a, const Elem& b) { return poison(a.idx) < poison(b.idx); }
    friend bool operator>(const Elem& a, const Elem& b) { return poison(a.idx) > poison(b.idx); }
    friend bool operator==(const Elem& a, const Elem& b) { return a.idx == b.idx; }
};

template <typename T> static inline bool is_moved(const T&) { return false; }
template <bool Own> static inline bool is_moved(const Elem<Own>& e) { return e.moved; }
static inline bool is_moved(const SE& e) { return e.key.empty(); }

enum Cmp { LT, GT, HALF };
template <typename T>
struct Comp {
    Cmp c;
    bool operator()(const T& a, const T& b) const {
        if (is_moved(a) || is_moved(b)) g_moved_read.store(true, std::memory_order_relaxed);
        switch (c) {
        case LT: return a.key < b.key;
        case GT: return a.key > b.key;
        default: return half(a.key) < half(b.key);
        }
    }
    static ll half(ll k) { return k >> 1; }
    static const std::string& half(const std::string& k) { return k; }       // not used (str: lt|gt only)
};
static bool lessk(Cmp c, ll a, ll b) {
    switch (c) { case LT: return a < b; case GT: return a > b; default: return (a >> 1) < (b >> 1); }
}

static std::string windows(const std::vector<std::atomic<int>>& by, const std::vector<std::atomic<int>>& cnt) {
    std::string w;
    size_t i = 0, n = by.size();
    while (i < n) {
        if (cnt[i].load() == 0) { ++i; continue; }
        size_t j = i + 1;
        while (j < n && cnt[j].load() > 0 && by[j].load() == by[i].load()) ++j;
        if (!w.empty()) w += ',';
        w += std::to_string(i) + "+" + std::to_string(j - i);
        i = j;
    }
    return w.empty() ? "-" : w;
}

struct KI { ll key; int idx; };

static std::string show(const std::vector<KI>& v, Cmp c, bool stable) {
    std::vector<KI> s = v;
    if (!stable) {
        size_t i = 0;
        while (i < s.size()) {
            size_t j = i + 1;
            while (j < s.size() && !lessk(c, s[i].key, s[j].key) && !lessk(c, s[j].key, s[i].key)) ++j;
            std::sort(s.begin() + i, s.begin() + j, [](const KI& a, const KI& b) { return a.idx < b.idx; });
            i = j;
        }
    }
    if (s.empty()) return "-";
    std::string r;
    for (size_t i = 0; i < s.size(); ++i) { if (i) r += ','; r += std::to_string(s[i].key) + ":" + std::to_string(s[i].idx); }
    return r;
}

static void oracle(const std::vector<ll>& keys, const std::vector<KI>& got, Cmp c, bool stable,
                   std::vector<std::string>& bad) {
    std::vector<KI> want;
    for (size_t i = 0; i < keys.size(); ++i) want.push_back(KI{keys[i], (int)i});
    std::stable_sort(want.begin(), want.end(), [&](const KI& a, const KI& b) { return lessk(c, a.key, b.key); });
    // permutation of the input objects
    std::vector<int> seen(keys.size(), 0);
    bool perm = got.size() == keys.size();
    for (auto& e : got) {
        if (e.idx < 0 || (size_t)e.idx >= keys.size() || e.key != keys[e.idx]) { perm = false; break; }
        seen[e.idx]++;
    }
    for (int s : seen) if (s != 1) perm = false;
    if (!perm) bad.push_back("result is not a permutation of the input");
    bool sorted = true;
    for (size_t i = 1; i < got.size(); ++i) if (lessk(c, got[i].key, got[i - 1].key)) sorted = false;
    if (!sorted) bad.push_back("result is not in non-decreasing comparator order");
    if (stable && perm && sorted) {
        for (size_t i = 0; i < got.size(); ++i)
            if (got[i].idx != want[i].idx) { bad.push_back("result differs from std::stable_sort (order of equivalent elements)"); break; }
    }
}

template <typename It>
static void call_sort_it(It b, It e, bool stable, Cmp c, tlx::MultiwayMergeSplittingAlgorithm sa, size_t threads) {
    Comp<typename std::iterator_traits<It>::value_type> comp{c};
    if (stable) tlx::stable_parallel_mergesort(b, e, comp, threads, sa);
    else tlx::parallel_mergesort(b, e, comp, threads, sa);
}
template <typename T>
static void call_sort(std::vector<T>& v, bool stable, Cmp c, tlx::MultiwayMergeSplittingAlgorithm sa, size_t threads) {
    call_sort_it(v.begin(), v.end(), stable, c, sa, threads);
}

// user-defined random-access iterator: every second element of an array
template <typename T>
class StrideIt {
    T* p_;
public:
    using iterator_category = std::random_access_iterator_tag;
    using value_type = T;
    using difference_type = std::ptrdiff_t;
    using pointer = T*;
    using reference = T&;
    StrideIt() : p_(nullptr) {}
    explicit StrideIt(T* p) : p_(p) {}
    reference operator*() const { return *p_; }
    pointer operator->() const { return p_; }
    reference operator[](difference_type n) const { return p_[2 * n]; }
    StrideIt& operator++() { p_ += 2; return *this; }
    StrideIt operator++(int) { StrideIt t = *this; p_ += 2; return t; }
    StrideIt& operator--() { p_ -= 2; return *this; }
    StrideIt operator--(int) { StrideIt t = *this; p_ -= 2; return t; }
    StrideIt& operator+=(difference_type n) { p_ += 2 * n; return *this; }
    StrideIt& operator-=(difference_type n) { p_ -= 2 * n; return *this; }
    friend StrideIt operator+(StrideIt a, difference_type n) { return StrideIt(a.p_ + 2 * n); }
    friend StrideIt operator+(difference_type n, StrideIt a) { return StrideIt(a.p_ + 2 * n); }
    friend StrideIt operator-(StrideIt a, difference_type n) { return StrideIt(a.p_ - 2 * n); }
    friend difference_type operator-(StrideIt a, StrideIt b) { return (a.p_ - b.p_) / 2; }
    friend bool operator==(StrideIt a, StrideIt b) { return a.p_ == b.p_; }
    friend bool operator!=(StrideIt a, StrideIt b) { return a.p_ != b.p_; }
    friend bool operator<(StrideIt a, StrideIt b) { return a.p_ < b.p_; }
    friend bool operator>(StrideIt a, StrideIt b) { return a.p_ > b.p_; }
    friend bool operator<=(StrideIt a, StrideIt b) { return a.p_ <= b.p_; }
    friend bool operator>=(StrideIt a, StrideIt b) { return a.p_ >= b.p_; }
};

template <bool Own>
static void run_tracked(const std::vector<ll>& keys, bool stable, Cmp c, tlx::MultiwayMergeSplittingAlgorithm sa,
                        size_t threads, const std::string& line) {
    using T = Elem<Own>;
    std::vector<std::string> bad;
    std::vector<KI> got;
    std::string cw, mw;
    long live_delta;
    {
        std::vector<T> v;
        v.reserve(keys.size());
        for (size_t i = 0; i < keys.size(); ++i) v.emplace_back(keys[i], (int)i);
        long c0 = g_tr.constructed.load(), d0 = g_tr.destroyed.load();
        g_tr.arm(v.data(), (long)v.size(), sizeof(T));
        g_moved_read = false;
        call_sort(v, stable, c, sa, threads);
        g_tr.disarm();
        if (g_moved_read.exchange(false)) bad.push_back("an element in moved-from state was read (copied, moved or compared)");
        for (auto& e : v) if (e.moved) { bad.push_back("the sorted range contains an element in moved-from state"); break; }
        live_delta = (g_tr.constructed.load() - c0) - (g_tr.destroyed.load() - d0);
        for (auto& e : v) got.push_back(KI{e.key, e.idx});
        cw = windows(g_tr.copy_by, g_tr.copy_cnt);
        mw = windows(g_tr.assign_by, g_tr.assign_cnt);
        if (keys.size() > 1) {
            for (size_t i = 0; i < keys.size(); ++i) {
                if (g_tr.copy_cnt[i].load() != 1) { bad.push_back("input element " + std::to_string(i) + " copied into temporaries " + std::to_string(g_tr.copy_cnt[i].load()) + " times"); break; }
            }
            for (size_t i = 0; i < keys.size(); ++i) {
                if (g_tr.assign_cnt[i].load() != 1) { bad.push_back("position " + std::to_string(i) + " of the range written " + std::to_string(g_tr.assign_cnt[i].load()) + " times"); break; }
            }
        }
        if (Own) for (auto& e : v) if (!e.heap || *e.heap != e.key) { bad.push_back("element heap cell inconsistent"); break; }
    }
    oracle(keys, got, c, stable, bad);
    if (live_delta != 0) bad.push_back("temporary element copies not destroyed: live-instance delta " + std::to_string(live_delta));
    {
        std::vector<std::string> sortbad;
        oracle(keys, got, c, stable, sortbad);
        // `spec`: the result is the specified arrangement (the driver prints the same for the model)
        vh::answer("out " + show(got, c, stable) + " cw " + cw + " mw " + mw + " live " + std::to_string(live_delta) +
                   " spec " + (sortbad.empty() ? "1" : "0"));
    }
    for (auto& b : bad) vh::viol(b + " in " + line);
}

static void do_ms(const std::vector<std::string>& t, const std::string& line) {
    if (t.size() != 8) { vh::answer("bad-op"); return; }
    bool stable;
    if (t[1] == "s") stable = true; else if (t[1] == "u") stable = false; else { vh::answer("bad-op"); return; }
    Cmp c;
    if (t[2] == "lt") c = LT; else if (t[2] == "gt") c = GT; else if (t[2] == "half") c = HALF; else { vh::answer("bad-op"); return; }
    tlx::MultiwayMergeSplittingAlgorithm sa;
    if (t[3] == "exact") sa = tlx::MWMSA_EXACT; else if (t[3] == "sampling") sa = tlx::MWMSA_SAMPLING; else { vh::answer("bad-op"); return; }
    long threads, osf;
    std::vector<ll> keys;
    try { threads = std::stol(t[4]); osf = std::stol(t[5]); keys = vh::csv(t[7]); } catch (...) { vh::answer("bad-op"); return; }
    if (threads < 1 || threads > 64 || osf < 1 || osf > 64) { vh::answer("bad-op"); return; }
    tlx::parallel_multiway_merge_oversampling = static_cast<size_t>(osf);
    const std::string& kind = t[6];
    size_t nthreads = static_cast<size_t>(threads);
    size_t n = keys.size();
    auto finish = [&](const std::vector<KI>& got, std::vector<std::string> bad) {
        std::vector<std::string> sortbad;
        oracle(keys, got, c, stable, sortbad);
        vh::answer("out " + show(got, c, stable) + " cw - mw - live 0 spec " + (sortbad.empty() ? "1" : "0"));
        for (auto& b : sortbad) vh::viol(b + " in " + line);
        for (auto& b : bad) vh::viol(b + " in " + line);
    };
    if (kind == "pod") {
        std::vector<Pod> v;
        for (size_t i = 0; i < n; ++i) v.push_back(Pod{keys[i], (int)i});
        call_sort(v, stable, c, sa, nthreads);
        std::vector<KI> got;
        for (auto& e : v) got.push_back(KI{e.key, e.idx});
        finish(got, {});
    }
    else if (kind == "deque") {
        std::deque<Pod> v;
        for (size_t i = 0; i < n; ++i) v.push_back(Pod{keys[i], (int)i});
        call_sort_it(v.begin(), v.end(), stable, c, sa, nthreads);
        std::vector<KI> got;
        for (auto& e : v) got.push_back(KI{e.key, e.idx});
        finish(got, {});
    }
    else if (kind == "deque64") {
        std::deque<Big> v;
        for (size_t i = 0; i < n; ++i) { Big b; memset(&b, 0, sizeof b); b.key = keys[i]; b.idx = (int)i; v.push_back(b); }
        call_sort_it(v.begin(), v.end(), stable, c, sa, nthreads);
        std::vector<KI> got;
        for (auto& e : v) got.push_back(KI{e.key, e.idx});
        finish(got, {});
    }
    else if (kind == "strided") {
        // elements at the odd positions, guards (never part of the range) at the even ones
        std::vector<Pod> u(2 * n + 1);
        for (size_t j = 0; j <= n; ++j) u[2 * j] = Pod{-777 - (ll)j, -1000 - (int)j};
        for (size_t i = 0; i < n; ++i) u[2 * i + 1] = Pod{keys[i], (int)i};
        StrideIt<Pod> b(u.data() + 1), e(u.data() + 1 + 2 * n);
        call_sort_it(b, e, stable, c, sa, nthreads);
        std::vector<KI> got;
        for (size_t i = 0; i < n; ++i) got.push_back(KI{u[2 * i + 1].key, u[2 * i + 1].idx});
        std::vector<std::string> bad;
        for (size_t j = 0; j <= n; ++j)
            if (u[2 * j].key != -777 - (ll)j || u[2 * j].idx != -1000 - (int)j) { bad.push_back("an element outside the iterator range was overwritten (strided iterator)"); break; }
        finish(got, bad);
    }
    else if (kind == "rev") {
        std::vector<Pod> u(n + 2);
        u[0] = Pod{-777, -1000}; u[n + 1] = Pod{-778, -1001};
        for (size_t i = 0; i < n; ++i) u[n - i] = Pod{keys[i], (int)i};
        std::reverse_iterator<Pod*> b(u.data() + n + 1), e(u.data() + 1);
        call_sort_it(b, e, stable, c, sa, nthreads);
        std::vector<KI> got;
        for (size_t i = 0; i < n; ++i) got.push_back(KI{u[n - i].key, u[n - i].idx});
        std::vector<std::string> bad;
        if (u[0].key != -777 || u[0].idx != -1000 || u[n + 1].key != -778 || u[n + 1].idx != -1001)
            bad.push_back("an element outside the iterator range was overwritten (reverse iterator)");
        finish(got, bad);
    }
    else if (kind == "str") {
        if (c == HALF) { vh::answer("bad-op"); return; }
        for (ll k : keys) if (k < 0) { vh::answer("bad-op"); return; }
        std::vector<SE> v;
        for (size_t i = 0; i < n; ++i) { char buf[32]; snprintf(buf, sizeof buf, "%012lld", keys[i]); v.push_back(SE{std::string(buf), (int)i}); }
        g_moved_read = false;
        call_sort(v, stable, c, sa, nthreads);
        std::vector<std::string> bad;
        if (g_moved_read.exchange(false)) bad.push_back("an element in moved-from state was read (compared)");
        std::vector<KI> got;
        bool moved_in_result = false;
        for (auto& e : v) {
            if (e.key.empty()) { moved_in_result = true; got.push_back(KI{MOVED_KEY, e.idx}); }
            else got.push_back(KI{std::stoll(e.key), e.idx});
        }
        if (moved_in_result) bad.push_back("the sorted range contains an element in moved-from state");
        finish(got, bad);
    }
    else if (t[6] == "log") run_tracked<false>(keys, stable, c, sa, static_cast<size_t>(threads), line);
    else if (t[6] == "own") run_tracked<true>(keys, stable, c, sa, static_cast<size_t>(threads), line);
    else vh::answer("bad-op");
}

int main(int, char**) {
    std::string line;
    while (std::getline(std::cin, line)) {
        auto t = vh::tokens(line);
        if (t.empty()) { vh::answer(""); continue; }
        if (t[0][0] == '#') { vh::answer(line); continue; }
        if (t[0] == "case") { vh::answer("case"); continue; }
        if (t[0] == "ms") do_ms(t, line);
        else vh::answer("bad-op");
    }
    return 0;
}
