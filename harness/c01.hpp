#pragma once
// C01/C02 harness (header part): tlx::btree_set / btree_multiset / btree_map / btree_multimap behind the
// line protocol (operation list: lean/TlxVerif/Model/C01Step.lean, generators: checks/c01.py).
//
//   c01 run [c01|c02|all]     answers one line per operation line
//
// Every case starts with `case <id>` followed by
//   cfg <kind:set|mset|map|mmap> <leaf_slots> <inner_slots> <binsearch:0|1> <order:0 less|1 greater|2 half> [<order of register 1>]
// Two container registers 0/1 of the configured type exist from `cfg` on.
//
// By-reference operations (answered like the plain ones): insref/inshref r <rank> = insert(x) / insert(hint, x)
// with x a reference to the element stored at <rank>; er1ref/eraref r <rank> = erase_one/erase with a reference to
// the stored key; findref/lbref/ubref/countref r <rank> likewise.
//
// Answer of a query op:     <ret>
// Answer of a mutating op:  <ret> ; a=<+leaf>,<-leaf>,<+inner>,<-inner> ; T0 <dump> ; T1 <dump> ; A=<i0>,<i1>[ <i>:<+l>,<-l>,<+i>,<-i>]*
//   A: the allocator instance (arena tag) each register's tree holds and, per instance used by the operation,
//   the nodes obtained from it / returned through it (registers are constructed with instances 1 and 2)
//   <dump> = s=<size>,<leaves>,<inner_nodes> <tree>     (stats_ as stored by the tree)
//   <tree> = -                      no root
//          | (e e e)                leaf, entries `k` (sets) or `k:v` (maps)
//          | [level|k k|<tree>...]  inner node: level, slotkey[0..slotuse), children 0..slotuse
// Iterator positions are printed as @<leaf index in the chain>.<slot>=<rank>, @- when curr_leaf is null.
// The tree is read through tlx's own friend hook (TLX_BTREE_FRIENDS -> class tlx::btree_friend).
//
// Direct oracles (`#VIOL` lines):
//   c01: std::set/multiset/map/multimap driven by the same operations: returned values, iterator
//        positions as ranks, contents, up to the order of entries with equivalent keys.
//   c02: verify() (die -> exception), stats_ against a recount, leaf chain forward and backward
//        against the preorder leaves, fill/level/separator invariants recomputed independently,
//        counting allocator (blocks by node type, double/unknown frees, leaks at case end) and the
//        Tracked live-object ledger (every node holds exactly its slot arrays' objects).
#include <algorithm>
#include <cassert>
#include <cstddef>
#include <cstring>
#include <functional>
#include <iterator>
#include <map>
#include <memory>
#include <set>
#include <sstream>
#include <stdexcept>
#include <string>
#include <typeinfo>
#include <utility>
#include <vector>

#include "common.hpp"

#include <tlx/container/btree.hpp>
#include <tlx/container/btree_map.hpp>
#include <tlx/container/btree_multimap.hpp>
#include <tlx/container/btree_multiset.hpp>
#include <tlx/container/btree_set.hpp>
#include <tlx/die/core.hpp>

typedef long long ll;
// vh::Tracked with observable move semantics: moving from an object empties it (poison value, flag); copying,
// assigning from, comparing or printing a moved-from object is reported through the element ledger.  A container
// may move its elements around internally as long as it never uses what it has moved from.
struct Tracked : vh::Tracked {
    bool moved;
    Tracked() : vh::Tracked(), moved(false) {}
    explicit Tracked(long long v) : vh::Tracked(v), moved(false) {}
    Tracked(const Tracked& o) : vh::Tracked(static_cast<const vh::Tracked&>(o)), moved(o.moved) { o.used("copy"); }
    Tracked(Tracked&& o) noexcept : vh::Tracked(static_cast<vh::Tracked&&>(o)), moved(o.moved) { o.poison(); }
    Tracked& operator=(const Tracked& o) {
        o.used("assignment");
        vh::Tracked::operator=(static_cast<const vh::Tracked&>(o)); moved = o.moved; return *this;
    }
    Tracked& operator=(Tracked&& o) noexcept {
        vh::Tracked::operator=(static_cast<vh::Tracked&&>(o)); moved = o.moved;
        if (this != &o) o.poison();
        return *this;
    }
    void poison() { moved = true; val = -555555; if (heap) *heap = val; }
    void used(const char* what) const {
        if (moved) vh::Ledger::get().errors.push_back(std::string(what) + " of a moved-from object");
    }
};

extern bool g_c01, g_c02;

// ---------------------------------------------------------------- key order (run-time selectable)
static inline bool lessv(int mode, ll a, ll b) {
    switch (mode) {
    case 0: return a < b;
    case 1: return a > b;
    default: return (a / 2) < (b / 2);   // strict weak order with non-trivial equivalence classes
    }
}
struct Cmp {
    int mode;
    Cmp() : mode(0) {}
    explicit Cmp(int m) : mode(m) {}
    bool operator()(const Tracked& a, const Tracked& b) const {
        a.check("compare"); b.check("compare");
        a.used("comparison"); b.used("comparison");
        return lessv(mode, a.val, b.val);
    }
};
struct RCmp {
    int mode;
    RCmp() : mode(0) {}
    explicit RCmp(int m) : mode(m) {}
    bool operator()(ll a, ll b) const { return lessv(mode, a, b); }
};

// ---------------------------------------------------------------- counting allocator with instance identity
// Every allocator instance carries the tag of its arena: copies (and rebound copies) keep the tag and compare
// equal, instances with different tags compare unequal.  Every live block remembers the arena that produced
// it; returning it through an instance of another arena is an error ("every node is returned to the allocator
// instance it was obtained from").
struct BlockInfo { size_t bytes; const std::type_info* type; int arena; };
struct Blocks {
    std::map<const void*, BlockInfo> live;
    std::vector<std::string> errors;
    static Blocks& get() { static Blocks b; return b; }
};
struct ArenaCount { long allocs = 0, frees = 0; };
template <typename T> struct TypeCounter {
    static long allocs, frees;
    static std::map<int, ArenaCount>& by_arena() { static std::map<int, ArenaCount> m; return m; }
};
template <typename T> long TypeCounter<T>::allocs = 0;
template <typename T> long TypeCounter<T>::frees = 0;

template <typename T>
struct CountAlloc {
    typedef T value_type;
    int id;
    CountAlloc() : id(0) {}
    explicit CountAlloc(int i) : id(i) {}
    template <typename U> CountAlloc(const CountAlloc<U>& o) : id(o.id) {}
    T* allocate(size_t n) {
        T* p = static_cast<T*>(::operator new(n * sizeof(T)));
        Blocks::get().live[p] = BlockInfo{n * sizeof(T), &typeid(T), id};
        ++TypeCounter<T>::allocs;
        ++TypeCounter<T>::by_arena()[id].allocs;
        return p;
    }
    void deallocate(T* p, size_t n) {
        Blocks& b = Blocks::get();
        auto it = b.live.find(p);
        if (it == b.live.end()) {
            b.errors.push_back("deallocate of a block that is not live (double or foreign free)");
            return;   // do not hand it to operator delete: report instead of aborting
        }
        if (it->second.bytes != n * sizeof(T) || *it->second.type != typeid(T))
            b.errors.push_back("deallocate with a different size/type than allocated");
        if (it->second.arena != id)
            b.errors.push_back("block from arena A" + std::to_string(it->second.arena) + " returned to arena A" + std::to_string(id));
        b.live.erase(it);
        ++TypeCounter<T>::frees;
        ++TypeCounter<T>::by_arena()[id].frees;   // counted where it was returned
        ::operator delete(p);
    }
    template <typename U> bool operator==(const CountAlloc<U>& o) const { return id == o.id; }
    template <typename U> bool operator!=(const CountAlloc<U>& o) const { return id != o.id; }
};

// ---------------------------------------------------------------- access through tlx's friend hook
struct NodeCount { size_t size = 0, leaves = 0, inner = 0; };

namespace tlx {
class btree_friend {
public:
    template <typename W> static typename W::btree_impl& impl(W& w) { return w.tree_; }
    template <typename W> static const typename W::btree_impl& impl(const W& w) { return w.tree_; }

    template <typename BT> static long leaf_allocs() { return TypeCounter<typename BT::LeafNode>::allocs; }
    template <typename BT> static long leaf_frees() { return TypeCounter<typename BT::LeafNode>::frees; }
    template <typename BT> static long inner_allocs() { return TypeCounter<typename BT::InnerNode>::allocs; }
    template <typename BT> static long inner_frees() { return TypeCounter<typename BT::InnerNode>::frees; }
    template <typename BT> static std::map<int, ArenaCount>& leaf_arenas() { return TypeCounter<typename BT::LeafNode>::by_arena(); }
    template <typename BT> static std::map<int, ArenaCount>& inner_arenas() { return TypeCounter<typename BT::InnerNode>::by_arena(); }
    template <typename BT> static size_t leaf_bytes() { return sizeof(typename BT::LeafNode); }
    template <typename BT> static size_t inner_bytes() { return sizeof(typename BT::InnerNode); }

    template <typename It> static const void* it_leaf(const It& it) { return it.curr_leaf; }
    template <typename It> static unsigned it_slot(const It& it) { return it.curr_slot; }

    // leaf chain, forward: (leaf pointer, slotuse)
    template <typename BT>
    static void chain(const BT& t, std::vector<const void*>& ptrs, std::vector<unsigned>& uses, bool& cyclic) {
        cyclic = false;
        const typename BT::LeafNode* n = t.head_leaf_;
        size_t guard = 0;
        while (n) {
            ptrs.push_back(n); uses.push_back(n->slotuse);
            n = n->next_leaf;
            if (++guard > 100000) { cyclic = true; break; }
        }
    }
    template <typename BT>
    static void chain_back(const BT& t, std::vector<const void*>& ptrs, bool& cyclic) {
        cyclic = false;
        const typename BT::LeafNode* n = t.tail_leaf_;
        size_t guard = 0;
        while (n) {
            ptrs.push_back(n);
            n = n->prev_leaf;
            if (++guard > 100000) { cyclic = true; break; }
        }
    }
    // contents by walking the chain (independent of the iterator classes)
    template <typename BT, typename F>
    static void chain_entries(const BT& t, F f) {
        const typename BT::LeafNode* n = t.head_leaf_;
        size_t guard = 0;
        while (n && ++guard < 100000) {
            for (unsigned s = 0; s < n->slotuse; ++s) f(n->slotdata[s]);
            n = n->next_leaf;
        }
    }

    // preorder dump + independent recomputation of the structural invariants
    template <typename BT, typename EF, typename KF>
    struct Walker {
        const BT& t;
        EF ent;                       // value_type -> string
        KF key;                       // key_type -> ll
        int mode;
        std::ostream& os;
        std::vector<const void*> leaves;   // preorder
        NodeCount cnt;
        std::vector<std::string> problems;
        Walker(const BT& t_, EF e, KF k, int m, std::ostream& o) : t(t_), ent(e), key(k), mode(m), os(o) {}

        bool le(ll a, ll b) const { return !lessv(mode, b, a); }
        bool eq(ll a, ll b) const { return !lessv(mode, a, b) && !lessv(mode, b, a); }

        // returns (min key, max key) of the subtree; sets ok=false on an empty subtree
        void walk(const typename BT::node* n, bool is_root, int expect_level, ll& mn, ll& mx, bool& nonempty) {
            if (expect_level >= 0 && n->level != expect_level)
                problems.push_back("node level " + std::to_string(n->level) + " where " + std::to_string(expect_level) + " expected");
            if (n->is_leafnode()) {
                const typename BT::LeafNode* l = static_cast<const typename BT::LeafNode*>(n);
                leaves.push_back(l);
                cnt.leaves++; cnt.size += l->slotuse;
                os << '(';
                for (unsigned s = 0; s < l->slotuse; ++s) { if (s) os << ' '; os << ent(l->slotdata[s]); }
                os << ')';
                if (l->slotuse > BT::leaf_slotmax) problems.push_back("leaf slotuse above leaf_slotmax");
                if (!is_root && l->slotuse < BT::leaf_slotmin) problems.push_back("non-root leaf below half full");
                if (l->slotuse == 0) problems.push_back("empty leaf in the tree");
                for (unsigned s = 0; s + 1 < l->slotuse; ++s)
                    if (!le(key(l->key(s)), key(l->key(s + 1)))) problems.push_back("keys out of order inside a leaf");
                nonempty = l->slotuse > 0;
                if (nonempty) { mn = key(l->key(0)); mx = key(l->key(l->slotuse - 1)); }
                return;
            }
            const typename BT::InnerNode* in = static_cast<const typename BT::InnerNode*>(n);
            cnt.inner++;
            os << '[' << in->level << '|';
            for (unsigned s = 0; s < in->slotuse; ++s) { if (s) os << ' '; os << key(in->slotkey[s]); }
            os << '|';
            if (in->slotuse > BT::inner_slotmax) problems.push_back("inner slotuse above inner_slotmax");
            if (!is_root && in->slotuse < BT::inner_slotmin) problems.push_back("non-root inner node below half full");
            if (in->slotuse == 0) problems.push_back("inner node without a key in the tree");
            for (unsigned s = 0; s + 1 < in->slotuse; ++s)
                if (!le(key(in->slotkey[s]), key(in->slotkey[s + 1]))) problems.push_back("separators out of order");
            nonempty = false;
            ll prevmax = 0; bool have_prev = false;
            for (unsigned s = 0; s <= in->slotuse && s <= BT::inner_slotmax; ++s) {
                ll cmn = 0, cmx = 0; bool cne = false;
                walk(in->childid[s], false, in->level - 1, cmn, cmx, cne);
                if (!cne) continue;
                if (!nonempty) { mn = cmn; nonempty = true; }
                if (have_prev && !le(prevmax, cmn)) problems.push_back("keys out of order across children");
                if (s < in->slotuse && !eq(key(in->slotkey[s]), cmx))
                    problems.push_back("separator " + std::to_string(key(in->slotkey[s])) + " is not the largest key " + std::to_string(cmx) + " below it");
                prevmax = cmx; have_prev = true; mx = cmx;
            }
            os << ']';
        }
    };

    template <typename BT, typename EF, typename KF>
    static void dump(const BT& t, EF ent, KF key, int mode, std::ostream& os, std::vector<std::string>& problems) {
        os << "s=" << t.stats_.size << ',' << t.stats_.leaves << ',' << t.stats_.inner_nodes << ' ';
        if (!t.root_) {
            os << '-';
            if (t.head_leaf_ || t.tail_leaf_) problems.push_back("no root but head/tail leaf set");
            if (t.stats_.size || t.stats_.leaves || t.stats_.inner_nodes) problems.push_back("no root but stats non-zero");
            return;
        }
        Walker<BT, EF, KF> w(t, ent, key, mode, os);
        ll mn, mx; bool ne;
        w.walk(t.root_, true, -1, mn, mx, ne);
        problems = w.problems;
        if (w.cnt.size != t.stats_.size) problems.push_back("stats.size " + std::to_string(t.stats_.size) + " != recount " + std::to_string(w.cnt.size));
        if (w.cnt.leaves != t.stats_.leaves) problems.push_back("stats.leaves " + std::to_string(t.stats_.leaves) + " != recount " + std::to_string(w.cnt.leaves));
        if (w.cnt.inner != t.stats_.inner_nodes) problems.push_back("stats.inner_nodes " + std::to_string(t.stats_.inner_nodes) + " != recount " + std::to_string(w.cnt.inner));
        // leaf chain forward and backward must be exactly the preorder leaves
        std::vector<const void*> fw, bw; std::vector<unsigned> uses; bool c1, c2;
        chain(t, fw, uses, c1); chain_back(t, bw, c2);
        std::reverse(bw.begin(), bw.end());
        if (c1 || c2) problems.push_back("leaf chain is cyclic");
        if (fw != w.leaves) problems.push_back("forward leaf chain differs from the leaves of the tree");
        if (bw != w.leaves) problems.push_back("backward leaf chain differs from the leaves of the tree");
    }
    template <typename BT>
    static NodeCount recount(const BT& t) {
        NodeCount c;
        if (t.root_) recount_node<BT>(t.root_, c, 0);
        return c;
    }
    template <typename BT>
    static void recount_node(const typename BT::node* n, NodeCount& c, int depth) {
        if (depth > 64) return;
        if (n->is_leafnode()) { c.leaves++; c.size += n->slotuse; return; }
        c.inner++;
        const typename BT::InnerNode* in = static_cast<const typename BT::InnerNode*>(n);
        for (unsigned s = 0; s <= in->slotuse && s <= BT::inner_slotmax; ++s) recount_node<BT>(in->childid[s], c, depth + 1);
    }
};
}  // namespace tlx
typedef tlx::btree_friend F;

// ---------------------------------------------------------------- configurations
// binsearch_threshold is only ever read as a value by btree.hpp, so the traits class may make it a
// run-time variable: one instantiation serves both in-node search strategies.
template <int L, int I>
struct Tr {
    static const bool self_verify = false;
    static const bool debug = false;
    static const int leaf_slots = L;
    static const int inner_slots = I;
    static size_t binsearch_threshold;
};
template <int L, int I> size_t Tr<L, I>::binsearch_threshold = size_t(1) << 30;

template <int KIND> struct RefOf;
template <> struct RefOf<0> { typedef std::set<ll, RCmp> type; };
template <> struct RefOf<1> { typedef std::multiset<ll, RCmp> type; };
template <> struct RefOf<2> { typedef std::map<ll, ll, RCmp> type; };
template <> struct RefOf<3> { typedef std::multimap<ll, ll, RCmp> type; };

template <int KIND, int L, int I> struct ContOf;
template <int L, int I> struct ContOf<0, L, I> { typedef tlx::btree_set<Tracked, Cmp, Tr<L, I>, CountAlloc<Tracked> > type; };
template <int L, int I> struct ContOf<1, L, I> { typedef tlx::btree_multiset<Tracked, Cmp, Tr<L, I>, CountAlloc<Tracked> > type; };
template <int L, int I> struct ContOf<2, L, I> { typedef tlx::btree_map<Tracked, Tracked, Cmp, Tr<L, I>, CountAlloc<std::pair<Tracked, Tracked> > > type; };
template <int L, int I> struct ContOf<3, L, I> { typedef tlx::btree_multimap<Tracked, Tracked, Cmp, Tr<L, I>, CountAlloc<std::pair<Tracked, Tracked> > > type; };

typedef std::pair<ll, ll> Ent;   // (key, value); value 0 for sets

struct IRunner {
    virtual ~IRunner() {}
    virtual void exec(const std::vector<std::string>& t, const std::string& line) = 0;
};

static std::string show_ent(bool is_map, const Ent& e) {
    return is_map ? std::to_string(e.first) + ":" + std::to_string(e.second) : std::to_string(e.first);
}

template <int KIND, int L, int I>
struct Runner : IRunner {
    static const bool isMap = KIND >= 2;
    static const bool dup = (KIND & 1) != 0;
    typedef typename ContOf<KIND, L, I>::type C;
    typedef typename C::btree_impl BT;
    typedef typename C::value_type value_type;
    typedef typename RefOf<KIND>::type Ref;
    typedef typename C::iterator It;
    typedef typename C::const_iterator CIt;
    typedef typename C::reverse_iterator RIt;
    typedef typename C::const_reverse_iterator CRIt;

    int mode[2];   // key order of each register: travels with the container through copy/assign/swap
    alignas(C) unsigned char store[2][sizeof(C)];
    C* t[2];
    Ref* ref[2];
    std::string curline;

    Runner(int m0, int m1, bool bin) {
        mode[0] = m0; mode[1] = m1;
        Tr<L, I>::binsearch_threshold = bin ? 0 : (size_t(1) << 30);
        for (int i = 0; i < 2; ++i) {
            t[i] = new (store[i]) C(Cmp(mode[i]), CountAlloc<value_type>(i + 1));
            ref[i] = new Ref(RCmp(mode[i]));
        }
    }
    ~Runner() override {
        for (int i = 0; i < 2; ++i) { t[i]->~C(); delete ref[i]; }
    }

    // ----- element helpers
    static value_type mk(ll k, ll v) {
        if constexpr (isMap) return value_type(Tracked(k), Tracked(v));
        else { (void) v; return Tracked(k); }
    }
    static const Tracked& keyof(const value_type& x) {
        if constexpr (isMap) return x.first;
        else return x;
    }
    static Ent ent(const value_type& x) {
        if constexpr (isMap) {
            if (!x.first.is_alive() || !x.second.is_alive()) return Ent(-777, -777);
            return Ent(x.first.val, x.second.val);
        } else {
            if (!x.is_alive()) return Ent(-777, 0);
            return Ent(x.val, 0);
        }
    }
    static Ent rent(typename Ref::const_iterator it) {
        if constexpr (isMap) return Ent(it->first, it->second);
        else return Ent(*it, 0);
    }
    static std::string sent(const Ent& e) { return show_ent(isMap, e); }
    bool lt(int r, ll a, ll b) const { return lessv(mode[r], a, b); }
    bool equiv(int r, ll a, ll b) const { return !lt(r, a, b) && !lt(r, b, a); }

    std::vector<Ent> contents(int r) const {
        std::vector<Ent> v;
        F::chain_entries(F::impl(*t[r]), [&](const value_type& x) { v.push_back(ent(x)); });
        return v;
    }
    std::vector<Ent> rcontents(int r) const {
        std::vector<Ent> v;
        for (auto it = ref[r]->begin(); it != ref[r]->end(); ++it) v.push_back(rent(it));
        return v;
    }
    // sort inside every run of equivalent keys ("up to the relative order of entries with equivalent keys")
    std::vector<Ent> canon(int r, std::vector<Ent> v) const {
        size_t i = 0;
        while (i < v.size()) {
            size_t j = i + 1;
            while (j < v.size() && equiv(r, v[i].first, v[j].first)) ++j;
            std::sort(v.begin() + i, v.begin() + j);
            i = j;
        }
        return v;
    }

    // ----- positions
    template <typename Iter>
    std::string pos(int r, const Iter& it, ll* rank_out = nullptr) const {
        const void* leaf = F::it_leaf(it);
        unsigned slot = F::it_slot(it);
        if (rank_out) *rank_out = -1;
        if (!leaf) { if (rank_out) *rank_out = 0; return slot == 0 ? "@-" : "@-." + std::to_string(slot); }
        std::vector<const void*> ptrs; std::vector<unsigned> uses; bool cyc;
        F::chain(F::impl(*t[r]), ptrs, uses, cyc);
        ll rank = 0;
        for (size_t i = 0; i < ptrs.size(); ++i) {
            if (ptrs[i] == leaf) {
                rank += slot;
                if (rank_out) *rank_out = rank;
                return "@" + std::to_string(i) + "." + std::to_string(slot) + "=" + std::to_string(rank);
            }
            rank += uses[i];
        }
        return "@lost";
    }
    ll rrank(int r, typename Ref::const_iterator it) const { return std::distance(ref[r]->cbegin(), it); }

    void viol(const std::string& m) { vh::viol(m + " after `" + curline + "`"); }
    void v01(const std::string& m) { if (g_c01) viol("std-equivalence: " + m); }
    void v02(const std::string& m) { if (g_c02) viol("invariant: " + m); }

    // ----- dump of both registers + oracles that run after every mutating operation
    std::string dump_all() {
        std::ostringstream os;
        for (int r = 0; r < 2; ++r) {
            std::vector<std::string> problems;
            os << " ; T" << r << ' ';
            F::dump(F::impl(*t[r]), [](const value_type& x) { return sent(ent(x)); },
                    [](const Tracked& k) { return k.is_alive() ? k.val : -777; }, mode[r], os, problems);
            for (auto& p : problems) v02(p);
            try { t[r]->verify(); }
            catch (std::exception& e) { v02(std::string("verify() fails: ") + e.what()); }
            // contents against the reference
            std::vector<Ent> a = contents(r), b = rcontents(r);
            if (canon(r, a) != canon(r, b)) {
                std::ostringstream m;
                m << "contents of T" << r << " [";
                for (auto& e : a) m << sent(e) << ' ';
                m << "] differ from the std container [";
                for (auto& e : b) m << sent(e) << ' ';
                m << "]";
                v01(m.str());
            }
            if (t[r]->size() != ref[r]->size()) v01("size() " + std::to_string(t[r]->size()) + " != " + std::to_string(ref[r]->size()));
            if (t[r]->empty() != ref[r]->empty()) v01("empty() differs");
        }
        return os.str();
    }
    void ledgers() {
        auto& Lg = vh::Ledger::get();
        for (auto& e : Lg.errors) v02("element lifetime: " + e);
        Lg.errors.clear();
        Blocks& B = Blocks::get();
        for (auto& e : B.errors) v02("allocator: " + e);
        B.errors.clear();
        size_t want_objs = 0, want_blocks = 0, want_bytes = 0;
        for (int r = 0; r < 2; ++r) {
            NodeCount c = F::recount(F::impl(*t[r]));
            want_objs += c.leaves * L * (isMap ? 2 : 1) + c.inner * I;
            want_blocks += c.leaves + c.inner;
            want_bytes += c.leaves * F::leaf_bytes<BT>() + c.inner * F::inner_bytes<BT>();
        }
        if (B.live.size() != want_blocks)
            v02("allocator holds " + std::to_string(B.live.size()) + " live node blocks, the trees have " + std::to_string(want_blocks) + " nodes");
        size_t bytes = 0;
        std::map<int, size_t> live_by_arena, want_by_arena;
        for (auto& kv : B.live) { bytes += kv.second.bytes; live_by_arena[kv.second.arena]++; }
        if (bytes != want_bytes) v02("live node bytes " + std::to_string(bytes) + " != " + std::to_string(want_bytes));
        for (int r = 0; r < 2; ++r) {
            NodeCount c = F::recount(F::impl(*t[r]));
            want_by_arena[t[r]->get_allocator().id] += c.leaves + c.inner;
        }
        for (auto& kv : live_by_arena) if (kv.second != want_by_arena[kv.first])
            v02("arena A" + std::to_string(kv.first) + " has " + std::to_string(kv.second) + " live node blocks, the trees holding it have " + std::to_string(want_by_arena[kv.first]) + " nodes");
        for (auto& kv : want_by_arena) if (kv.second != live_by_arena[kv.first])
            v02("the trees holding arena A" + std::to_string(kv.first) + " have " + std::to_string(kv.second) + " nodes, the arena has " + std::to_string(live_by_arena[kv.first]) + " live blocks");
        if (Lg.alive.size() != want_objs)
            v02("live key/value objects " + std::to_string(Lg.alive.size()) + " != slots of live nodes " + std::to_string(want_objs));
    }

    struct AllocSnap { long la, lf, ia, ifr; std::map<int, ArenaCount> leaf, inner; };
    static AllocSnap snap() {
        return AllocSnap{F::leaf_allocs<BT>(), F::leaf_frees<BT>(), F::inner_allocs<BT>(), F::inner_frees<BT>(),
                         F::template leaf_arenas<BT>(), F::template inner_arenas<BT>()};
    }
    // ` ; A=<arena of register 0>,<arena of register 1>` and ` <arena>:<+leaf>,<-leaf>,<+inner>,<-inner>` per arena used
    std::string arena_part(const AllocSnap& s0, const AllocSnap& s1) {
        std::ostringstream os;
        os << " ; A=" << t[0]->get_allocator().id << ',' << t[1]->get_allocator().id;
        std::set<int> ids;
        for (auto& kv : s1.leaf) ids.insert(kv.first);
        for (auto& kv : s1.inner) ids.insert(kv.first);
        for (int a : ids) {
            auto get = [a](const std::map<int, ArenaCount>& m) { auto it = m.find(a); return it == m.end() ? ArenaCount() : it->second; };
            ArenaCount l0 = get(s0.leaf), l1 = get(s1.leaf), i0 = get(s0.inner), i1 = get(s1.inner);
            long la = l1.allocs - l0.allocs, lf = l1.frees - l0.frees, ia = i1.allocs - i0.allocs, ifr = i1.frees - i0.frees;
            if (la || lf || ia || ifr) os << ' ' << a << ':' << la << ',' << lf << ',' << ia << ',' << ifr;
        }
        return os.str();
    }

    // ----- parsing
    static bool num(const std::string& s, ll& out) {
        if (s.empty() || s.size() > 9) return false;
        for (char c : s) if (c < '0' || c > '9') return false;
        out = std::stoll(s); return true;
    }
    static bool parse_ent(const std::string& s, Ent& e) {
        size_t c = s.find(':');
        if (isMap) { if (c == std::string::npos) return false; return num(s.substr(0, c), e.first) && num(s.substr(c + 1), e.second); }
        e.second = 0;
        if (c != std::string::npos) return num(s.substr(0, c), e.first) && num(s.substr(c + 1), e.second);
        return num(s, e.first);
    }

    // reference insert; returns (iterator, inserted)
    std::pair<typename Ref::iterator, bool> rinsert(int r, ll k, ll v) {
        if constexpr (KIND == 0) return ref[r]->insert(k);
        else if constexpr (KIND == 1) { (void) v; return std::make_pair(ref[r]->insert(k), true); }
        else if constexpr (KIND == 2) return ref[r]->insert(std::make_pair(k, v));
        else return std::make_pair(ref[r]->insert(std::make_pair(k, v)), true);
    }
    // erase one entry equal to e (same key object and value) from the reference
    bool rerase_exact(int r, const Ent& e) {
        auto rg = ref[r]->equal_range(e.first);
        for (auto it = rg.first; it != rg.second; ++it)
            if (rent(it) == e) { ref[r]->erase(it); return true; }
        return false;
    }

    void check_insert_result(int r, const It& it, bool inserted, bool rins, typename Ref::iterator rit, ll k, ll v) {
        ll rank; pos(r, it, &rank);
        if (inserted != rins) v01("insert reports inserted=" + std::to_string(inserted) + ", std says " + std::to_string(rins));
        if (!dup || !rins) {
            if (rank != rrank(r, rit)) v01("insert returns position " + std::to_string(rank) + ", std " + std::to_string(rrank(r, rit)));
        } else {
            ll lo = rrank(r, ref[r]->lower_bound(k)), hi = rrank(r, ref[r]->upper_bound(k));
            if (rank < lo || rank >= hi) v01("insert returns position " + std::to_string(rank) + " outside the run of equivalent keys [" + std::to_string(lo) + "," + std::to_string(hi) + ")");
        }
        if (it != t[r]->end()) {
            Ent got = ent(*it);
            Ent want = rins ? Ent(k, isMap ? v : 0) : rent(rit);
            if (got != want) v01("insert returns an iterator to " + sent(got) + " instead of " + sent(want));
        } else v01("insert returns end()");
    }

    template <typename Iter, typename RIter>
    void check_pos(const char* what, int r, const Iter& it, RIter rit) {
        ll rank; pos(r, it, &rank);
        if (rank != rrank(r, rit)) v01(std::string(what) + " position " + std::to_string(rank) + ", std " + std::to_string(rrank(r, rit)));
    }

    // iteration with any of the four iterator classes; records the entries visited
    template <typename Iter>
    std::vector<Ent> walk_fwd(Iter b, Iter e, bool postfix, size_t cap, bool& overrun) {
        std::vector<Ent> out;
        overrun = false;
        while (b != e) {
            if (out.size() > cap) { overrun = true; break; }
            out.push_back(ent(*b));
            if (postfix) b++; else ++b;
        }
        return out;
    }
    template <typename Iter>
    std::vector<Ent> walk_bwd(Iter b, Iter e, bool postfix, size_t cap, bool& overrun) {
        std::vector<Ent> out;
        overrun = false;
        while (e != b) {
            if (out.size() > cap) { overrun = true; break; }
            if (postfix) e--; else --e;
            out.push_back(ent(*e));
        }
        return out;
    }

    void exec(const std::vector<std::string>& tk, const std::string& line) override {
        curline = line;
        std::string ret;
        bool mutating = false;
        AllocSnap s0 = snap();
        bool ok = run_op(tk, ret, mutating);
        if (!ok) { vh::answer("bad-op"); return; }
        if (!mutating) {
            vh::answer(ret);
            auto& Lg = vh::Ledger::get();
            for (auto& e : Lg.errors) v02("element lifetime: " + e);
            Lg.errors.clear();
            return;
        }
        AllocSnap s1 = snap();
        std::ostringstream os;
        os << ret << " ; a=" << (s1.la - s0.la) << ',' << (s1.lf - s0.lf) << ',' << (s1.ia - s0.ia) << ',' << (s1.ifr - s0.ifr);
        std::string d = dump_all();   // oracle lines are printed before the answer; the flow accepts both orders
        vh::answer(os.str() + d + arena_part(s0, s1));
        ledgers();
    }

    bool reg(const std::string& s, int& r) { ll x; if (!num(s, x) || x > 1) return false; r = static_cast<int>(x); return true; }

    bool run_op(const std::vector<std::string>& tk, std::string& ret, bool& mutating) {
        const std::string& op = tk[0];
        int r = 0;
        if (tk.size() < 2 || !reg(tk[1], r)) return false;
        C& c = *t[r];
        const C& cc = *t[r];
        Ref& R = *ref[r];
        ll k = 0, v = 0;
        std::ostringstream os;

        if (op == "insref" || op == "inshref") {
            // insert(x) / insert(hint, x) with x a REFERENCE to the element stored at rank <rank> of this container
            ll rank;
            if (tk.size() != 3 || !num(tk[2], rank) || static_cast<size_t>(rank) >= c.size()) return false;
            mutating = true;
            It src = c.begin();
            for (ll i = 0; i < rank; ++i) ++src;
            Ent e = ent(*src);
            size_t before = c.size();
            It it; bool inserted = true;
            if (op == "insref") {
                if constexpr (dup) it = c.insert(*src);
                else { auto pr = c.insert(*src); it = pr.first; inserted = pr.second; }
            } else {
                it = c.insert((e.second & 1) ? c.end() : c.begin(), *src);
                inserted = c.size() != before;
            }
            auto rp = rinsert(r, e.first, e.second);
            check_insert_result(r, it, inserted, rp.second, rp.first, e.first, e.second);
            os << "ins " << (inserted ? 1 : 0) << ' ' << pos(r, it);
            ret = os.str();
            return true;
        }
        if (op == "ins" || op == "insh" || op == "ins2") {
            if (tk.size() != 4 || !num(tk[2], k) || !num(tk[3], v)) return false;
            if (op == "ins2" && !isMap) return false;
            if (!isMap) v = 0;
            mutating = true;
            It it; bool inserted = true;
            if (op == "ins") {
                if constexpr (dup) it = c.insert(mk(k, v));
                else { auto pr = c.insert(mk(k, v)); it = pr.first; inserted = pr.second; }
            } else if (op == "insh") {
                size_t before = c.size();
                it = c.insert((v & 1) ? c.end() : c.begin(), mk(k, v));
                inserted = c.size() != before;
            } else {
                if constexpr (isMap) {
                    if constexpr (dup) it = c.insert2(Tracked(k), Tracked(v));
                    else { auto pr = c.insert2(Tracked(k), Tracked(v)); it = pr.first; inserted = pr.second; }
                }
            }
            auto rp = rinsert(r, k, v);
            check_insert_result(r, it, inserted, rp.second, rp.first, k, v);
            os << "ins " << (inserted ? 1 : 0) << ' ' << pos(r, it);
            ret = os.str();
            return true;
        }
        if (op == "idx") {           // map only: operator[]
            if (KIND != 2 || tk.size() != 3 || !num(tk[2], k)) return false;
            mutating = true;
            ll got = -1, want = -2;
            if constexpr (KIND == 2) {
                Tracked& d = c[Tracked(k)];
                got = d.is_alive() ? d.val : -777;
                want = R[k];
            }
            if (got != want) v01("operator[] yields " + std::to_string(got) + ", std " + std::to_string(want));
            ret = "idx " + std::to_string(got);
            return true;
        }
        if (op == "insr" || op == "rctor") {   // range insert / range constructor
            std::vector<value_type> src;
            std::vector<Ent> es;
            for (size_t i = 2; i < tk.size(); ++i) { Ent e; if (!parse_ent(tk[i], e)) return false; es.push_back(e); }
            for (auto& e : es) src.push_back(mk(e.first, e.second));
            mutating = true;
            if (op == "insr") c.insert(src.begin(), src.end());
            else {
                t[r]->~C();
                t[r] = new (store[r]) C(src.begin(), src.end(), Cmp(mode[r]), CountAlloc<value_type>(r + 1));
                R.clear();
            }
            for (auto& e : es) rinsert(r, e.first, e.second);
            ret = op;
            return true;
        }
        if (op == "er1" || op == "era" || op == "er1ref" || op == "eraref") {
            // ...ref: the key argument is a REFERENCE to the key stored at rank <rank> of this container
            const bool byref = op.size() > 3;
            if (tk.size() != 3 || !num(tk[2], k)) return false;
            Tracked keytmp(byref ? 0 : k);
            const Tracked* kp = &keytmp;
            if (byref) {
                if (static_cast<size_t>(k) >= c.size()) return false;
                It src = c.begin();
                for (ll i = 0; i < k; ++i) ++src;
                kp = &keyof(*src);
                k = ent(*src).first;
            }
            const bool one = (op == "er1" || op == "er1ref");
            mutating = true;
            std::vector<Ent> before = contents(r);
            size_t rc = R.count(k);
            if (one) {
                bool b = c.erase_one(*kp);
                if (b != (rc > 0)) v01("erase_one returns " + std::to_string(b) + " with " + std::to_string(rc) + " equivalent entries present");
                // which of the equivalent entries went away?  remove exactly that one from the reference
                std::vector<Ent> after = contents(r);
                std::vector<Ent> cb = before, ca = after, gone;
                std::sort(cb.begin(), cb.end()); std::sort(ca.begin(), ca.end());   // multiset difference
                std::set_difference(cb.begin(), cb.end(), ca.begin(), ca.end(), std::back_inserter(gone));
                if (rc > 0) {
                    if (gone.size() == 1 && equiv(r, gone[0].first, k) && before.size() == after.size() + 1) rerase_exact(r, gone[0]);
                    else { v01("erase_one did not remove exactly one entry equivalent to the key"); }
                }
                os << "er1 " << (b ? 1 : 0);
            } else {
                size_t n = c.erase(*kp);
                size_t rn = R.erase(k);
                if (n != rn) v01("erase(key) returns " + std::to_string(n) + ", std " + std::to_string(rn));
                os << "era " << n;
            }
            ret = os.str();
            return true;
        }
        if (op == "eri") {
            ll rank;
            if (tk.size() != 3 || !num(tk[2], rank)) return false;
            if (static_cast<size_t>(rank) >= R.size() || static_cast<size_t>(rank) >= c.size()) return false;   // erase(end()) is undefined
            mutating = true;
            It it = c.begin();
            for (ll i = 0; i < rank; ++i) ++it;
            Ent victim = ent(*it);
            os << "eri " << pos(r, it) << ' ' << sent(victim);
            c.erase(it);
            if (!rerase_exact(r, victim)) v01("erase(iterator): the entry " + sent(victim) + " at rank " + std::to_string(rank) + " is not in the std container");
            ret = os.str();
            return true;
        }
        if (op == "findref" || op == "lbref" || op == "ubref" || op == "countref") {
            // the key argument is a REFERENCE to the key stored at rank <rank>; answered like the plain query
            ll rank;
            if (tk.size() != 3 || !num(tk[2], rank) || static_cast<size_t>(rank) >= c.size()) return false;
            It src = c.begin();
            for (ll i = 0; i < rank; ++i) ++src;
            const Tracked& key = keyof(*src);
            k = ent(*src).first;
            std::string q = op.substr(0, op.size() - 3);
            if (q == "count") {
                size_t n = cc.count(key);
                if (n != R.count(k)) v01("count(stored key) returns " + std::to_string(n) + ", std " + std::to_string(R.count(k)));
                ret = "count " + std::to_string(n);
                return true;
            }
            It it; typename Ref::iterator rit;
            if (q == "find") { it = c.find(key); rit = R.find(k); }
            else if (q == "lb") { it = c.lower_bound(key); rit = R.lower_bound(k); }
            else { it = c.upper_bound(key); rit = R.upper_bound(k); }
            ll rk; std::string p = pos(r, it, &rk);
            if (q == "find" && dup) {
                ll lo = rrank(r, R.lower_bound(k)), hi = rrank(r, R.upper_bound(k));
                if (rk < lo || rk >= hi) v01("find(stored key) position " + std::to_string(rk) + " outside [" + std::to_string(lo) + "," + std::to_string(hi) + ")");
            } else check_pos(q.c_str(), r, it, rit);
            ret = q + " " + p;
            return true;
        }
        if (op == "find" || op == "lb" || op == "ub") {
            if (tk.size() != 3 || !num(tk[2], k)) return false;
            Tracked key(k);
            It it; CIt cit;
            typename Ref::iterator rit;
            if (op == "find") { it = c.find(key); cit = cc.find(key); rit = R.find(k); }
            else if (op == "lb") { it = c.lower_bound(key); cit = cc.lower_bound(key); rit = R.lower_bound(k); }
            else { it = c.upper_bound(key); cit = cc.upper_bound(key); rit = R.upper_bound(k); }
            if (!(CIt(it) == cit)) v01(op + ": const and non-const overloads disagree");
            ll rank; std::string p = pos(r, it, &rank);
            if (op == "find" && dup && rit != R.end()) {
                ll lo = rrank(r, R.lower_bound(k)), hi = rrank(r, R.upper_bound(k));
                if (rank < lo || rank >= hi) v01("find position " + std::to_string(rank) + " outside [" + std::to_string(lo) + "," + std::to_string(hi) + ")");
            } else check_pos(op.c_str(), r, it, rit);
            if (op == "find" && rit != R.end() && it != c.end() && !equiv(r, ent(*it).first, k)) v01("find returns an entry with a non-equivalent key");
            if (op == "find" && (it == c.end()) != (cit == cc.end())) v01("find: end() mismatch between overloads");
            if (op != "find") {
                // the returned iterator must be usable: end() exactly when std's is, otherwise it refers to an
                // entry whose key is equivalent to the key std's iterator refers to
                if ((it == c.end()) != (rit == R.end()))
                    v01(op + ": returns " + (it == c.end() ? "end()" : "an iterator other than end()") + ", std " +
                        (rit == R.end() ? "end()" : "an entry"));
                else if (it != c.end() && !equiv(r, ent(*it).first, rent(rit).first))
                    v01(op + ": *it is " + sent(ent(*it)) + ", std refers to " + sent(rent(rit)));
            }
            ret = op + " " + p;
            return true;
        }
        if (op == "eqr") {
            if (tk.size() != 3 || !num(tk[2], k)) return false;
            Tracked key(k);
            auto pr = c.equal_range(key);
            auto cpr = cc.equal_range(key);
            auto rr = R.equal_range(k);
            if (!(CIt(pr.first) == cpr.first) || !(CIt(pr.second) == cpr.second)) v01("equal_range: const and non-const overloads disagree");
            check_pos("equal_range.first", r, pr.first, rr.first);
            check_pos("equal_range.second", r, pr.second, rr.second);
            if ((pr.first == c.end()) != (rr.first == R.end()) || (pr.second == c.end()) != (rr.second == R.end()))
                v01("equal_range: end() mismatch with std");
            else {
                if (pr.first != c.end() && !equiv(r, ent(*pr.first).first, rent(rr.first).first))
                    v01("equal_range.first: *it is " + sent(ent(*pr.first)) + ", std refers to " + sent(rent(rr.first)));
                if (pr.second != c.end() && !equiv(r, ent(*pr.second).first, rent(rr.second).first))
                    v01("equal_range.second: *it is " + sent(ent(*pr.second)) + ", std refers to " + sent(rent(rr.second)));
            }
            ret = "eqr " + pos(r, pr.first) + " " + pos(r, pr.second);
            return true;
        }
        if (op == "exists" || op == "count") {
            if (tk.size() != 3 || !num(tk[2], k)) return false;
            Tracked key(k);
            if (op == "exists") {
                bool b = cc.exists(key);
                if (b != (R.count(k) > 0)) v01("exists() returns " + std::to_string(b));
                ret = std::string("exists ") + (b ? "1" : "0");
            } else {
                size_t n = cc.count(key);
                if (n != R.count(k)) v01("count() returns " + std::to_string(n) + ", std " + std::to_string(R.count(k)));
                ret = "count " + std::to_string(n);
            }
            return true;
        }
        if (op == "size") {
            if (tk.size() != 2) return false;
            if (cc.size() != R.size() || cc.empty() != R.empty()) v01("size()/empty() differ from std");
            ret = "size " + std::to_string(cc.size()) + " " + (cc.empty() ? "1" : "0");
            return true;
        }
        if (op == "iter") {
            ll m;
            if (tk.size() != 3 || !num(tk[2], m) || m > 15) return false;
            bool postfix = m >= 8, overrun = false;
            size_t cap = R.size() + 2;
            std::vector<Ent> got;
            switch (m & 7) {
            case 0: got = walk_fwd<It>(c.begin(), c.end(), postfix, cap, overrun); break;
            case 1: got = walk_bwd<It>(c.begin(), c.end(), postfix, cap, overrun); break;
            case 2: got = walk_fwd<CIt>(cc.begin(), cc.end(), postfix, cap, overrun); break;
            case 3: got = walk_bwd<CIt>(cc.begin(), cc.end(), postfix, cap, overrun); break;
            case 4: got = walk_fwd<RIt>(c.rbegin(), c.rend(), postfix, cap, overrun); break;
            case 5: got = walk_bwd<RIt>(c.rbegin(), c.rend(), postfix, cap, overrun); break;
            case 6: got = walk_fwd<CRIt>(cc.rbegin(), cc.rend(), postfix, cap, overrun); break;
            default: got = walk_bwd<CRIt>(cc.rbegin(), cc.rend(), postfix, cap, overrun); break;
            }
            if (overrun) v01("iteration mode " + std::to_string(m) + " does not terminate within size()+2 steps");
            // expected: forward order for modes 0,2,5,7 ; reverse order for 1,3,4,6
            std::vector<Ent> want = rcontents(r);
            int mm = static_cast<int>(m & 7);
            bool rev = (mm == 1 || mm == 3 || mm == 4 || mm == 6);
            std::vector<Ent> gc = got;
            if (rev) std::reverse(gc.begin(), gc.end());
            if (canon(r, gc) != canon(r, want)) v01("iteration mode " + std::to_string(m) + " visits a different sequence than the std container");
            os << "iter";
            for (auto& e : got) os << ' ' << sent(e);
            ret = os.str();
            return true;
        }
        if (op == "rconv" || op == "fconv") {
            // rconv: iterator at rank -> reverse_iterator; std: *reverse_iterator(it) == *prev(it)
            // fconv: reverse_iterator after `rank` steps from rbegin() -> iterator; std: rit.base()
            ll rank;
            if (tk.size() != 3 || !num(tk[2], rank)) return false;
            if (static_cast<size_t>(rank) > R.size() || R.size() != c.size()) return false;
            if (op == "rconv") {
                It it = c.begin();
                for (ll i = 0; i < rank; ++i) ++it;
                RIt rit(it);
                CRIt crit(it);
                os << "rconv";
                if (rank == 0) {
                    if (rit != c.rend()) v01("reverse_iterator(begin()) != rend()");
                    os << " rend";
                } else {
                    auto sit = R.begin(); std::advance(sit, rank - 1);
                    Ent got = ent(*rit), got2 = ent(*crit);
                    os << ' ' << sent(got);
                    if (got != got2) v01("reverse_iterator and const_reverse_iterator conversions disagree");
                    if (!dup && mode[r] != 2 ? got != rent(sit) : !equiv(r, got.first, rent(sit).first))
                        v01("reverse_iterator(iterator at rank " + std::to_string(rank) + ") refers to " + sent(got) + ", std to " + sent(rent(sit)));
                    // number of ++ steps to rend() must be rank
                    ll steps = 0; RIt x = rit;
                    while (x != c.rend() && steps <= static_cast<ll>(R.size()) + 1) { ++x; ++steps; }
                    os << ' ' << steps;
                    if (steps != rank) v01("reverse_iterator(iterator at rank " + std::to_string(rank) + ") is " + std::to_string(steps) + " steps before rend()");
                }
            } else {
                RIt rit = c.rbegin();
                for (ll i = 0; i < rank; ++i) ++rit;
                It it(rit);
                CIt cit(rit);
                os << "fconv";
                // base() of a reverse iterator `rank` steps from rbegin is the iterator at size-rank
                ll frank = static_cast<ll>(R.size()) - rank;
                if (rank == 0) {
                    if (it != c.end()) v01("iterator(rbegin()) != end()");
                    os << " end";
                } else {
                    auto sit = R.begin(); std::advance(sit, frank);
                    Ent got = ent(*it), got2 = ent(*cit);
                    os << ' ' << sent(got);
                    if (got != got2) v01("iterator and const_iterator conversions disagree");
                    if (!dup && mode[r] != 2 ? got != rent(sit) : !equiv(r, got.first, rent(sit).first))
                        v01("iterator(reverse_iterator after " + std::to_string(rank) + " steps) refers to " + sent(got) + ", std base() to " + sent(rent(sit)));
                    ll steps = 0; It x = it;
                    while (x != c.end() && steps <= static_cast<ll>(R.size()) + 1) { ++x; ++steps; }
                    os << ' ' << steps;
                    if (steps != rank) v01("iterator(reverse_iterator after " + std::to_string(rank) + " steps) is " + std::to_string(steps) + " steps before end()");
                }
            }
            ret = os.str();
            return true;
        }
        if (op == "clear") {
            if (tk.size() != 2) return false;
            mutating = true;
            c.clear(); R.clear();
            ret = "clear";
            return true;
        }
        if (op == "bulk") {
            std::vector<Ent> es;
            for (size_t i = 2; i < tk.size(); ++i) { Ent e; if (!parse_ent(tk[i], e)) return false; es.push_back(e); }
            if (!R.empty() || !c.empty()) return false;                       // documented: tree must be empty
            for (size_t i = 1; i < es.size(); ++i) {                          // documented: sorted range
                if (dup ? lt(r, es[i].first, es[i - 1].first) : !lt(r, es[i - 1].first, es[i].first)) return false;
            }
            mutating = true;
            std::vector<value_type> src;
            for (auto& e : es) src.push_back(mk(e.first, e.second));
            c.bulk_load(src.begin(), src.end());
            for (auto& e : es) rinsert(r, e.first, e.second);
            ret = "bulk";
            return true;
        }
        if (op == "copy" || op == "assign" || op == "swap" || op == "tswap" || op == "cmp") {
            int s;
            if (tk.size() != 3 || !reg(tk[2], s)) return false;
            if (op == "copy") {
                if (s == r) return false;
                mutating = true;
                t[r]->~C();
                t[r] = new (store[r]) C(*t[s]);
                *ref[r] = *ref[s];
                mode[r] = mode[s];
                ret = "copy";
            } else if (op == "assign") {
                mutating = true;
                *t[r] = *t[s];
                if (r != s) { *ref[r] = *ref[s]; mode[r] = mode[s]; }
                ret = "assign";
            } else if (op == "swap") {
                mutating = true;
                t[r]->swap(*t[s]);
                if (r != s) { ref[r]->swap(*ref[s]); std::swap(mode[r], mode[s]); }
                ret = "swap";
            } else if (op == "tswap") {
                mutating = true;
                F::impl(*t[r]).swap(F::impl(*t[s]));
                if (r != s) { ref[r]->swap(*ref[s]); std::swap(mode[r], mode[s]); }
                ret = "tswap";
            } else {
                const C& a = *t[r]; const C& b = *t[s];
                bool g[6] = {a == b, a != b, a < b, a > b, a <= b, a >= b};
                bool w[6];
                if (dup && (isMap || mode[r] == 2 || mode[s] == 2)) {
                    // order inside runs of equivalent keys is unspecified: definition applied to the tree's own sequences
                    std::vector<Ent> x = contents(r), y = contents(s);
                    w[0] = x == y; w[1] = !w[0];
                    w[2] = std::lexicographical_compare(x.begin(), x.end(), y.begin(), y.end());
                    w[3] = std::lexicographical_compare(y.begin(), y.end(), x.begin(), x.end());
                    w[4] = !w[3]; w[5] = !w[2];
                } else {
                    const Ref& x = *ref[r]; const Ref& y = *ref[s];
                    w[0] = x == y; w[1] = x != y; w[2] = x < y; w[3] = x > y; w[4] = x <= y; w[5] = x >= y;
                }
                os << "cmp ";
                for (int i = 0; i < 6; ++i) os << (g[i] ? 1 : 0);
                for (int i = 0; i < 6; ++i)
                    if (g[i] != w[i]) { v01(std::string("comparison operator #") + std::to_string(i) + " (of == != < > <= >=) differs from std"); break; }
                ret = os.str();
            }
            return true;
        }
        return false;
    }
};

