// C04 harness, shared part: parameter classes, the oracle and run_once<Params>()
// (one run of the real sorter on one representation).  Included by c04.cpp (protocol,
// classifier operations) and by c04_p*.cpp (explicit instantiations, compiled in
// parallel because every PS5 parameter set costs several seconds of compile time).
#pragma once
#include <algorithm>
#include <atomic>
#include <cassert>
#include <cmath>
#include <condition_variable>
#include <cstdint>
#include <cstdlib>
#include <cstring>
#include <deque>
#include <iostream>
#include <map>
#include <memory>
#include <mutex>
#include <random>
#include <sstream>
#include <string>
#include <thread>
#include <type_traits>
#include <unistd.h>
#include <vector>

#include "common.hpp"

// std::thread::hardware_concurrency() is interposed in c04.cpp (returns g_hw): it is
// the pool size chosen by parallel_sample_sort_base
extern unsigned g_hw;

#define private public
#define protected public
#include <tlx/sort/strings/parallel_sample_sort.hpp>
#include <tlx/sort/strings_parallel.hpp>
#undef private
#undef protected

namespace ssd = tlx::sort_strings_detail;
typedef std::vector<std::string> Strs;

// ------------------------------------------------------------------ parameters
template <unsigned TB, size_t SmallT, size_t InsT, bool Share = true, bool Rest = false,
          int Kind = 0, typename Key = size_t>
class P : public ssd::PS5ParametersDefault {
public:
    typedef Key key_type;
    static const unsigned TreeBits = TB;
    static const bool enable_work_sharing = Share;
    static const bool enable_rest_size = Rest;
    using Classify = typename std::conditional<
        Kind == 0, ssd::SSClassifyTreeCalcUnrollInterleave<Key, TB>,
        typename std::conditional<Kind == 1, ssd::SSClassifyTreeUnrollInterleave<Key, TB>,
                                  ssd::SSClassifyEqualUnroll<Key, TB> >::type>::type;
    static const size_t smallsort_threshold = SmallT;
    static const size_t inssort_threshold = InsT;
};

// ------------------------------------------------------------------ helpers
static int hexv(char c) { return c <= '9' ? c - '0' : (c | 32) - 'a' + 10; }
static bool parse_strs(const std::string& tok, Strs& out) {
    out.clear();
    if (tok == "none") return true;
    std::istringstream is(tok);
    std::string w;
    while (std::getline(is, w, ',')) {
        if (w == "-") { out.emplace_back(); continue; }
        if (w.size() % 2) return false;
        std::string s;
        for (size_t i = 0; i < w.size(); i += 2) {
            if (!isxdigit((unsigned char)w[i]) || !isxdigit((unsigned char)w[i + 1])) return false;
            int v = hexv(w[i]) * 16 + hexv(w[i + 1]);
            if (v == 0) return false;   // NUL-free strings only (precondition)
            s.push_back((char)v);
        }
        out.push_back(s);
    }
    if (!tok.empty() && tok.back() == ',') return false;
    return true;
}
static std::string hexs(const std::string& s) {
    if (s.empty()) return "-";
    static const char* d = "0123456789abcdef";
    std::string r;
    for (unsigned char c : s) { r.push_back(d[c >> 4]); r.push_back(d[c & 15]); }
    return r;
}
static std::string show_strs(const Strs& v) {
    if (v.empty()) return "none";
    std::string r;
    for (size_t i = 0; i < v.size(); ++i) { if (i) r += ','; r += hexs(v[i]); }
    return r;
}
static bool ult(const std::string& a, const std::string& b) {
    size_t n = std::min(a.size(), b.size());
    int c = memcmp(a.data(), b.data(), n);
    return c < 0 || (c == 0 && a.size() < b.size());
}
static size_t lcp_of(const std::string& a, const std::string& b) {
    size_t i = 0;
    while (i < a.size() && i < b.size() && a[i] == b[i]) ++i;
    return i;
}

// One run of the real code on one representation.  Returns the resulting order
// (contents), the lcp array (n entries, entry 0 unspecified) and oracle messages.
struct RunResult { Strs order; std::vector<uint32_t> lcp; std::vector<std::string> viol; };

static const uint32_t LCP_SENTINEL = 0xDEADBEEFu;

template <typename Params, typename Set, typename Ptr>
static void call_params(const Set& ss, uint32_t* lcp) {
    if (lcp)
        ssd::parallel_sample_sort_params<Params>(ssd::StringLcpPtr<Set, uint32_t>(ss, lcp), 0, 0);
    else
        ssd::parallel_sample_sort_params<Params>(ssd::StringPtr<Set>(ss), 0, 0);
}

// Sorts `in` (contents) with the chosen representation; Params = void -> public API.
// AllReprs = false: only the UCharStringSet instantiation exists (compile time).
template <typename Params, bool AllReprs>
RunResult run_once(const Strs& in, const std::string& repr, bool with_lcp, vh::Rng* shuffle) {
    RunResult R;
    size_t n = in.size();
    std::vector<size_t> perm(n);
    for (size_t i = 0; i < n; ++i) perm[i] = i;
    if (shuffle) for (size_t i = n; i > 1; --i) std::swap(perm[i - 1], perm[shuffle->below(i)]);
    // exact-size heap arrays so that ASan sees every out-of-bounds access
    std::unique_ptr<uint32_t[]> lcp(with_lcp ? new uint32_t[n ? n : 1] : nullptr);
    if (with_lcp) for (size_t i = 0; i < n; ++i) lcp[i] = LCP_SENTINEL;
    bool is_std = (repr == "s" || repr == "vs");
    if (!is_std) {
        std::vector<std::unique_ptr<unsigned char[]> > store(n);
        std::unique_ptr<unsigned char*[]> arr(new unsigned char*[n ? n : 1]);
        std::vector<unsigned char*> before(n);
        for (size_t i = 0; i < n; ++i) {
            const std::string& s = in[perm[i]];
            store[i].reset(new unsigned char[s.size() + 1]);
            memcpy(store[i].get(), s.data(), s.size());
            store[i][s.size()] = 0;
            arr[i] = store[i].get();
            before[i] = arr[i];
        }
        unsigned char** a = arr.get();
        if constexpr (std::is_void<Params>::value) {
            std::vector<unsigned char*> vuc; std::vector<char*> vc;
            std::vector<const unsigned char*> vcuc; std::vector<const char*> vcc;
            if (repr == "uc") { with_lcp ? tlx::sort_strings_parallel_lcp(a, n, lcp.get()) : tlx::sort_strings_parallel(a, n); }
            else if (repr == "c") { with_lcp ? tlx::sort_strings_parallel_lcp((char**)a, n, lcp.get()) : tlx::sort_strings_parallel((char**)a, n); }
            else if (repr == "cuc") { with_lcp ? tlx::sort_strings_parallel_lcp((const unsigned char**)a, n, lcp.get()) : tlx::sort_strings_parallel((const unsigned char**)a, n); }
            else if (repr == "cc") { with_lcp ? tlx::sort_strings_parallel_lcp((const char**)a, n, lcp.get()) : tlx::sort_strings_parallel((const char**)a, n); }
            else if (repr == "vuc") { vuc.assign(a, a + n); with_lcp ? tlx::sort_strings_parallel_lcp(vuc, lcp.get()) : tlx::sort_strings_parallel(vuc); std::copy(vuc.begin(), vuc.end(), a); }
            else if (repr == "vc") { vc.assign((char**)a, (char**)a + n); with_lcp ? tlx::sort_strings_parallel_lcp(vc, lcp.get()) : tlx::sort_strings_parallel(vc); for (size_t i = 0; i < n; ++i) a[i] = (unsigned char*)vc[i]; }
            else if (repr == "vcuc") { vcuc.assign(a, a + n); with_lcp ? tlx::sort_strings_parallel_lcp(vcuc, lcp.get()) : tlx::sort_strings_parallel(vcuc); for (size_t i = 0; i < n; ++i) a[i] = (unsigned char*)vcuc[i]; }
            else if (repr == "vcc") { vcc.assign((char**)a, (char**)a + n); with_lcp ? tlx::sort_strings_parallel_lcp(vcc, lcp.get()) : tlx::sort_strings_parallel(vcc); for (size_t i = 0; i < n; ++i) a[i] = (unsigned char*)vcc[i]; }
        } else {
            if (AllReprs && (repr == "cuc" || repr == "cc" || repr == "vcuc" || repr == "vcc")) {
                if constexpr (AllReprs)
                    call_params<Params, ssd::CUCharStringSet, void>(ssd::CUCharStringSet((const unsigned char**)a, (const unsigned char**)a + n), lcp.get());
            } else
                call_params<Params, ssd::UCharStringSet, void>(ssd::UCharStringSet(a, a + n), lcp.get());
        }
        // permutation of the original string objects
        std::vector<unsigned char*> after(a, a + n);
        std::vector<unsigned char*> b2 = before, a2 = after;
        std::sort(b2.begin(), b2.end()); std::sort(a2.begin(), a2.end());
        if (b2 != a2) {
            R.viol.push_back("result is not a permutation of the input string pointers");
            // keep going only with pointers that are ours
            std::map<unsigned char*, bool> ok; for (auto p : before) ok[p] = true;
            for (auto p : after) R.order.push_back(ok.count(p) ? std::string((char*)p) : std::string("\x01?"));
        } else {
            for (auto p : after) R.order.push_back(std::string((char*)p));
        }
    } else {
        std::unique_ptr<std::string[]> arr(new std::string[n ? n : 1]);
        for (size_t i = 0; i < n; ++i) arr[i] = in[perm[i]];
        if constexpr (std::is_void<Params>::value) {
            if (repr == "s") { with_lcp ? tlx::sort_strings_parallel_lcp(arr.get(), n, lcp.get()) : tlx::sort_strings_parallel(arr.get(), n); }
            else {
                std::vector<std::string> v(arr.get(), arr.get() + n);
                with_lcp ? tlx::sort_strings_parallel_lcp(v, lcp.get()) : tlx::sort_strings_parallel(v);
                for (size_t i = 0; i < n; ++i) arr[i] = v[i];
            }
        } else {
            if constexpr (AllReprs)
                call_params<Params, ssd::StdStringSet, void>(ssd::StdStringSet(arr.get(), arr.get() + n), lcp.get());
            else { R.viol.push_back("internal: representation not instantiated"); return R; }
        }
        for (size_t i = 0; i < n; ++i) R.order.push_back(arr[i]);
        Strs x = in, y = R.order;
        std::sort(x.begin(), x.end()); std::sort(y.begin(), y.end());
        if (x != y) R.viol.push_back("result is not a permutation of the input strings (std::string objects)");
    }
    for (size_t i = 1; i < n; ++i)
        if (ult(R.order[i], R.order[i - 1])) { R.viol.push_back("result not sorted at position " + std::to_string(i)); break; }
    if (with_lcp) {
        R.lcp.assign(lcp.get(), lcp.get() + n);
        for (size_t i = 1; i < n; ++i)
            if (R.lcp[i] != lcp_of(R.order[i - 1], R.order[i])) {
                R.viol.push_back("lcp[" + std::to_string(i) + "]=" + std::to_string(R.lcp[i]) + " but neighbours share " +
                                 std::to_string(lcp_of(R.order[i - 1], R.order[i])) + " bytes");
                break;
            }
    }
    return R;
}


typedef RunResult (*Runner)(const Strs&, const std::string&, bool, vh::Rng*);
struct ParamInfo { const char* name; Runner run; bool all_reprs; };
extern const ParamInfo PARAMS_A[], PARAMS_B[], PARAMS_C[], PARAMS_D[];
