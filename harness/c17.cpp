// C17 harness: tlx::LruCacheSet / LruCacheMap and tlx::SplayTree (set and multiset) behind the
// line protocol (model side: lean/Driver/C17.lean).
//
//   cfg lruset | cfg lrumap | cfg splay <set|multi> <less|greater>
// LRU ops:   put k [v] | touch k | touchif k | erase k | eraseif k | get k | gettouch k | exists k
//            | size | pop | clear
//   answer = "<ret> ; l=<list_ from front (most recent) to back, k or k:v> ; m=<keys of map_, sorted,
//             each with the key of the list node its stored iterator points to: k>k'>"
//   exceptions are mapped to the enum {range_error, other-exception}.
// Splay ops: insert k | erase k | exists k | find k | size | empty | clear | trav | check | checkneg
//   answer = "<ret> ; n=<size_> ; t=<shape of the tree under root_ as (L key R), - = null>"
//   `checkneg` (tree with >= 2 nodes) temporarily makes the tree invalid through the public
//   Node pointers and asks check() (it must answer 0), then restores the key.
//
// Direct oracle (#VIOL): a reference recency list written independently here (std::vector),
// std::set / std::multiset for the splay tree, a search-tree check that walks the nodes itself,
// and a node ledger (allocator that records every live node: double free, leak, walking
// into a freed node).
#include <algorithm>
#include <cassert>
#include <cstddef>
#include <functional>
#include <list>
#include <map>
#include <memory>
#include <set>
#include <sstream>
#include <stdexcept>
#include <string>
#include <unordered_map>
#include <utility>
#include <vector>

#include <csignal>
#include <sys/time.h>
#include <unistd.h>

#include "common.hpp"

#define private public
#define protected public
#include <tlx/container/lru_cache.hpp>
#include <tlx/container/splay_tree.hpp>
#undef private
#undef protected

static constexpr int KU = 12;   // key universe 0..KU-1 (queries may go a little outside)

struct ICont {
    virtual ~ICont() {}
    virtual void op(const std::vector<std::string>& t, const std::string& line) = 0;
    virtual void finish() {}
};

// ------------------------------------------------------------------ LRU
template <bool IsMap>
struct Lru : ICont {
    tlx::LruCacheSet<int> cs;
    tlx::LruCacheMap<int, int> cm;
    std::vector<std::pair<int, int>> ref;   // front = most recently put/touched

    int ref_find(int k) const {
        for (size_t i = 0; i < ref.size(); ++i) if (ref[i].first == k) return static_cast<int>(i);
        return -1;
    }
    void ref_front(int i) { auto e = ref[i]; ref.erase(ref.begin() + i); ref.insert(ref.begin(), e); }

    std::string dump() {
        std::ostringstream os;
        os << "l=";
        bool first = true;
        if (IsMap) for (auto& e : cm.list_) { if (!first) os << ','; first = false; os << e.first << ':' << e.second; }
        else for (auto& e : cs.list_) { if (!first) os << ','; first = false; os << e; }
        if (first) os << '-';
        os << " ; m=";
        std::map<int, int> mm;
        if (IsMap) for (auto& e : cm.map_) mm[e.first] = e.second->first;
        else for (auto& e : cs.map_) mm[e.first] = *e.second;
        first = true;
        for (auto& e : mm) { if (!first) os << ','; first = false; os << e.first << '>' << e.second; }
        if (first) os << '-';
        return os.str();
    }

    void check(const std::string& line) {
        size_t n = IsMap ? cm.size() : cs.size();
        if (n != ref.size()) vh::viol("lru size " + std::to_string(n) + " != reference " + std::to_string(ref.size()) + " after " + line);
        std::vector<std::pair<int, int>> got;
        if (IsMap) for (auto& e : cm.list_) got.push_back(e);
        else for (auto& e : cs.list_) got.emplace_back(e, 0);
        if (got != ref) vh::viol("lru recency list differs from the reference LRU list after " + line);
        for (int k = -1; k <= KU; ++k) {
            bool e = IsMap ? cm.exists(k) : cs.exists(k);
            if (e != (ref_find(k) >= 0)) { vh::viol("lru exists(" + std::to_string(k) + ") wrong after " + line); break; }
        }
    }

    void op(const std::vector<std::string>& t, const std::string& line) override {
        const std::string& o = t[0];
        std::string ret = "ok";
        int k = t.size() > 1 ? std::stoi(t[1]) : 0;
        int v = t.size() > 2 ? std::stoi(t[2]) : 0;
        bool need_key = (o == "put" || o == "touch" || o == "touchif" || o == "erase" || o == "eraseif" || o == "get" || o == "gettouch" || o == "exists");
        if (need_key && (t.size() < 2 || k < -1 || k > KU)) { vh::answer("bad-op"); return; }
        if ((o == "get" || o == "gettouch") && !IsMap) { vh::answer("bad-op"); return; }
        if (o == "pop" && ref.empty()) { vh::answer("bad-op"); return; }    // documented: assert(size())
        int ri = need_key ? ref_find(k) : -1;
        bool threw = false, expect_throw = false;
        try {
            if (o == "put") {
                if (IsMap) cm.put(k, v); else cs.put(k);
                if (ri >= 0) ref.erase(ref.begin() + ri);
                ref.insert(ref.begin(), std::make_pair(k, IsMap ? v : 0));
            }
            else if (o == "touch") {
                expect_throw = ri < 0;
                if (IsMap) cm.touch(k); else cs.touch(k);
                if (ri >= 0) ref_front(ri);
            }
            else if (o == "touchif") {
                bool r = IsMap ? cm.touch_if_exists(k) : cs.touch_if_exists(k);
                ret = r ? "1" : "0";
                if (r != (ri >= 0)) vh::viol("lru touch_if_exists result wrong after " + line);
                if (ri >= 0) ref_front(ri);
            }
            else if (o == "erase") {
                expect_throw = ri < 0;
                if (IsMap) cm.erase(k); else cs.erase(k);
                if (ri >= 0) ref.erase(ref.begin() + ri);
            }
            else if (o == "eraseif") {
                bool r = IsMap ? cm.erase_if_exists(k) : cs.erase_if_exists(k);
                ret = r ? "1" : "0";
                if (r != (ri >= 0)) vh::viol("lru erase_if_exists result wrong after " + line);
                if (ri >= 0) ref.erase(ref.begin() + ri);
            }
            else if (o == "get") {
                expect_throw = ri < 0;
                int r = cm.get(k);
                ret = std::to_string(r);
                if (ri >= 0 && r != ref[ri].second) vh::viol("lru get returned " + ret + " but the latest value is " + std::to_string(ref[ri].second) + " after " + line);
            }
            else if (o == "gettouch") {
                expect_throw = ri < 0;
                int r = cm.get_touch(k);
                ret = std::to_string(r);
                if (ri >= 0 && r != ref[ri].second) vh::viol("lru get_touch returned " + ret + " but the latest value is " + std::to_string(ref[ri].second) + " after " + line);
                if (ri >= 0) ref_front(ri);
            }
            else if (o == "exists") ret = (IsMap ? cm.exists(k) : cs.exists(k)) ? "1" : "0";
            else if (o == "size") ret = std::to_string(IsMap ? cm.size() : cs.size());
            else if (o == "pop") {
                std::pair<int, int> want = ref.back();
                if (IsMap) {
                    auto r = cm.pop();
                    ret = std::to_string(r.first) + ":" + std::to_string(r.second);
                    if (r != want) vh::viol("lru pop returned " + ret + " but the least recently used entry is " + std::to_string(want.first) + ":" + std::to_string(want.second) + " after " + line);
                }
                else {
                    int r = cs.pop();
                    ret = std::to_string(r);
                    if (r != want.first) vh::viol("lru pop returned " + ret + " but the least recently used key is " + std::to_string(want.first) + " after " + line);
                }
                ref.pop_back();
            }
            else if (o == "clear") { if (IsMap) cm.clear(); else cs.clear(); ref.clear(); }
            else { vh::answer("bad-op"); return; }
        }
        catch (const std::range_error&) { threw = true; ret = "range_error"; }
        catch (const std::exception&) { threw = true; ret = "other-exception"; vh::viol("lru undocumented exception type after " + line); }
        if (threw != expect_throw)
            vh::viol(std::string("lru ") + (threw ? "threw for a present key" : "did not throw for an absent key") + " after " + line);
        vh::answer(ret + " ; " + dump());
        check(line);
    }
};

// ------------------------------------------------------------------ SplayTree
struct NodeLedger {
    std::set<const void*> live;
    std::vector<std::string> errors;
    size_t allocs = 0, frees = 0;
    static NodeLedger& get() { static NodeLedger l; return l; }
    void reset() { live.clear(); errors.clear(); allocs = frees = 0; }
};

// allocator that records every live node; a free of a pointer that is not live is reported and
// NOT forwarded (so the run can go on and the double free is named by the oracle, not only by ASan)
template <typename T>
struct LedgerAlloc {
    using value_type = T;
    LedgerAlloc() = default;
    template <typename U2> LedgerAlloc(const LedgerAlloc<U2>&) {}
    T* allocate(size_t n) {
        T* p = std::allocator<T>().allocate(n);
        NodeLedger::get().live.insert(p);
        ++NodeLedger::get().allocs;
        return p;
    }
    void deallocate(T* p, size_t n) {
        auto& L = NodeLedger::get();
        auto it = L.live.find(p);
        if (it == L.live.end()) { L.errors.push_back("node freed twice (or never allocated)"); return; }
        L.live.erase(it);
        ++L.frees;
        std::allocator<T>().deallocate(p, n);
    }
    template <typename U2> bool operator==(const LedgerAlloc<U2>&) const { return true; }
    template <typename U2> bool operator!=(const LedgerAlloc<U2>&) const { return false; }
};

template <bool Dup, typename Cmp>
struct Splay : ICont {
    using T = tlx::SplayTree<int, Cmp, Dup, LedgerAlloc<int>>;
    using Node = typename T::Node;
    std::unique_ptr<T> tr{new T()};
    std::multiset<int, Cmp> ref;
    Cmp cmp;

    // walks the nodes; never dereferences a node that the ledger does not know as live
    bool shape(const Node* n, std::ostringstream& os, size_t& count, size_t depth) {
        if (!n) { os << '-'; return true; }
        if (!NodeLedger::get().live.count(n) || depth > 4096) { os << '!'; return false; }
        ++count;
        os << '(';
        bool a = shape(n->left, os, count, depth + 1);
        os << ' ' << n->key << ' ';
        bool b = shape(n->right, os, count, depth + 1);
        os << ')';
        return a && b;
    }
    void inorder(const Node* n, std::vector<int>& out) {
        if (!n) return;
        inorder(n->left, out); out.push_back(n->key); inorder(n->right, out);
    }
    // search-tree check by bounds (non-strict for duplicates)
    bool bst(const Node* n, const int* lo, const int* hi) {
        if (!n) return true;
        if (lo && (Dup ? cmp(n->key, *lo) : !cmp(*lo, n->key))) return false;
        if (hi && (Dup ? cmp(*hi, n->key) : !cmp(n->key, *hi))) return false;
        return bst(n->left, lo, &n->key) && bst(n->right, &n->key, hi);
    }

    std::string dump(bool& walk_ok, size_t& count) {
        std::ostringstream os;
        os << "n=" << tr->size_ << " ; t=";
        count = 0;
        walk_ok = shape(tr->root_, os, count, 0);
        return os.str();
    }

    void check(const std::string& line, bool walk_ok, size_t count) {
        auto& L = NodeLedger::get();
        for (auto& e : L.errors) vh::viol("splay " + e + " after " + line);
        L.errors.clear();
        if (!walk_ok) { vh::viol("splay tree reaches a freed node (dangling pointer) after " + line); return; }
        if (tr->size() != ref.size()) vh::viol("splay size " + std::to_string(tr->size()) + " != reference " + std::to_string(ref.size()) + " after " + line);
        if (tr->empty() != ref.empty()) vh::viol("splay empty() wrong after " + line);
        if (count != ref.size()) vh::viol("splay tree has " + std::to_string(count) + " reachable nodes, reference has " + std::to_string(ref.size()) + " keys after " + line);
        if (L.live.size() != ref.size()) vh::viol("splay live nodes " + std::to_string(L.live.size()) + " != stored keys " + std::to_string(ref.size()) + " after " + line);
        std::vector<int> got;
        inorder(tr->root_, got);
        if (got != std::vector<int>(ref.begin(), ref.end())) vh::viol("splay in-order key sequence differs from the reference after " + line);
        if (!bst(tr->root_, nullptr, nullptr)) vh::viol("splay tree is not a valid search tree after " + line);
        std::vector<int> tv;
        tr->traverse_preorder([&tv](const int& k) { tv.push_back(k); });
        if (tv != got) vh::viol("splay traverse_preorder differs from the node walk after " + line);
    }

    void op(const std::vector<std::string>& t, const std::string& line) override {
        const std::string& o = t[0];
        std::string ret = "ok";
        int k = t.size() > 1 ? std::stoi(t[1]) : 0;
        bool need_key = (o == "insert" || o == "erase" || o == "exists" || o == "find");
        if (need_key && (t.size() < 2 || k < -1 || k > KU)) { vh::answer("bad-op"); return; }
        if (o == "insert") {
            bool r = tr->insert(k);
            bool want = Dup || ref.count(k) == 0;
            ret = r ? "1" : "0";
            if (r != want) vh::viol("splay insert returned " + ret + " after " + line);
            if (want) ref.insert(k);
        }
        else if (o == "erase") {
            bool r = tr->erase(k);
            auto it = ref.find(k);
            ret = r ? "1" : "0";
            if (r != (it != ref.end())) vh::viol("splay erase returned " + ret + " after " + line);
            if (it != ref.end()) ref.erase(it);
        }
        else if (o == "exists") {
            bool r = tr->exists(k);
            ret = r ? "1" : "0";
            if (r != (ref.count(k) != 0)) vh::viol("splay exists returned " + ret + " after " + line);
        }
        else if (o == "find") {
            Node* n = tr->find(k);
            if (!n) { ret = "null"; if (!ref.empty()) vh::viol("splay find returned null on a non-empty tree after " + line); }
            else {
                ret = std::to_string(n->key);
                if (ref.empty()) vh::viol("splay find returned a node of an empty tree after " + line);
                else if (ref.count(k)) { if (n->key != k) vh::viol("splay find(" + std::to_string(k) + ") returned " + ret + " although the key is stored after " + line); }
                else {
                    // a neighbour of k: the predecessor or the successor in the reference
                    auto ub = ref.upper_bound(k);
                    bool ok = (ub != ref.end() && *ub == n->key) || (ub != ref.begin() && *std::prev(ub) == n->key);
                    if (!ok) vh::viol("splay find(" + std::to_string(k) + ") returned " + ret + " which is not a neighbour after " + line);
                }
            }
        }
        else if (o == "size") ret = std::to_string(tr->size());
        else if (o == "empty") ret = tr->empty() ? "1" : "0";
        else if (o == "clear") { tr->clear(); ref.clear(); }
        else if (o == "trav") {
            std::vector<int> tv;
            tr->traverse_preorder([&tv](const int& kk) { tv.push_back(kk); });
            ret = "[" + (tv.empty() ? std::string() : vh::show_csv(tv)) + "]";
        }
        else if (o == "check") {
            ret = tr->check() ? "1" : "0";
            if (ret != "1") vh::viol("splay check() false on a valid tree after " + line);
        }
        else if (o == "checkneg") {
            // precondition: at least two nodes; breaks the order at the root through the public Node*
            if (ref.size() < 2 || !tr->root_ || !NodeLedger::get().live.count(tr->root_)) { vh::answer("bad-op"); return; }
            Node* r = tr->root_;
            Node* c = r->left ? r->left : r->right;
            if (!c || !NodeLedger::get().live.count(c)) { vh::answer("bad-op"); return; }
            int saved = c->key;
            // a left child strictly above the root / a right child strictly below it
            c->key = (c == r->left) ? (cmp(0, 1) ? r->key + 100 : r->key - 100) : (cmp(0, 1) ? r->key - 100 : r->key + 100);
            bool harness_says_valid = bst(tr->root_, nullptr, nullptr);
            bool chk = tr->check();
            c->key = saved;
            ret = chk ? "1" : "0";
            if (harness_says_valid) vh::viol("harness: corrupted tree still valid?! after " + line);
            else if (chk) vh::viol("splay check() answers true on a tree that is not a search tree after " + line);
        }
        else { vh::answer("bad-op"); return; }
        bool walk_ok; size_t count;
        std::string d = dump(walk_ok, count);
        vh::answer(ret + " ; " + d);
        check(line, walk_ok, count);
    }

    void finish() override {
        tr.reset();   // ~SplayTree(): clear()
        auto& L = NodeLedger::get();
        for (auto& e : L.errors) vh::viol("splay " + e + " in the destructor");
        if (!L.live.empty()) {
            vh::viol("splay " + std::to_string(L.live.size()) + " nodes never freed");
            for (const void* p : L.live) std::allocator<Node>().deallocate(static_cast<Node*>(const_cast<void*>(p)), 1);
        }
        L.reset();
    }
};

static ICont* configure(const std::vector<std::string>& t) {
    if (t.size() == 2 && t[1] == "lruset") return new Lru<false>();
    if (t.size() == 2 && t[1] == "lrumap") return new Lru<true>();
    if (t.size() == 4 && t[1] == "splay") {
        bool multi = t[2] == "multi";
        if (!multi && t[2] != "set") return nullptr;
        if (t[3] == "less") return multi ? static_cast<ICont*>(new Splay<true, std::less<int>>()) : new Splay<false, std::less<int>>();
        if (t[3] == "greater") return multi ? static_cast<ICont*>(new Splay<true, std::greater<int>>()) : new Splay<false, std::greater<int>>();
    }
    return nullptr;
}

// an operation that no longer terminates (e.g. a sift loop that stops making progress) must not hang
// the check: 1 s of CPU time per protocol line, then the run ends with a verdict
static void on_vtalarm(int) {
    static const char m[] = "#VIOL hang: an operation used more than 1 s of CPU time\n";
    ssize_t r = write(1, m, sizeof(m) - 1);
    (void)r;
    _exit(3);
}
static void arm_watchdog(long sec) {
    struct itimerval tv;
    tv.it_interval.tv_sec = 0; tv.it_interval.tv_usec = 0;
    tv.it_value.tv_sec = sec; tv.it_value.tv_usec = 0;
    setitimer(ITIMER_VIRTUAL, &tv, nullptr);
}

int main() {
    std::string line;
    std::unique_ptr<ICont> cur;
    auto close = [&]() { if (cur) { cur->finish(); cur.reset(); } };
    std::signal(SIGVTALRM, on_vtalarm);
    while (std::getline(std::cin, line)) {
        arm_watchdog(1);
        auto t = vh::tokens(line);
        if (t.empty()) { vh::answer(""); continue; }
        if (t[0][0] == '#') { vh::answer(line); continue; }
        if (t[0] == "case") { close(); vh::answer("case"); continue; }
        if (t[0] == "cfg") { close(); cur.reset(configure(t)); vh::answer(cur ? "ok" : "bad-op"); continue; }
        if (!cur) { vh::answer("bad-op"); continue; }
        cur->op(t, line);
    }
    close();
    return 0;
}
