// C17 harness: tlx::LruCacheSet / LruCacheMap and tlx::SplayTree (set and multiset) behind the
// line protocol (model side: lean/Driver/C17.lean).
//
//   cfg lruset [int|str|mk] | cfg lrumap [int|str|mk] | cfg splay <set|multi> <less|greater> [int|mk]
//   (key/value types: int, std::string, MK = a struct whose moved-from objects are marked: hashing,
//    comparing or copying one is reported)
// LRU ops:   put k [v] | touch k | touchif k | erase k | eraseif k | get k | gettouch k | exists k
//            | size | pop | clear
//   answer = "<ret> ; l=<list_ from front (most recent) to back, k or k:v> ; m=<keys of map_, sorted,
//             each with the key of the list node its stored iterator points to: k>k'>"
//   exceptions are mapped to the enum {range_error, other-exception}.
// Splay ops: insert k | erase k | exists k | find k | size | empty | clear | trav | check | checkneg
//   answer = "<ret> ; n=<size_> ; t=<shape of the tree under root_ as (L key R), - = null>"
//   `checkneg` (tree with >= 2 nodes) temporarily makes the tree invalid through the public
//   Node pointers and asks check() (it must answer 0), then restores the key.
//
// Direct oracle (#VIOL): a reference recency list written independently here (std::vector),
// std::set / std::multiset for the splay tree, a search-tree check that walks the nodes itself,
// and a node ledger (allocator that records every live node: double free, leak, walking
// into a freed node).
#include <algorithm>
#include <cassert>
#include <cstddef>
#include <functional>
#include <list>
#include <map>
#include <memory>
#include <set>
#include <sstream>
#include <stdexcept>
#include <string>
#include <unordered_map>
#include <utility>
#include <vector>

#include <csignal>
#include <sys/time.h>
#include <unistd.h>

#include "common.hpp"

#define private public
#define protected public
#include <tlx/container/lru_cache.hpp>
#include <tlx/container/splay_tree.hpp>
#undef private
#undef protected

static constexpr int KU = 12;   // key universe 0..KU-1 (queries may go a little outside)

struct ICont {
    virtual ~ICont() {}
    virtual void op(const std::vector<std::string>& t, const std::string& line) = 0;
    virtual void finish() {}
};

// ------------------------------------------------------------------ key / value types
static std::vector<std::string> g_move_errors;
static constexpr long long BAD = -1000;   // id of a moved-from / corrupted object

// move-sensitive key: a moved-from object is marked; hashing, comparing or copying it is an error
struct MK {
    int k;
    bool live;
    MK() : k(0), live(true) {}
    explicit MK(int v) : k(v), live(true) {}
    MK(const MK& o) : k(o.rd("copy of")), live(o.live) {}
    MK(MK&& o) noexcept : k(o.rd("move of")), live(o.live) { o.k = 0x7EAD; o.live = false; }
    MK& operator=(const MK& o) { if (this != &o) { k = o.rd("copy-assignment from"); live = o.live; } return *this; }
    MK& operator=(MK&& o) noexcept {
        if (this != &o) { k = o.rd("move-assignment from"); live = o.live; o.k = 0x7EAD; o.live = false; }
        return *this;
    }
    int rd(const char* what) const {
        if (!live && g_move_errors.size() < 4) g_move_errors.push_back(std::string(what) + " a moved-from key");
        return k;
    }
    friend bool operator==(const MK& a, const MK& b) { return a.rd("comparison of") == b.rd("comparison of") && a.live == b.live; }
};
namespace std {
template <> struct hash<MK> { size_t operator()(const MK& m) const { return std::hash<int>()(m.rd("hash of")); } };
}  // namespace std

template <typename T> struct Conv;
template <> struct Conv<int> {
    static int make(int k) { return k; }
    static long long id(const int& k) { return k; }
};
template <> struct Conv<MK> {
    static MK make(int k) { return MK(k); }
    static long long id(const MK& m) { return m.live ? m.k : BAD; }
};
template <> struct Conv<std::string> {
    // longer than the small-string buffer; a moved-from string is observably different
    static std::string make(int k) { return "lru-or-splay-key-number-" + std::to_string(1000000 + k); }
    static long long id(const std::string& s) {
        if (s.size() != 31 || s.compare(0, 24, "lru-or-splay-key-number-") != 0) return BAD;
        return std::atoll(s.c_str() + 24) - 1000000;
    }
};
template <typename T>
static std::string show_id(const T& x) { long long i = Conv<T>::id(x); return i == BAD ? std::string("!") : std::to_string(i); }

static void drain_move_errors(const std::string& what, const std::string& line) {
    for (auto& e : g_move_errors) vh::viol(what + " " + e + " after " + line);
    g_move_errors.clear();
}

// ------------------------------------------------------------------ LRU
template <bool IsMap, typename K, typename V>
struct Lru : ICont {
    tlx::LruCacheSet<K> cs;
    tlx::LruCacheMap<K, V> cm;
    std::vector<std::pair<int, int>> ref;   // front = most recently put/touched

    int ref_find(int k) const {
        for (size_t i = 0; i < ref.size(); ++i) if (ref[i].first == k) return static_cast<int>(i);
        return -1;
    }
    void ref_front(int i) { auto e = ref[i]; ref.erase(ref.begin() + i); ref.insert(ref.begin(), e); }

    bool map_dangling = false;

    std::string dump() {
        std::ostringstream os;
        os << "l=";
        bool first = true;
        std::set<const void*> nodes;      // addresses of the live list elements
        if (IsMap) for (auto& e : cm.list_) { nodes.insert(&e); if (!first) os << ','; first = false; os << show_id(e.first) << ':' << show_id(e.second); }
        else for (auto& e : cs.list_) { nodes.insert(&e); if (!first) os << ','; first = false; os << show_id(e); }
        if (first) os << '-';
        os << " ; m=";
        // map_: key -> key of the list node its iterator designates; an iterator that does not designate a
        // live list node is printed as `!` and never dereferenced
        std::vector<std::pair<long long, std::string>> mm;
        map_dangling = false;
        if (IsMap) for (auto& e : cm.map_) {
            const void* p = static_cast<const void*>(std::addressof(*e.second));
            if (nodes.count(p)) mm.emplace_back(Conv<K>::id(e.first), show_id(e.second->first));
            else { mm.emplace_back(Conv<K>::id(e.first), "!"); map_dangling = true; }
        }
        else for (auto& e : cs.map_) {
            const void* p = static_cast<const void*>(std::addressof(*e.second));
            if (nodes.count(p)) mm.emplace_back(Conv<K>::id(e.first), show_id(*e.second));
            else { mm.emplace_back(Conv<K>::id(e.first), "!"); map_dangling = true; }
        }
        std::sort(mm.begin(), mm.end());
        first = true;
        for (auto& e : mm) { if (!first) os << ','; first = false; if (e.first == BAD) os << '!'; else os << e.first; os << '>' << e.second; }
        if (first) os << '-';
        return os.str();
    }

    void check(const std::string& line) {
        drain_move_errors("lru", line);
        if (map_dangling) { vh::viol("lru map_ holds an iterator to a list node that no longer exists after " + line); return; }
        size_t n = IsMap ? cm.size() : cs.size();
        if (n != ref.size()) vh::viol("lru size " + std::to_string(n) + " != reference " + std::to_string(ref.size()) + " after " + line);
        std::vector<std::pair<int, int>> got;
        bool moved = false;
        if (IsMap) for (auto& e : cm.list_) { long long a = Conv<K>::id(e.first), b = Conv<V>::id(e.second); if (a == BAD || b == BAD) moved = true; got.emplace_back(static_cast<int>(a), static_cast<int>(b)); }
        else for (auto& e : cs.list_) { long long a = Conv<K>::id(e); if (a == BAD) moved = true; got.emplace_back(static_cast<int>(a), 0); }
        if (moved) vh::viol("lru stores a moved-from key or value after " + line);
        else if (got != ref) vh::viol("lru recency list differs from the reference LRU list after " + line);
        for (int k = -1; k <= KU; ++k) {
            bool e = IsMap ? cm.exists(Conv<K>::make(k)) : cs.exists(Conv<K>::make(k));
            if (e != (ref_find(k) >= 0)) { vh::viol("lru exists(" + std::to_string(k) + ") wrong after " + line); break; }
        }
        drain_move_errors("lru", line);
    }

    void op(const std::vector<std::string>& t, const std::string& line) override {
        // after a dangling map_ iterator has been reported, every further operation of the case would
        // read freed memory inside tlx: the verdict is out, the rest of the case is not executed
        if (map_dangling) { vh::answer("not-executed (container corrupted)"); return; }
        const std::string& o = t[0];
        std::string ret = "ok";
        int k = t.size() > 1 ? std::stoi(t[1]) : 0;
        int v = t.size() > 2 ? std::stoi(t[2]) : 0;
        bool need_key = (o == "put" || o == "touch" || o == "touchif" || o == "erase" || o == "eraseif" || o == "get" || o == "gettouch" || o == "exists");
        if (need_key && (t.size() < 2 || k < -1 || k > KU)) { vh::answer("bad-op"); return; }
        if ((o == "get" || o == "gettouch") && !IsMap) { vh::answer("bad-op"); return; }
        if (o == "pop" && ref.empty()) { vh::answer("bad-op"); return; }    // documented: assert(size())
        int ri = need_key ? ref_find(k) : -1;
        bool threw = false, expect_throw = false;
        K key = Conv<K>::make(k);
        try {
            if (o == "put") {
                if (IsMap) cm.put(key, Conv<V>::make(v)); else cs.put(key);
                if (ri >= 0) ref.erase(ref.begin() + ri);
                ref.insert(ref.begin(), std::make_pair(k, IsMap ? v : 0));
            }
            else if (o == "touch") {
                expect_throw = ri < 0;
                if (IsMap) cm.touch(key); else cs.touch(key);
                if (ri >= 0) ref_front(ri);
            }
            else if (o == "touchif") {
                bool r = IsMap ? cm.touch_if_exists(key) : cs.touch_if_exists(key);
                ret = r ? "1" : "0";
                if (r != (ri >= 0)) vh::viol("lru touch_if_exists result wrong after " + line);
                if (ri >= 0) ref_front(ri);
            }
            else if (o == "erase") {
                expect_throw = ri < 0;
                if (IsMap) cm.erase(key); else cs.erase(key);
                if (ri >= 0) ref.erase(ref.begin() + ri);
            }
            else if (o == "eraseif") {
                bool r = IsMap ? cm.erase_if_exists(key) : cs.erase_if_exists(key);
                ret = r ? "1" : "0";
                if (r != (ri >= 0)) vh::viol("lru erase_if_exists result wrong after " + line);
                if (ri >= 0) ref.erase(ref.begin() + ri);
            }
            else if (o == "get") {
                expect_throw = ri < 0;
                long long r = Conv<V>::id(cm.get(key));
                ret = r == BAD ? std::string("!") : std::to_string(r);
                if (ri >= 0 && r != ref[ri].second) vh::viol("lru get returned " + ret + " but the latest value is " + std::to_string(ref[ri].second) + " after " + line);
            }
            else if (o == "gettouch") {
                expect_throw = ri < 0;
                long long r = Conv<V>::id(cm.get_touch(key));
                ret = r == BAD ? std::string("!") : std::to_string(r);
                if (ri >= 0 && r != ref[ri].second) vh::viol("lru get_touch returned " + ret + " but the latest value is " + std::to_string(ref[ri].second) + " after " + line);
                if (ri >= 0) ref_front(ri);
            }
            else if (o == "exists") ret = (IsMap ? cm.exists(key) : cs.exists(key)) ? "1" : "0";
            else if (o == "size") ret = std::to_string(IsMap ? cm.size() : cs.size());
            else if (o == "pop") {
                std::pair<int, int> want = ref.back();
                if (IsMap) {
                    auto r = cm.pop();
                    long long a = Conv<K>::id(r.first), b = Conv<V>::id(r.second);
                    ret = show_id(r.first) + ":" + show_id(r.second);
                    if (a != want.first || b != want.second) vh::viol("lru pop returned " + ret + " but the least recently used entry is " + std::to_string(want.first) + ":" + std::to_string(want.second) + " after " + line);
                }
                else {
                    K r = cs.pop();
                    ret = show_id(r);
                    if (Conv<K>::id(r) != want.first) vh::viol("lru pop returned " + ret + " but the least recently used key is " + std::to_string(want.first) + " after " + line);
                }
                ref.pop_back();
            }
            else if (o == "clear") { if (IsMap) cm.clear(); else cs.clear(); ref.clear(); }
            else { vh::answer("bad-op"); return; }
        }
        catch (const std::range_error&) { threw = true; ret = "range_error"; }
        catch (const std::exception&) { threw = true; ret = "other-exception"; vh::viol("lru undocumented exception type after " + line); }
        if (threw != expect_throw)
            vh::viol(std::string("lru ") + (threw ? "threw for a present key" : "did not throw for an absent key") + " after " + line);
        vh::answer(ret + " ; " + dump());
        check(line);
    }
};

// ------------------------------------------------------------------ SplayTree
struct NodeLedger {
    std::set<const void*> live;
    std::vector<std::string> errors;
    size_t allocs = 0, frees = 0;
    static NodeLedger& get() { static NodeLedger l; return l; }
    void reset() { live.clear(); errors.clear(); allocs = frees = 0; }
};

// allocator that records every live node; a free of a pointer that is not live is reported and
// NOT forwarded (so the run can go on and the double free is named by the oracle, not only by ASan)
template <typename T>
struct LedgerAlloc {
    // arena-tagged: every instance has an identity (tag); instances with different tags are unequal; a block
    // must be returned through an instance of the arena that produced it.  Tag 0 = default-constructed.
    using value_type = T;
    int tag = 0;
    LedgerAlloc() = default;
    explicit LedgerAlloc(int t) : tag(t) {}
    template <typename U2> LedgerAlloc(const LedgerAlloc<U2>& o) : tag(o.tag) {}
    T* allocate(size_t n) {
        T* p = std::allocator<T>().allocate(n);
        NodeLedger::get().live.insert(p);
        g_owner()[p] = tag;
        ++NodeLedger::get().allocs;
        return p;
    }
    void deallocate(T* p, size_t n) {
        auto& L = NodeLedger::get();
        auto it = L.live.find(p);
        if (it == L.live.end()) { L.errors.push_back("node freed twice (or never allocated)"); return; }
        auto ow = g_owner().find(p);
        if (ow != g_owner().end() && ow->second != tag)
            L.errors.push_back("node of allocator arena " + std::to_string(ow->second) +
                               " freed through the foreign allocator instance " + std::to_string(tag));
        if (ow != g_owner().end()) g_owner().erase(ow);
        L.live.erase(it);
        ++L.frees;
        std::allocator<T>().deallocate(p, n);
    }
    static std::map<const void*, int>& g_owner() { static std::map<const void*, int> m; return m; }
    template <typename U2> bool operator==(const LedgerAlloc<U2>& o) const { return tag == o.tag; }
    template <typename U2> bool operator!=(const LedgerAlloc<U2>& o) const { return tag != o.tag; }
};

// the tree's comparator on the key type K: compares the ids; a moved-from key is an error
template <typename K, typename Cmp>
struct KCmp {
    Cmp c;
    bool operator()(const K& a, const K& b) const {
        long long ia = Conv<K>::id(a), ib = Conv<K>::id(b);
        if (ia == BAD || ib == BAD) { if (g_move_errors.size() < 4) g_move_errors.push_back("comparison of a moved-from key"); return false; }
        return c(static_cast<int>(ia), static_cast<int>(ib));
    }
};

template <bool Dup, typename Cmp, typename K>
struct Splay : ICont {
    using T = tlx::SplayTree<K, KCmp<K, Cmp>, Dup, LedgerAlloc<K>>;
    static int kid(const K& k) { return static_cast<int>(Conv<K>::id(k)); }
    using Node = typename T::Node;
    // constructed with a distinct, non-default allocator instance (arena tag >= 1)
    static int& next_tag() { static int t = 1; return t; }
    std::unique_ptr<T> tr{new T(LedgerAlloc<K>(next_tag()++))};
    std::multiset<int, Cmp> ref;
    Cmp cmp;

    // walks the nodes; never dereferences a node that the ledger does not know as live
    bool shape(const Node* n, std::ostringstream& os, size_t& count, size_t depth) {
        if (!n) { os << '-'; return true; }
        if (!NodeLedger::get().live.count(n) || depth > 4096) { os << '!'; return false; }
        ++count;
        os << '(';
        bool a = shape(n->left, os, count, depth + 1);
        os << ' ' << show_id(n->key) << ' ';
        bool b = shape(n->right, os, count, depth + 1);
        os << ')';
        return a && b;
    }
    void inorder(const Node* n, std::vector<int>& out) {
        if (!n) return;
        inorder(n->left, out); out.push_back(kid(n->key)); inorder(n->right, out);
    }
    // search-tree check by bounds (non-strict for duplicates)
    bool bst(const Node* n, const int* lo, const int* hi) {
        if (!n) return true;
        const int kk = kid(n->key);
        if (lo && (Dup ? cmp(kk, *lo) : !cmp(*lo, kk))) return false;
        if (hi && (Dup ? cmp(*hi, kk) : !cmp(kk, *hi))) return false;
        return bst(n->left, lo, &kk) && bst(n->right, &kk, hi);
    }

    std::string dump(bool& walk_ok, size_t& count) {
        std::ostringstream os;
        os << "n=" << tr->size_ << " ; t=";
        count = 0;
        walk_ok = shape(tr->root_, os, count, 0);
        return os.str();
    }

    void check(const std::string& line, bool walk_ok, size_t count) {
        auto& L = NodeLedger::get();
        drain_move_errors("splay", line);
        for (auto& e : L.errors) vh::viol("splay " + e + " after " + line);
        L.errors.clear();
        if (!walk_ok) { vh::viol("splay tree reaches a freed node (dangling pointer) after " + line); return; }
        if (tr->size() != ref.size()) vh::viol("splay size " + std::to_string(tr->size()) + " != reference " + std::to_string(ref.size()) + " after " + line);
        if (tr->empty() != ref.empty()) vh::viol("splay empty() wrong after " + line);
        if (count != ref.size()) vh::viol("splay tree has " + std::to_string(count) + " reachable nodes, reference has " + std::to_string(ref.size()) + " keys after " + line);
        if (L.live.size() != ref.size()) vh::viol("splay live nodes " + std::to_string(L.live.size()) + " != stored keys " + std::to_string(ref.size()) + " after " + line);
        std::vector<int> got;
        inorder(tr->root_, got);
        if (got != std::vector<int>(ref.begin(), ref.end())) vh::viol("splay in-order key sequence differs from the reference after " + line);
        if (!bst(tr->root_, nullptr, nullptr)) vh::viol("splay tree is not a valid search tree after " + line);
        std::vector<int> tv;
        tr->traverse_preorder([&tv](const K& k) { tv.push_back(kid(k)); });
        if (tv != got) vh::viol("splay traverse_preorder differs from the node walk after " + line);
    }

    void op(const std::vector<std::string>& t, const std::string& line) override {
        const std::string& o = t[0];
        std::string ret = "ok";
        int k = t.size() > 1 ? std::stoi(t[1]) : 0;
        bool need_key = (o == "insert" || o == "erase" || o == "exists" || o == "find");
        if (need_key && (t.size() < 2 || k < -1 || k > KU)) { vh::answer("bad-op"); return; }
        if (o == "insert") {
            bool r = tr->insert(Conv<K>::make(k));
            bool want = Dup || ref.count(k) == 0;
            ret = r ? "1" : "0";
            if (r != want) vh::viol("splay insert returned " + ret + " after " + line);
            if (want) ref.insert(k);
        }
        else if (o == "erase") {
            bool r = tr->erase(Conv<K>::make(k));
            auto it = ref.find(k);
            ret = r ? "1" : "0";
            if (r != (it != ref.end())) vh::viol("splay erase returned " + ret + " after " + line);
            if (it != ref.end()) ref.erase(it);
        }
        else if (o == "exists") {
            bool r = tr->exists(Conv<K>::make(k));
            ret = r ? "1" : "0";
            if (r != (ref.count(k) != 0)) vh::viol("splay exists returned " + ret + " after " + line);
        }
        else if (o == "find") {
            Node* n = tr->find(Conv<K>::make(k));
            if (!n) { ret = "null"; if (!ref.empty()) vh::viol("splay find returned null on a non-empty tree after " + line); }
            else {
                ret = show_id(n->key);
                if (ref.empty()) vh::viol("splay find returned a node of an empty tree after " + line);
                else if (ref.count(k)) { if (kid(n->key) != k) vh::viol("splay find(" + std::to_string(k) + ") returned " + ret + " although the key is stored after " + line); }
                else {
                    // a neighbour of k: the predecessor or the successor in the reference
                    auto ub = ref.upper_bound(k);
                    bool ok = (ub != ref.end() && *ub == kid(n->key)) || (ub != ref.begin() && *std::prev(ub) == kid(n->key));
                    if (!ok) vh::viol("splay find(" + std::to_string(k) + ") returned " + ret + " which is not a neighbour after " + line);
                }
            }
        }
        else if (o == "size") ret = std::to_string(tr->size());
        else if (o == "empty") ret = tr->empty() ? "1" : "0";
        else if (o == "clear") { tr->clear(); ref.clear(); }
        else if (o == "trav") {
            std::vector<int> tv;
            tr->traverse_preorder([&tv](const K& kk) { tv.push_back(kid(kk)); });
            ret = "[" + (tv.empty() ? std::string() : vh::show_csv(tv)) + "]";
        }
        else if (o == "check") {
            ret = tr->check() ? "1" : "0";
            if (ret != "1") vh::viol("splay check() false on a valid tree after " + line);
        }
        else if (o == "checkneg") {
            // precondition: at least two nodes; breaks the order at the root through the public Node*
            if (ref.size() < 2 || !tr->root_ || !NodeLedger::get().live.count(tr->root_)) { vh::answer("bad-op"); return; }
            Node* r = tr->root_;
            Node* c = r->left ? r->left : r->right;
            if (!c || !NodeLedger::get().live.count(c)) { vh::answer("bad-op"); return; }
            int saved = kid(c->key);
            const int rk = kid(r->key);
            // a left child strictly above the root / a right child strictly below it
            c->key = Conv<K>::make((c == r->left) ? (cmp(0, 1) ? rk + 100 : rk - 100) : (cmp(0, 1) ? rk - 100 : rk + 100));
            bool harness_says_valid = bst(tr->root_, nullptr, nullptr);
            bool chk = tr->check();
            c->key = Conv<K>::make(saved);
            ret = chk ? "1" : "0";
            if (harness_says_valid) vh::viol("harness: corrupted tree still valid?! after " + line);
            else if (chk) vh::viol("splay check() answers true on a tree that is not a search tree after " + line);
        }
        else { vh::answer("bad-op"); return; }
        bool walk_ok; size_t count;
        std::string d = dump(walk_ok, count);
        vh::answer(ret + " ; " + d);
        check(line, walk_ok, count);
    }

    void finish() override {
        tr.reset();   // ~SplayTree(): clear()
        auto& L = NodeLedger::get();
        for (auto& e : L.errors) vh::viol("splay " + e + " in the destructor");
        if (!L.live.empty()) {
            vh::viol("splay " + std::to_string(L.live.size()) + " nodes never freed");
            for (const void* p : L.live) std::allocator<Node>().deallocate(static_cast<Node*>(const_cast<void*>(p)), 1);
        }
        L.reset();
    }
};

template <typename K>
static ICont* make_splay(bool multi, const std::string& c) {
    if (c == "less") return multi ? static_cast<ICont*>(new Splay<true, std::less<int>, K>()) : new Splay<false, std::less<int>, K>();
    if (c == "greater") return multi ? static_cast<ICont*>(new Splay<true, std::greater<int>, K>()) : new Splay<false, std::greater<int>, K>();
    return nullptr;
}

static ICont* configure(const std::vector<std::string>& t) {
    // key types: int (default), std::string (str), the move-sensitive struct MK (mk)
    if ((t.size() == 2 || t.size() == 3) && (t[1] == "lruset" || t[1] == "lrumap")) {
        std::string kt = t.size() == 3 ? t[2] : "int";
        bool m = t[1] == "lrumap";
        if (kt == "int") return m ? static_cast<ICont*>(new Lru<true, int, int>()) : new Lru<false, int, int>();
        if (kt == "str") return m ? static_cast<ICont*>(new Lru<true, std::string, std::string>()) : new Lru<false, std::string, std::string>();
        if (kt == "mk") return m ? static_cast<ICont*>(new Lru<true, MK, MK>()) : new Lru<false, MK, MK>();
        return nullptr;
    }
    if ((t.size() == 4 || t.size() == 5) && t[1] == "splay") {
        bool multi = t[2] == "multi";
        if (!multi && t[2] != "set") return nullptr;
        std::string kt = t.size() == 5 ? t[4] : "int";
        if (kt == "int") return make_splay<int>(multi, t[3]);
        if (kt == "mk") return make_splay<MK>(multi, t[3]);
        return nullptr;
    }
    return nullptr;
}

// an operation that no longer terminates (e.g. a sift loop that stops making progress) must not hang
// the check: 1 s of CPU time per protocol line, then the run ends with a verdict
static void on_vtalarm(int) {
    static const char m[] = "#VIOL hang: an operation used more than 1 s of CPU time\n";
    ssize_t r = write(1, m, sizeof(m) - 1);
    (void)r;
    _exit(3);
}
static void arm_watchdog(long sec) {
    struct itimerval tv;
    tv.it_interval.tv_sec = 0; tv.it_interval.tv_usec = 0;
    tv.it_value.tv_sec = sec; tv.it_value.tv_usec = 0;
    setitimer(ITIMER_VIRTUAL, &tv, nullptr);
}

int main() {
    std::string line;
    std::unique_ptr<ICont> cur;
    auto close = [&]() { if (cur) { cur->finish(); cur.reset(); } };
    std::signal(SIGVTALRM, on_vtalarm);
    while (std::getline(std::cin, line)) {
        arm_watchdog(1);
        auto t = vh::tokens(line);
        if (t.empty()) { vh::answer(""); continue; }
        if (t[0][0] == '#') { vh::answer(line); continue; }
        if (t[0] == "case") { close(); g_move_errors.clear(); vh::answer("case"); continue; }
        if (t[0] == "cfg") { close(); cur.reset(configure(t)); vh::answer(cur ? "ok" : "bad-op"); continue; }
        if (!cur) { vh::answer("bad-op"); continue; }
        cur->op(t, line);
    }
    close();
    return 0;
}
