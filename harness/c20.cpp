// C20 harness: tlx/math integer helpers and tlx::Aggregate behind the line protocol.
//
// Integer helpers.  An implementation is named  <fn> <type>  with
//   type in u8 i8 u16 i16 u32 i32 u64 i64   (64 bit: `long long`; the `long` overload is
//                                            called as well and must agree)
//   fn   in clz clz_t ctz ctz_t ffs ffs_t popcount popcount_g log2f log2f_t log2c
//           ispow2 ispow2_t rup2 rup2_t rdown2 bswap bswap_g rol rol_g ror ror_g
//           divceil roundup absdiff sgn
//        (`_t` = the generic *_template fall-back, `_g` = the *_generic fall-back; the plain
//         name is the overload that uses the compiler intrinsic / inline assembler)
// Arguments are w-bit patterns written as unsigned decimals (signed types reinterpret them;
// the shift count of rol/ror is an `int` given as a 32-bit pattern).
//
//   v  <fn> <type> x1 x2 ...                -> r1 r2 ...      one result per value
//   v2 <fn> <type> a1 b1 a2 b2 ...          -> r1 r2 ...      two-argument functions
//   r  <fn> <type> lo hi step               -> n=<executed> skip=<not executed> h=<checksum>
//   r2 <fn> <type> alo ahi astep blo bhi bstep   (nested loops, a outer)
//   x  <fn> <type> lo hi                    as `r` with step 1, multi-threaded; the model
//                                           driver answers `n/a` (harness-only exhaustive sweep)
// A result is the mathematical integer value of what the function returned, or `-` when the
// call was not executed because it is outside the function's domain (negative argument of a
// log2 / power-of-two rounding function, k <= 0 or n < 0 for div_ceil/round_up, or a signed
// result that is not representable -- executing those would be undefined behaviour).
// Direct oracle (#VIOL): the mathematical definition, computed with __int128 / bit loops /
// 16-bit brute-force tables, wherever it is defined and representable; and agreement of the
// `long` and `long long` overloads.
//
//   vm <fn> <tyN> <tyK> a1 b1 a2 b2 ...   mixed-type call fn(tyN n, tyK k), fn in divceil roundup (the other
//                    two-argument templates take one type only); every pair of the eight types
//   sm <fn> <tyN> <tyK>                    the same over S(tyN) x S(tyK), S(w) = powers of two and their neighbours,
//                    small numbers, the type maximum and its neighbours, max/3, 2*(max/3), max/5 as w-bit patterns;
//                    answer: R=<u|i><bits> (the function's actual return type, decltype(n + k)) n= skip= h=
//   pb <off> <hex>   tlx::popcount(const void*, size_t) on the bytes, placed <off> bytes behind an
//                    8-aligned address in an exactly sized heap block -> number of one bits
//
// Aggregate:  agg <bank d|i> new r | add r v | plus r a b | pluseq r a | get r | copy r a
//   answer: count mean nvar min max as %.17g plus `scale=` (sum of squares of the reference
//   values, used for the tolerance of the comparison with the exact model).
#include <algorithm>
#include <cmath>
#include <cstring>
#include <limits>
#include <thread>
#include <type_traits>

#include "common.hpp"

#define private public   // Aggregate's count_/mean_/nvar_ are compared directly
#include <tlx/math/aggregate.hpp>
#undef private
#include <tlx/math/abs_diff.hpp>
#include <tlx/math/bswap.hpp>
#include <tlx/math/clz.hpp>
#include <tlx/math/ctz.hpp>
#include <tlx/math/div_ceil.hpp>
#include <tlx/math/ffs.hpp>
#include <tlx/math/integer_log2.hpp>
#include <tlx/math/is_power_of_two.hpp>
#include <tlx/math/popcount.hpp>
#include <tlx/math/rol.hpp>
#include <tlx/math/ror.hpp>
#include <tlx/math/round_to_power_of_two.hpp>
#include <tlx/math/round_up.hpp>
#include <tlx/math/sgn.hpp>

typedef __int128 i128;
typedef unsigned __int128 u128;

static std::string show128(i128 v) {
    if (v == 0) return "0";
    bool neg = v < 0;
    u128 u = neg ? static_cast<u128>(-(v + 1)) + 1 : static_cast<u128>(v);
    std::string s;
    while (u) { s.push_back(static_cast<char>('0' + static_cast<int>(u % 10))); u /= 10; }
    if (neg) s.push_back('-');
    std::reverse(s.begin(), s.end());
    return s;
}

enum Fn { CLZ, CLZ_T, CTZ, CTZ_T, FFS, FFS_T, POPCNT, POPCNT_G, LOG2F, LOG2F_T, LOG2C, ISPOW2, ISPOW2_T,
          RUP2, RUP2_T, RDOWN2, BSWAP, BSWAP_G, ROL, ROL_G, ROR, ROR_G, DIVCEIL, ROUNDUP, ABSDIFF, SGN, FN_BAD };
static const char* fn_names[] = { "clz", "clz_t", "ctz", "ctz_t", "ffs", "ffs_t", "popcount", "popcount_g", "log2f",
                                  "log2f_t", "log2c", "ispow2", "ispow2_t", "rup2", "rup2_t", "rdown2", "bswap",
                                  "bswap_g", "rol", "rol_g", "ror", "ror_g", "divceil", "roundup", "absdiff", "sgn" };
static Fn fn_of(const std::string& s) {
    for (int i = 0; i < FN_BAD; ++i) if (s == fn_names[i]) return static_cast<Fn>(i);
    return FN_BAD;
}
static bool two_args(Fn f) { return f == ROL || f == ROL_G || f == ROR || f == ROR_G || f == DIVCEIL || f == ROUNDUP || f == ABSDIFF; }

// ---------------------------------------------------------------- reference definitions
// 16-bit tables filled from the definitions by brute force; wider patterns are composed.
static unsigned char t_pop16[65536], t_len16[65536], t_ctz16[65536];
static void init_tables() {
    for (unsigned v = 0; v < 65536; ++v) {
        unsigned pc = 0, len = 0, ctz = 16;
        for (unsigned b = 0; b < 16; ++b)
            if (v & (1u << b)) { ++pc; len = b + 1; if (ctz == 16) ctz = b; }
        t_pop16[v] = static_cast<unsigned char>(pc);
        t_len16[v] = static_cast<unsigned char>(len);
        t_ctz16[v] = static_cast<unsigned char>(ctz);
    }
}
// number of significant bits of the pattern (0 for 0)
static inline unsigned ref_bitlen(uint64_t p) {
    for (int k = 3; k >= 0; --k) {
        unsigned part = static_cast<unsigned>((p >> (16 * k)) & 0xFFFF);
        if (part) return 16 * static_cast<unsigned>(k) + t_len16[part];
    }
    return 0;
}
static inline unsigned ref_ctz(uint64_t p, unsigned w) {
    for (unsigned k = 0; k < 4; ++k) {
        unsigned part = static_cast<unsigned>((p >> (16 * k)) & 0xFFFF);
        if (part) return 16 * k + t_ctz16[part];
    }
    return w;
}
static inline unsigned ref_popcount(uint64_t p) {
    return t_pop16[p & 0xFFFF] + t_pop16[(p >> 16) & 0xFFFF] + t_pop16[(p >> 32) & 0xFFFF] + t_pop16[(p >> 48) & 0xFFFF];
}
static inline uint64_t ref_bswap(uint64_t p, unsigned w) {
    uint64_t r = 0;
    for (unsigned i = 0; i < w / 8; ++i) r |= ((p >> (8 * i)) & 0xFF) << (w - 8 - 8 * i);
    return r;
}
static inline uint64_t ref_rotl(uint64_t p, i128 count, unsigned w) {
    // bit j of the result is bit (j - count) mod w of p
    i128 m = count % static_cast<i128>(w);
    if (m < 0) m += w;
    unsigned s = static_cast<unsigned>(m);
    u128 d = static_cast<u128>(p);
    u128 mask = (w == 64) ? static_cast<u128>(~0ULL) : ((static_cast<u128>(1) << w) - 1);
    u128 r = ((d << s) | (d >> (w - s))) & mask;   // s < w <= 64 < 128: no overflow
    if (s == 0) r = d;
    return static_cast<uint64_t>(r);
}

struct Res {
    bool executed = false;   // false: outside the domain, call not made
    i128 value = 0;          // what the implementation returned
    bool has_want = false;   // the mathematical definition applies and is representable
    i128 want = 0;
    const char* note = nullptr;   // extra complaint (overloads disagree)
};

template <typename T> struct Alt { typedef T type; };
template <> struct Alt<long long> { typedef long type; };
template <> struct Alt<unsigned long long> { typedef unsigned long type; };

template <typename T>
static inline bool fn_exists(Fn f) {
    const bool wide = sizeof(T) >= 4;
    const bool uns = std::is_unsigned<T>::value;
    switch (f) {
    case CLZ: case CTZ: case FFS: case POPCNT: case LOG2F: case LOG2C: case ISPOW2: case RUP2: case RDOWN2: return wide;
    case CLZ_T: case CTZ_T: case FFS_T: case LOG2F_T: case ISPOW2_T: case RUP2_T: return true;
    case POPCNT_G: return uns;
    case BSWAP: case BSWAP_G: return uns && sizeof(T) >= 2;
    case ROL: case ROL_G: case ROR: case ROR_G: return uns && wide;
    case DIVCEIL: case ROUNDUP: case ABSDIFF: case SGN: return true;
    default: return false;
    }
}

template <typename T, bool Wide = (sizeof(T) >= 4)> struct Ovl;   // overloads that exist for int/long/long long only
template <typename T> struct Ovl<T, true> {
    typedef typename Alt<T>::type A;
    static unsigned clz(T x, Res& r) { unsigned a = tlx::clz(x); if (tlx::clz(static_cast<A>(x)) != a) r.note = "long/long long overloads disagree"; return a; }
    static unsigned ctz(T x, Res& r) { unsigned a = tlx::ctz(x); if (tlx::ctz(static_cast<A>(x)) != a) r.note = "long/long long overloads disagree"; return a; }
    static unsigned ffs(T x, Res& r) { unsigned a = tlx::ffs(x); if (tlx::ffs(static_cast<A>(x)) != a) r.note = "long/long long overloads disagree"; return a; }
    static unsigned popcount(T x, Res& r) { unsigned a = tlx::popcount(x); if (tlx::popcount(static_cast<A>(x)) != a) r.note = "long/long long overloads disagree"; return a; }
    static unsigned log2f(T x, Res& r) { unsigned a = tlx::integer_log2_floor(x); if (tlx::integer_log2_floor(static_cast<A>(x)) != a) r.note = "long/long long overloads disagree"; return a; }
    static unsigned log2c(T x, Res& r) { unsigned a = tlx::integer_log2_ceil(x); if (tlx::integer_log2_ceil(static_cast<A>(x)) != a) r.note = "long/long long overloads disagree"; return a; }
    static bool ispow2(T x, Res& r) { bool a = tlx::is_power_of_two(x); if (tlx::is_power_of_two(static_cast<A>(x)) != a) r.note = "long/long long overloads disagree"; return a; }
    static T rup2(T x, Res& r) { T a = tlx::round_up_to_power_of_two(x); if (static_cast<T>(tlx::round_up_to_power_of_two(static_cast<A>(x))) != a) r.note = "long/long long overloads disagree"; return a; }
    static T rdown2(T x, Res& r) { T a = tlx::round_down_to_power_of_two(x); if (static_cast<T>(tlx::round_down_to_power_of_two(static_cast<A>(x))) != a) r.note = "long/long long overloads disagree"; return a; }
};
template <typename T> struct Ovl<T, false> {
    static unsigned clz(T, Res&) { return 0; }
    static unsigned ctz(T, Res&) { return 0; }
    static unsigned ffs(T, Res&) { return 0; }
    static unsigned popcount(T, Res&) { return 0; }
    static unsigned log2f(T, Res&) { return 0; }
    static unsigned log2c(T, Res&) { return 0; }
    static bool ispow2(T, Res&) { return false; }
    static T rup2(T, Res&) { return 0; }
    static T rdown2(T, Res&) { return 0; }
};

template <typename T, size_t W = sizeof(T), bool U = std::is_unsigned<T>::value> struct Uns {   // unsigned-only functions
    static unsigned popcount_g(T) { return 0; }
    static T bswap(T x) { return x; }
    static T bswap_g(T x) { return x; }
    static T rol(T x, int) { return x; } static T rol_g(T x, int) { return x; }
    static T ror(T x, int) { return x; } static T ror_g(T x, int) { return x; }
};
template <typename T> struct Uns<T, 1, true> : Uns<T, 0, false> { static unsigned popcount_g(T x) { return tlx::popcount_generic8(x); } };
template <typename T> struct Uns<T, 2, true> : Uns<T, 0, false> {
    static unsigned popcount_g(T x) { return tlx::popcount_generic16(x); }
    static T bswap(T x) { return tlx::bswap16(x); }
    static T bswap_g(T x) { return tlx::bswap16_generic(x); }
};
template <typename T> struct Uns<T, 4, true> {
    static unsigned popcount_g(T x) { return tlx::popcount_generic32(x); }
    static T bswap(T x) { return tlx::bswap32(x); }
    static T bswap_g(T x) { return tlx::bswap32_generic(x); }
    static T rol(T x, int i) { return tlx::rol32(x, i); } static T rol_g(T x, int i) { return tlx::rol32_generic(x, i); }
    static T ror(T x, int i) { return tlx::ror32(x, i); } static T ror_g(T x, int i) { return tlx::ror32_generic(x, i); }
};
template <typename T> struct Uns<T, 8, true> {
    static unsigned popcount_g(T x) { return tlx::popcount_generic64(x); }
    static T bswap(T x) { return tlx::bswap64(x); }
    static T bswap_g(T x) { return tlx::bswap64_generic(x); }
    static T rol(T x, int i) { return tlx::rol64(x, i); } static T rol_g(T x, int i) { return tlx::rol64_generic(x, i); }
    static T ror(T x, int i) { return tlx::ror64(x, i); } static T ror_g(T x, int i) { return tlx::ror64_generic(x, i); }
};

// One evaluation: implementation value + reference value.  pa/pb are bit patterns.
template <typename T>
static inline __attribute__((always_inline)) void eval(Fn f, uint64_t pa, uint64_t pb, Res& r) {
    typedef typename std::make_unsigned<T>::type UT;
    const unsigned w = 8 * sizeof(T);
    const bool sg = std::is_signed<T>::value;
    const UT ua = static_cast<UT>(pa);
    const T a = static_cast<T>(ua);
    const T b = static_cast<T>(static_cast<UT>(pb));
    const i128 A = static_cast<i128>(a), B = static_cast<i128>(b);
    const uint64_t P = static_cast<uint64_t>(ua);   // the pattern, zero-extended
    const i128 tmax = static_cast<i128>(std::numeric_limits<T>::max());
    switch (f) {
    case CLZ: case CLZ_T:
        r.executed = true; r.has_want = true; r.want = w - ref_bitlen(P);
        r.value = (f == CLZ) ? Ovl<T>::clz(a, r) : tlx::clz_template(a);
        break;
    case CTZ: case CTZ_T:
        r.executed = true; r.has_want = true; r.want = ref_ctz(P, w);
        r.value = (f == CTZ) ? Ovl<T>::ctz(a, r) : tlx::ctz_template(a);
        break;
    case FFS: case FFS_T:
        r.executed = true; r.has_want = true; r.want = P ? ref_ctz(P, w) + 1 : 0;
        r.value = (f == FFS) ? Ovl<T>::ffs(a, r) : tlx::ffs_template(a);
        break;
    case POPCNT: case POPCNT_G:
        r.executed = true; r.has_want = true; r.want = ref_popcount(P);
        r.value = (f == POPCNT) ? Ovl<T>::popcount(a, r) : Uns<T>::popcount_g(a);
        break;
    case LOG2F: case LOG2F_T:
        if (A < 0) break;                       // log2 of a negative number: outside the domain
        r.executed = true;
        if (A >= 1) { r.has_want = true; r.want = ref_bitlen(P) - 1; }
        r.value = (f == LOG2F) ? Ovl<T>::log2f(a, r) : tlx::integer_log2_floor_template(a);
        break;
    case LOG2C:
        if (A < 0) break;
        r.executed = true;
        if (A >= 1) { r.has_want = true; r.want = (ref_popcount(P) == 1) ? ref_bitlen(P) - 1 : ref_bitlen(P); }
        r.value = Ovl<T>::log2c(a, r);
        break;
    case ISPOW2: case ISPOW2_T:
        r.executed = true; r.has_want = true; r.want = (A > 0 && ref_popcount(P) == 1) ? 1 : 0;
        r.value = (f == ISPOW2) ? Ovl<T>::ispow2(a, r) : tlx::is_power_of_two_template(a);
        break;
    case RUP2: case RUP2_T: {
        if (A < 0) break;
        i128 up = 1;                            // smallest power of two >= A  (A >= 1)
        while (up < A) up <<= 1;
        bool repr = up <= tmax;
        if (sg && A >= 1 && !repr) break;       // signed overflow: not executed
        r.executed = true;
        if (A >= 1 && repr) { r.has_want = true; r.want = up; }
        r.value = static_cast<i128>((f == RUP2) ? Ovl<T>::rup2(a, r) : tlx::round_up_to_power_of_two_template(a));
        break;
    }
    case RDOWN2: {
        if (A < 0) break;
        r.executed = true;
        if (A >= 1) { r.has_want = true; r.want = static_cast<i128>(1) << (ref_bitlen(P) - 1); }   // largest power of two <= A
        r.value = static_cast<i128>(Ovl<T>::rdown2(a, r));
        break;
    }
    case BSWAP: case BSWAP_G:
        r.executed = true; r.has_want = true; r.want = static_cast<i128>(ref_bswap(P, w));
        r.value = static_cast<i128>((f == BSWAP) ? Uns<T>::bswap(a) : Uns<T>::bswap_g(a));
        break;
    case ROL: case ROL_G: case ROR: case ROR_G: {
        int cnt = static_cast<int>(static_cast<uint32_t>(pb));
        bool left = (f == ROL || f == ROL_G);
        r.executed = true; r.has_want = true;
        r.want = static_cast<i128>(ref_rotl(P, left ? static_cast<i128>(cnt) : -static_cast<i128>(cnt), w));
        T v = (f == ROL) ? Uns<T>::rol(a, cnt) : (f == ROL_G) ? Uns<T>::rol_g(a, cnt) : (f == ROR) ? Uns<T>::ror(a, cnt) : Uns<T>::ror_g(a, cnt);
        r.value = static_cast<i128>(v);
        break;
    }
    case DIVCEIL: case ROUNDUP: {
        typedef decltype(a + b) R;
        if (A < 0 || B <= 0) break;             // documented: n and k positive (n = 0 is accepted here)
        i128 q = A / B;
        if (q * B < A) ++q;                     // least q with q*k >= n
        i128 want = (f == DIVCEIL) ? q : q * B;
        bool repr = want <= static_cast<i128>(std::numeric_limits<R>::max());
        if (std::is_signed<R>::value && !repr) break;
        r.executed = true;
        if (repr) { r.has_want = true; r.want = want; }
        r.value = static_cast<i128>((f == DIVCEIL) ? tlx::div_ceil(a, b) : tlx::round_up(a, b));
        break;
    }
    case ABSDIFF: {
        i128 want = A > B ? A - B : B - A;
        bool repr = want <= tmax;
        if (sg && !repr) break;
        r.executed = true; r.has_want = true; r.want = want;
        r.value = static_cast<i128>(tlx::abs_diff(a, b));
        break;
    }
    case SGN:
        r.executed = true; r.has_want = true; r.want = (A > 0) - (A < 0);
        r.value = tlx::sgn(a);
        break;
    default: break;
    }
}

// eval specialised for one function (the switch folds away): used by the sweeps
template <typename T, int F>
static void eval_fixed(uint64_t pa, uint64_t pb, Res& r) { eval<T>(static_cast<Fn>(F), pa, pb, r); }
typedef void (*EvalFixed)(uint64_t, uint64_t, Res&);
template <typename T, int F = 0> struct FixedTable {
    static EvalFixed get(Fn f) { return f == F ? &eval_fixed<T, F> : FixedTable<T, F + 1>::get(f); }
};
template <typename T> struct FixedTable<T, FN_BAD> { static EvalFixed get(Fn) { return nullptr; } };

// contiguous single-argument sweep with everything inlined (exhaustive 32-bit runs)
struct Sweep;
template <typename T, int F> static void sweep_fixed(uint64_t lo, uint64_t hi, Sweep& s, const char* fname, const char* tname);
typedef void (*SweepFixed)(uint64_t, uint64_t, Sweep&, const char*, const char*);
template <typename T, int F = 0> struct SweepTable {
    static SweepFixed get(Fn f) { return f == F ? &sweep_fixed<T, F> : SweepTable<T, F + 1>::get(f); }
};
template <typename T> struct SweepTable<T, FN_BAD> { static SweepFixed get(Fn) { return nullptr; } };

struct TypeInfo { const char* name; unsigned w; EvalFixed (*eval)(Fn); SweepFixed (*sweep)(Fn); bool (*exists)(Fn); };
#define TI(n, w, T) { n, w, &FixedTable<T>::get, &SweepTable<T>::get, &fn_exists<T> }
static const TypeInfo types[] = {
    TI("u8", 8, uint8_t), TI("i8", 8, int8_t), TI("u16", 16, uint16_t), TI("i16", 16, int16_t),
    TI("u32", 32, unsigned), TI("i32", 32, int), TI("u64", 64, unsigned long long), TI("i64", 64, long long),
};
static const TypeInfo* type_of(const std::string& s) {
    for (auto& t : types) if (s == t.name) return &t;
    return nullptr;
}

static const uint64_t SKIP_MARK = 0x5bd1e995deadULL;
static inline uint64_t fold(uint64_t h, uint64_t v) { return h * 6364136223846793005ULL + v + 1442695040888963407ULL; }

struct Sweep {
    uint64_t n = 0, skip = 0, h = 0;
    std::vector<std::string> viols;
    void complain(const Res& r, bool two, const std::string& fname, const char* tname, uint64_t a, uint64_t b) {
        if (viols.size() >= 2) return;
        std::string arg = two ? (std::to_string(a) + " " + std::to_string(b)) : std::to_string(a);
        std::string one = std::string(two ? "v2 " : "v ") + fname + " " + tname + " " + arg;
        if (r.has_want && r.value != r.want)
            viols.push_back(fname + " " + tname + " returns " + show128(r.value) + " definition gives " + show128(r.want) + " witness: " + one);
        else if (r.note)
            viols.push_back(fname + " " + tname + " " + r.note + " witness: " + one);
    }
    inline void account(const Res& r) {
        if (!r.executed) { ++skip; h = fold(h, SKIP_MARK); return; }
        ++n;
        h = fold(h, static_cast<uint64_t>(r.value));
    }
    void one(EvalFixed ev, const TypeInfo& ti, Fn f, const std::string& fname, uint64_t a, uint64_t b) {
        Res r;
        ev(a, b, r);
        account(r);
        if (r.executed && ((r.has_want && r.value != r.want) || r.note)) complain(r, two_args(f), fname, ti.name, a, b);
    }
};

template <typename T, int F>
static void sweep_fixed(uint64_t lo, uint64_t hi, Sweep& s, const char* fname, const char* tname) {
    for (uint64_t x = lo;; ++x) {
        Res r;
        eval<T>(static_cast<Fn>(F), x, 0, r);
        s.account(r);
        if (__builtin_expect(r.executed && ((r.has_want && r.value != r.want) || r.note), 0)) s.complain(r, false, fname, tname, x, 0);
        if (x == hi) break;
    }
}

static bool parse_u64(const std::string& s, uint64_t& v) {
    if (s.empty() || s.size() > 20) return false;
    u128 acc = 0;
    for (char c : s) { if (c < '0' || c > '9') return false; acc = acc * 10 + static_cast<unsigned>(c - '0'); }
    if (acc > static_cast<u128>(~0ULL)) return false;
    v = static_cast<uint64_t>(acc);
    return true;
}

static void do_int(const std::vector<std::string>& t) {
    if (t.size() < 3) { vh::answer("bad-op"); return; }
    const std::string& op = t[0];
    Fn f = fn_of(t[1]);
    const TypeInfo* ti = type_of(t[2]);
    if (f == FN_BAD || !ti || !ti->exists(f)) { vh::answer("bad-op"); return; }
    std::vector<uint64_t> a;
    for (size_t i = 3; i < t.size(); ++i) { uint64_t v; if (!parse_u64(t[i], v)) { vh::answer("bad-op"); return; } a.push_back(v); }
    const uint64_t wmask = ti->w == 64 ? ~0ULL : ((1ULL << ti->w) - 1);
    bool two = two_args(f);
    if (op == "v" || op == "v2") {
        if ((op == "v2") != two || a.empty() || (two && a.size() % 2)) { vh::answer("bad-op"); return; }
        std::string out;
        std::vector<std::string> viols;
        for (size_t i = 0; i < a.size(); i += two ? 2 : 1) {
            Res r;
            uint64_t x = a[i], y = two ? a[i + 1] : 0;
            if (x > wmask) { vh::answer("bad-op"); return; }
            ti->eval(f)(x, y, r);
            if (!out.empty()) out += ' ';
            out += r.executed ? show128(r.value) : std::string("-");
            std::string arg = two ? (std::to_string(x) + " " + std::to_string(y)) : std::to_string(x);
            if (r.executed && r.has_want && r.value != r.want && viols.size() < 2)
                viols.push_back(t[1] + " " + t[2] + " returns " + show128(r.value) + " definition gives " + show128(r.want) + " witness: " + op + " " + t[1] + " " + t[2] + " " + arg);
            else if (r.executed && r.note && viols.size() < 2)
                viols.push_back(t[1] + " " + t[2] + " " + r.note + " witness: " + op + " " + t[1] + " " + t[2] + " " + arg);
        }
        vh::answer(out);
        for (auto& m : viols) vh::viol(m);
        return;
    }
    Sweep s;
    EvalFixed ev = ti->eval(f);
    if (op == "r" && !two && a.size() == 3 && a[2] >= 1 && a[0] <= a[1] && a[1] <= wmask) {
        for (uint64_t x = a[0];; ) {
            s.one(ev, *ti, f, t[1], x, 0);
            if (a[1] - x < a[2]) break;
            x += a[2];
        }
    }
    else if (op == "r2" && two && a.size() == 6 && a[2] >= 1 && a[5] >= 1 && a[0] <= a[1] && a[3] <= a[4] && a[1] <= wmask) {
        for (uint64_t x = a[0];; ) {
            for (uint64_t y = a[3];; ) {
                s.one(ev, *ti, f, t[1], x, y);
                if (a[4] - y < a[5]) break;
                y += a[5];
            }
            if (a[1] - x < a[2]) break;
            x += a[2];
        }
    }
    else if (op == "x" && !two && a.size() == 2 && a[0] <= a[1] && a[1] <= wmask) {
        // exhaustive sweep, split over 4 threads; checksum = fold of the per-chunk checksums
        const unsigned NT = 4;
        uint64_t total = a[1] - a[0];
        std::vector<Sweep> part(NT);
        std::vector<std::thread> th;
        for (unsigned k = 0; k < NT; ++k) {
            uint64_t lo = a[0] + (total / NT) * k + (k ? 1 : 0);
            uint64_t hi = (k + 1 == NT) ? a[1] : a[0] + (total / NT) * (k + 1);
            if (k && lo > hi) continue;
            th.emplace_back([&, k, lo, hi] { ti->sweep(f)(lo, hi, part[k], t[1].c_str(), ti->name); });
        }
        for (auto& x : th) x.join();
        for (auto& p : part) {
            s.n += p.n; s.skip += p.skip; s.h = fold(s.h, p.h);
            for (auto& m : p.viols) if (s.viols.size() < 2) s.viols.push_back(m);
        }
    }
    else { vh::answer("bad-op"); return; }
    vh::answer("n=" + std::to_string(s.n) + " skip=" + std::to_string(s.skip) + " h=" + std::to_string(s.h));
    for (auto& m : s.viols) vh::viol(m);
}


// ---------------------------------------------------------------- mixed-type div_ceil / round_up
// decltype(n + k) is the result of the usual arithmetic conversions; the oracle works on the
// mathematical values and checks representability in that type R.
template <typename TN, typename TK>
static void evalm(Fn f, uint64_t pa, uint64_t pb, Res& r, unsigned& rbits, bool& rsigned) {
    typedef typename std::make_unsigned<TN>::type UN;
    typedef typename std::make_unsigned<TK>::type UK;
    const TN a = static_cast<TN>(static_cast<UN>(pa));
    const TK b = static_cast<TK>(static_cast<UK>(pb));
    typedef decltype(a + b) R;
    static_assert(std::is_same<decltype(tlx::div_ceil(a, b)), R>::value, "div_ceil returns decltype(n + k)");
    static_assert(std::is_same<decltype(tlx::round_up(a, b)), R>::value, "round_up returns decltype(n + k)");
    rbits = 8 * sizeof(R); rsigned = std::is_signed<R>::value;
    const i128 A = static_cast<i128>(a), B = static_cast<i128>(b);
    if (A < 0 || B <= 0) return;
    i128 q = A / B;
    if (q * B < A) ++q;
    i128 want = (f == DIVCEIL) ? q : q * B;
    bool repr = want <= static_cast<i128>(std::numeric_limits<R>::max());
    if (std::is_signed<R>::value && !repr) return;
    r.executed = true;
    if (repr) { r.has_want = true; r.want = want; }
    r.value = static_cast<i128>((f == DIVCEIL) ? tlx::div_ceil(a, b) : tlx::round_up(a, b));
}
typedef void (*EvalM)(Fn, uint64_t, uint64_t, Res&, unsigned&, bool&);
template <typename TN> static EvalM evalm_row(int k) {
    switch (k) {
    case 0: return &evalm<TN, uint8_t>; case 1: return &evalm<TN, int8_t>;
    case 2: return &evalm<TN, uint16_t>; case 3: return &evalm<TN, int16_t>;
    case 4: return &evalm<TN, unsigned>; case 5: return &evalm<TN, int>;
    case 6: return &evalm<TN, unsigned long long>; default: return &evalm<TN, long long>;
    }
}
static EvalM evalm_of(int n, int k) {
    switch (n) {
    case 0: return evalm_row<uint8_t>(k); case 1: return evalm_row<int8_t>(k);
    case 2: return evalm_row<uint16_t>(k); case 3: return evalm_row<int16_t>(k);
    case 4: return evalm_row<unsigned>(k); case 5: return evalm_row<int>(k);
    case 6: return evalm_row<unsigned long long>(k); default: return evalm_row<long long>(k);
    }
}
// S(w): the structured w-bit patterns (same list, same order, in lean/TlxVerif/Model/C20Eval.lean)
static std::vector<uint64_t> structured(unsigned w) {
    const uint64_t M = w == 64 ? ~0ULL : ((1ULL << w) - 1);
    std::vector<uint64_t> s;
    for (unsigned i = 0; i < w; ++i)
        for (int d = -1; d <= 1; ++d) s.push_back(((1ULL << i) + static_cast<uint64_t>(static_cast<int64_t>(d))) & M);
    for (uint64_t c : { 3ULL, 5ULL, 7ULL, 10ULL }) s.push_back(c & M);
    for (uint64_t j = 0; j < 4; ++j) s.push_back(M - j);
    s.push_back(M / 3); s.push_back(2 * (M / 3)); s.push_back(M / 5);
    return s;
}
static void do_mixed(const std::vector<std::string>& t) {
    if (t.size() < 4) { vh::answer("bad-op"); return; }
    Fn f = fn_of(t[1]);
    const TypeInfo* tn = type_of(t[2]);
    const TypeInfo* tk = type_of(t[3]);
    if ((f != DIVCEIL && f != ROUNDUP) || !tn || !tk) { vh::answer("bad-op"); return; }
    EvalM ev = evalm_of(static_cast<int>(tn - types), static_cast<int>(tk - types));
    const uint64_t mn = tn->w == 64 ? ~0ULL : ((1ULL << tn->w) - 1), mk = tk->w == 64 ? ~0ULL : ((1ULL << tk->w) - 1);
    std::vector<std::string> viols;
    unsigned rbits = 0; bool rsigned = false;
    auto complain = [&](const Res& r, uint64_t x, uint64_t y) {
        if (viols.size() < 2 && r.executed && r.has_want && r.value != r.want)
            viols.push_back(t[1] + " " + t[2] + "," + t[3] + " returns " + show128(r.value) + " definition gives " + show128(r.want) +
                            " witness: vm " + t[1] + " " + t[2] + " " + t[3] + " " + std::to_string(x) + " " + std::to_string(y));
    };
    if (t[0] == "vm") {
        std::vector<uint64_t> a;
        for (size_t i = 4; i < t.size(); ++i) { uint64_t v; if (!parse_u64(t[i], v)) { vh::answer("bad-op"); return; } a.push_back(v); }
        if (a.empty() || a.size() % 2) { vh::answer("bad-op"); return; }
        for (size_t i = 0; i < a.size(); i += 2) if (a[i] > mn || a[i + 1] > mk) { vh::answer("bad-op"); return; }
        std::string out;
        for (size_t i = 0; i < a.size(); i += 2) {
            Res r; ev(f, a[i], a[i + 1], r, rbits, rsigned);
            if (!out.empty()) out += ' ';
            out += r.executed ? show128(r.value) : std::string("-");
            complain(r, a[i], a[i + 1]);
        }
        vh::answer(out);
    }
    else if (t[0] == "sm" && t.size() == 4) {
        Sweep s;
        for (uint64_t x : structured(tn->w))
            for (uint64_t y : structured(tk->w)) { Res r; ev(f, x, y, r, rbits, rsigned); s.account(r); complain(r, x, y); }
        vh::answer(std::string("R=") + (rsigned ? "i" : "u") + std::to_string(rbits) + " n=" + std::to_string(s.n) + " skip=" + std::to_string(s.skip) + " h=" + std::to_string(s.h));
    }
    else { vh::answer("bad-op"); return; }
    for (auto& m : viols) vh::viol(m);
}

// ---------------------------------------------------------------- Aggregate
// Values are written as integers or as p/q with q a power of two (exact in double).
template <typename T>
struct Bank {
    tlx::Aggregate<T> agg[4];
    std::vector<long double> ref[4];   // reference multiset (exact small dyadic values)
    void reset() { for (int i = 0; i < 4; ++i) { agg[i] = tlx::Aggregate<T>(); ref[i].clear(); } }
};
static Bank<double> bank_d;
static Bank<long long> bank_i;

static bool parse_val(const std::string& s, long double& v) {
    try {
        size_t sl = s.find('/');
        if (sl == std::string::npos) { v = std::stoll(s); return true; }
        long long p = std::stoll(s.substr(0, sl)), q = std::stoll(s.substr(sl + 1));
        if (q <= 0 || (q & (q - 1))) return false;
        v = static_cast<long double>(p) / static_cast<long double>(q);
        return true;
    } catch (...) { return false; }
}

static std::string g17(double d) {
    char buf[64];
    if (std::isnan(d)) return "nan";
    if (std::isinf(d)) return d > 0 ? "inf" : "-inf";
    snprintf(buf, sizeof buf, "%.17g", d);
    return buf;
}

// Floating-point error bound that is checked (the "up to floating-point rounding" clause), with
// n = count, S = sum of squared deviations (exact), Q = sum of squares (exact), u = 2^-53:
//   |nvar_ - S|     <= C n u sqrt(S Q) + C n u^2 Q        ( = C n u kappa S with kappa = sqrt(Q/S), the
//                                                           condition number of the variance: the bound of
//                                                           Welford's update and of Chan's pairwise combination;
//                                                           a sum-of-squares formula only achieves n u kappa^2 S = n u Q )
//   |mean_ - mean|  <= C n u sqrt(Q / n)
//   |variance(d) - S/(n-d)| <= tol_nvar/(n-d) + 4 u S/(n-d)
// C = 8.  count, min, max are exact.  The exact S, Q, mean come from 128-bit integer arithmetic on
// the values scaled by 1024 (all generated values are multiples of 1/1024 below 2^52).
struct AggRef { size_t n; long double mean, S, Q, mn, mx, tol_nvar, tol_mean; };
static AggRef agg_exact(const std::vector<long double>& v) {
    AggRef r{};
    r.n = v.size();
    if (!r.n) return r;
    i128 sx = 0, sxx = 0;
    r.mn = r.mx = v[0];
    for (long double x : v) {
        i128 X = static_cast<i128>(llroundl(x * 1024.0L));
        sx += X; sxx += X * X;
        r.mn = std::min(r.mn, x); r.mx = std::max(r.mx, x);
    }
    const long double sc = 1024.0L;
    i128 num = static_cast<i128>(r.n) * sxx - sx * sx;          // n^2 * 1024^2 * variance(0), exact
    r.S = static_cast<long double>(num) / (static_cast<long double>(r.n) * sc * sc);
    r.Q = static_cast<long double>(sxx) / (sc * sc);
    r.mean = static_cast<long double>(sx) / (static_cast<long double>(r.n) * sc);
    const long double u = 1.1102230246251565e-16L, C = 8, n = static_cast<long double>(r.n);
    r.tol_nvar = C * n * u * sqrtl(r.S * r.Q) + C * n * u * u * r.Q;
    r.tol_mean = C * n * u * sqrtl(r.Q / n);
    return r;
}

template <typename T>
static void agg_report(Bank<T>& B, int r, const std::string& line, bool combined) {
    const tlx::Aggregate<T>& g = B.agg[r];
    const std::vector<long double>& v = B.ref[r];
    std::ostringstream os;
    os << "count=" << g.count() << " mean=" << g17(g.mean()) << " nvar=" << g17(g.nvar_)
       << " min=" << g17(static_cast<double>(g.min())) << " max=" << g17(static_cast<double>(g.max()))
       << " var0=" << g17(g.variance(0)) << " var1=" << g17(g.variance(1)) << " span=" << (g.count() ? g17(static_cast<double>(g.span())) : std::string("-"));
    vh::answer(os.str());
    // direct oracle: the definition over the multiset of all values
    size_t n = v.size();
    if (g.count() != n) { vh::viol("aggregate count " + std::to_string(g.count()) + " but " + std::to_string(n) + " values were fed, after " + line); return; }
    if (n == 0) {
        // empty aggregate: no values; variance() must still be a number (it is used by later add())
        if (std::isnan(g.nvar_) || std::isnan(g.mean_)) vh::viol("aggregate of no values has NaN state (poisons every later add), after " + line);
        return;
    }
    AggRef e = agg_exact(v);
    const long double u = 1.1102230246251565e-16L;
    auto far = [](long double got, long double want, long double tol) { return !(fabsl(got - want) <= tol); };
    auto bound = [](long double tol) { return " (bound " + g17(static_cast<double>(tol)) + ")"; };
    if (far(g.mean(), e.mean, e.tol_mean)) vh::viol("aggregate mean " + g17(g.mean()) + " but values have mean " + g17(static_cast<double>(e.mean)) + bound(e.tol_mean) + ", after " + line);
    if (far(g.nvar_, e.S, e.tol_nvar)) vh::viol("aggregate nvar_ " + g17(g.nvar_) + " but values have sum of squared deviations " + g17(static_cast<double>(e.S)) + bound(e.tol_nvar) + ", after " + line);
    for (size_t d = 0; d <= 1; ++d) {
        long double want = n > 1 ? e.S / (n - d) : 0, tol = n > 1 ? e.tol_nvar / (n - d) + 4 * u * want : 0;
        if (far(g.variance(d), want, tol)) vh::viol("aggregate variance(" + std::to_string(d) + ") " + g17(g.variance(d)) + " but values have " + g17(static_cast<double>(want)) + bound(tol) + ", after " + line);
    }
    if (static_cast<long double>(g.min()) != e.mn) vh::viol("aggregate min wrong after " + line);
    if (static_cast<long double>(g.max()) != e.mx) vh::viol("aggregate max wrong after " + line);
    // the property as stated: a combined aggregate == ONE Aggregate fed with all the values (real doubles)
    if (combined) {
        tlx::Aggregate<T> one;
        for (long double x : v) one.add(static_cast<T>(x));
        if (one.count() != g.count() || one.min() != g.min() || one.max() != g.max())
            vh::viol("combined aggregate differs from one aggregate fed with all values in count/min/max, after " + line);
        if (far(g.mean(), one.mean(), 2 * e.tol_mean)) vh::viol("combined aggregate mean " + g17(g.mean()) + " but one aggregate fed with all values has " + g17(one.mean()) + bound(2 * e.tol_mean) + ", after " + line);
        if (far(g.nvar_, one.nvar_, 2 * e.tol_nvar)) vh::viol("combined aggregate nvar_ " + g17(g.nvar_) + " but one aggregate fed with all values has " + g17(one.nvar_) + bound(2 * e.tol_nvar) + ", after " + line);
    }
}

template <typename T>
static void do_agg(Bank<T>& B, const std::vector<std::string>& t, const std::string& line, bool integral) {
    // t: agg <bank> <op> r [..]
    if (t.size() < 4) { vh::answer("bad-op"); return; }
    const std::string& op = t[2];
    auto reg = [&](size_t i, int& r) { if (i >= t.size() || t[i].size() != 1 || t[i][0] < '0' || t[i][0] > '3') return false; r = t[i][0] - '0'; return true; };
    int r, a, b;
    if (!reg(3, r)) { vh::answer("bad-op"); return; }
    if (op == "new" && t.size() == 4) { B.agg[r] = tlx::Aggregate<T>(); B.ref[r].clear(); }
    else if (op == "add" && t.size() == 5) {
        long double v;
        if (!parse_val(t[4], v) || (integral && v != std::floor(v))) { vh::answer("bad-op"); return; }
        B.agg[r].add(static_cast<T>(v)); B.ref[r].push_back(v);
    }
    else if (op == "plus" && t.size() == 6 && reg(4, a) && reg(5, b)) {
        tlx::Aggregate<T> s = B.agg[a] + B.agg[b];
        std::vector<long double> m = B.ref[a]; m.insert(m.end(), B.ref[b].begin(), B.ref[b].end());
        B.agg[r] = s; B.ref[r] = m;
    }
    else if (op == "pluseq" && t.size() == 5 && reg(4, a)) {
        std::vector<long double> m = B.ref[a];
        B.agg[r] += B.agg[a];
        B.ref[r].insert(B.ref[r].end(), m.begin(), m.end());
    }
    else if (op == "copy" && t.size() == 5 && reg(4, a)) { B.agg[r] = B.agg[a]; B.ref[r] = B.ref[a]; }
    else if (op == "get" && t.size() == 4) {}
    else { vh::answer("bad-op"); return; }
    agg_report(B, r, line, op == "plus" || op == "pluseq");
}

// popcount(const void*, size_t):  pb <misalignment 0..7> <hex bytes or ->
static void do_pb(const std::vector<std::string>& t) {
    if (t.size() != 3) { vh::answer("bad-op"); return; }
    int off;
    try { off = std::stoi(t[1]); } catch (...) { vh::answer("bad-op"); return; }
    std::string hex = t[2] == "-" ? std::string() : t[2];
    if (off < 0 || off > 7 || hex.size() % 2) { vh::answer("bad-op"); return; }
    std::vector<unsigned char> bytes;
    for (size_t i = 0; i < hex.size(); i += 2) {
        auto val = [](char c) { return (c >= '0' && c <= '9') ? c - '0' : (c >= 'a' && c <= 'f') ? c - 'a' + 10 : -1; };
        int hi = val(hex[i]), lo = val(hex[i + 1]);
        if (hi < 0 || lo < 0) { vh::answer("bad-op"); return; }
        bytes.push_back(static_cast<unsigned char>(hi * 16 + lo));
    }
    // exactly sized heap block (ASan catches any over-read), 8-aligned base + requested offset
    size_t n = bytes.size();
    unsigned char* block = static_cast<unsigned char*>(aligned_alloc(8, ((n + static_cast<size_t>(off) + 7) / 8 + 1) * 8));
    unsigned char* p = block + off;
    if (n) memcpy(p, bytes.data(), n);
    size_t want = 0;
    for (unsigned char b : bytes) want += t_pop16[b];
    size_t got = tlx::popcount(static_cast<const void*>(p), n);
    free(block);
    vh::answer(std::to_string(got));
    if (got != want) vh::viol("popcount(data,size) returns " + std::to_string(got) + " but the bytes have " + std::to_string(want) + " one bits witness: pb " + t[1] + " " + t[2]);
}

int main(int argc, char** argv) {
    init_tables();
    std::string line;
    while (std::getline(std::cin, line)) {
        auto t = vh::tokens(line);
        if (t.empty()) { vh::answer(""); continue; }
        if (t[0][0] == '#') { vh::answer(line); continue; }
        if (t[0] == "case") { bank_d.reset(); bank_i.reset(); vh::answer("case"); continue; }
        if (t[0] == "agg") {
            if (t.size() >= 2 && t[1] == "d") do_agg(bank_d, t, line, false);
            else if (t.size() >= 2 && t[1] == "i") do_agg(bank_i, t, line, true);
            else vh::answer("bad-op");
        }
        else if (t[0] == "pb") do_pb(t);
        else if (t[0] == "vm" || t[0] == "sm") do_mixed(t);
        else do_int(t);
    }
    return 0;
}
