// detsched — a deterministic scheduler for code that synchronises through
// std::mutex / std::condition_variable / std::atomic / std::thread.
//
// The code under test is compiled with `-include harness/detsched/shim.hpp`,
// which makes those names resolve to the shim classes of shim.hpp inside
// namespace tlx.  Every shim operation is a *synchronisation point*: the calling
// logical thread announces the operation it is about to perform ("pending
// operation") and asks the scheduler who runs next.  Exactly one logical thread
// runs at any time (real OS threads handing over a baton), so everything a
// thread does between two synchronisation points is atomic, and a run is a
// deterministic function of the sequence of scheduling choices.
//
// Choices ("draws") come from an explicit list (`sched`) and, when that is
// exhausted, from splitmix64(seed).  One draw is consumed
//   * at every scheduling decision (before every synchronisation operation and
//     when a thread finishes), and
//   * by notify_one on a non-empty wait set (which waiter is woken).
// A draw c resolves as follows.  Let E be the enabled threads in ascending id
// order, S the spurious-wake-up candidates (only while the budget `spur` lasts),
// O = E ++ S.  If E is empty the run is *stuck* (S is not used to escape).  If
// the thread that ran last is in E and (c & 255) < stick it continues, otherwise
// O[(c >> 8) % |O|] runs.  notify_one wakes waiters[(c >> 8) % |waiters|] (wait
// sets are kept in arrival order).  The Lean models implement the same rule, so
// that a run of the model and a run of the real code on the same draws can be
// compared event by event.
//
// Enabledness of a pending operation:
//   lock(m)            m is free (a thread locking a mutex it already owns is never enabled: the
//                      self-deadlock of a non-recursive mutex becomes a detected stuck state, flagged
//                      `self_owner` in the report, instead of undefined behaviour)
//   wake(cv,m)         (the thread was notified, or a spurious wake-up is taken) and m is free
//   join(t)            t has finished
//   load(a) [spinning] only for atomics the harness declared with spin_var(): the value of a
//                      differs from the value this thread loaded from a in its previous
//                      synchronisation operation (yield excepted): a thread re-reading an
//                      unchanged atomic in a spin loop is treated as blocked until the value
//                      changes — this is what turns a livelock of a spin barrier into a
//                      detectable "stuck" state and keeps runs finite
//   everything else    always
//
// When a run is stuck (or exceeds its step limit) it is abandoned: the `on_stuck`
// callback is invoked while all logical threads are parked, then the threads are
// resumed one at a time in *abort mode*, where an operation that is enabled is
// simply performed and one that is not throws detsched::Abort, which unwinds the
// thread to its entry function.
#pragma once
#include <atomic>
#include <condition_variable>
#include <cstdint>
#include <functional>
#include <map>
#include <memory>
#include <mutex>
#include <string>
#include <thread>
#include <vector>

namespace detsched {

struct Abort {};   // thrown into blocked threads of an abandoned run (not a std::exception on purpose)

struct MutexState { int owner = -1; };
struct CvState { ::std::vector<int> waiters; };

enum class Op { None, Start, Lock, Unlock, TryLock, Wait, Wake, NotifyOne, NotifyAll,
                Load, Store, Rmw, Fence, Yield, Spawn, Join };

struct Pending {
    Op op = Op::None;
    const void* obj = nullptr;       // mutex / cv / atomic the operation refers to
    MutexState* mtx = nullptr;       // Lock, Wake
    CvState* cv = nullptr;           // Wake
    int target = -1;                 // Join
    bool spin = false;               // Load that would re-read an unchanged value
    const ::std::function<unsigned long long()>* cur = nullptr;   // current value of the atomic (spin loads)
};

enum class End { Done, Stuck, StepLimit };

struct Blocked {          // one entry per unfinished thread of a stuck run
    int tid;
    Op op;
    const void* obj;
    int target;
    bool notified;        // Wake: thread is no longer in the wait set
    bool self_owner;      // Lock: the thread tries to lock a (non-recursive) mutex it already owns
};

class Sched {
public:
    static Sched& get() { static Sched s; return s; }

    // ---------------------------------------------------------------- configuration of one run
    uint64_t seed = 1;
    ::std::vector<uint64_t> sched;     // explicit draws, used first
    unsigned stick = 0;                // 0..255
    unsigned spur = 0;                 // spurious wake-up budget
    bool tail_zero = false;            // draws beyond `sched` take alternative 0 instead of the PRNG
    size_t max_steps = 20000;
    ::std::function<void(const ::std::vector<Blocked>&)> on_stuck;
    // called on the acting logical thread right after an event was logged
    ::std::function<void(int tid, Op op, const void* obj, long long val)> on_event;

    // ---------------------------------------------------------------- results of the last run
    End end = End::Done;
    ::std::vector<::std::string> trace;
    ::std::vector<uint64_t> resolved;  // explicit schedule that reproduces the run (256*index+255 per draw)
    ::std::vector<uint32_t> resolved_n; // number of alternatives at each draw (for systematic exploration)
    size_t steps = 0;

    void name(const void* p, const ::std::string& n) { names_[p] = n; }
    //! declare an atomic that is polled in spin loops (see "load(a) [spinning]" above)
    void spin_var(const void* p) { spin_vars_.push_back(p); }
    ::std::string name_of(const void* p) {
        auto it = names_.find(p);
        if (it != names_.end()) return it->second;
        ::std::string n = "?" + ::std::to_string(names_.size());
        names_[p] = n;
        return n;
    }

    // Runs `main_fn` as logical thread 0 and returns when every logical thread has
    // finished or the run was abandoned.  Must be called from a non-logical thread.
    End run(::std::function<void()> main_fn);

    // ---------------------------------------------------------------- API for logical threads
    static bool in_logical_thread() { return self_() != nullptr; }
    static int self_id() { return self_() ? self_()->id : -1; }
    bool aborting() const { return mode_ == Mode::Aborting; }

    int spawn(::std::function<void()> fn);            // synchronisation point "spawn"
    void join(int tid);                               // synchronisation point "join"
    bool finished(int tid) const { return th_[tid]->finished; }
    void yield();
    void fence();
    void note(const ::std::string& s);                // annotation in the trace, no scheduling point
    //! harness hint: the calling thread has left a spin loop (its next load of a spin_var is a fresh one)
    void spin_reset() { if (self_()) self_()->spin_addr = nullptr; }

    void mutex_lock(const void* obj, MutexState* m);
    bool mutex_try_lock(const void* obj, MutexState* m);
    void mutex_unlock(const void* obj, MutexState* m);
    void cv_wait(const void* obj, CvState* cv, const void* mobj, MutexState* m);
    void cv_notify_one(const void* obj, CvState* cv);
    void cv_notify_all(const void* obj, CvState* cv);
    // atomics: `pre` announces the operation, the caller then performs it on its
    // plain storage and reports the value with `post`.
    void atomic_pre(Op op, const void* obj, const ::std::function<unsigned long long()>& cur);
    void atomic_post(Op op, const void* obj, long long val);

private:
    struct LThread {
        int id = 0;
        ::std::thread os;
        ::std::condition_variable cv;
        bool finished = false;
        Pending pend;
        ::std::function<void()> fn;
        const void* spin_addr = nullptr;
        unsigned long long spin_val = 0;
    };
    enum class Mode { Idle, Running, Aborting };
    static constexpr int CTRL = -2;

    static LThread*& self_() { static thread_local LThread* s = nullptr; return s; }

    ::std::mutex gm_;
    ::std::condition_variable ctrl_cv_;
    int current_ = CTRL;
    Mode mode_ = Mode::Idle;
    ::std::vector<::std::unique_ptr<LThread>> th_;
    ::std::map<const void*, ::std::string> names_;
    ::std::vector<const void*> spin_vars_;
    size_t sched_pos_ = 0;
    uint64_t rng_ = 0;
    unsigned spur_left_ = 0;

    uint64_t draw() {
        if (sched_pos_ < sched.size()) return sched[sched_pos_++];
        if (tail_zero) return 255;
        uint64_t z = (rng_ += 0x9e3779b97f4a7c15ULL);
        z = (z ^ (z >> 30)) * 0xbf58476d1ce4e5b9ULL;
        z = (z ^ (z >> 27)) * 0x94d049bb133111ebULL;
        return z ^ (z >> 31);
    }
    bool enabled(const LThread& t, bool allow_spurious) const {
        const Pending& p = t.pend;
        switch (p.op) {
        case Op::Lock: return p.mtx->owner == -1;
        case Op::Wake: {
            bool in_set = false;
            for (int w : p.cv->waiters) if (w == t.id) in_set = true;
            return (!in_set || allow_spurious) && p.mtx->owner == -1;
        }
        case Op::Join: return th_[p.target]->finished;
        case Op::Load: return !p.spin || (*p.cur)() != t.spin_val;
        default: return true;
        }
    }
    void log(const ::std::string& s) { trace.push_back(s); }
    void event(Op op, const void* obj, long long val) {
        if (on_event && mode_ == Mode::Running) on_event(self_()->id, op, obj, val);
    }
    void sync(const Pending& p);
    void pass_baton(LThread* self, int next);       // self == nullptr: the caller does not wait
    int pick(LThread* last);                        // next thread to run, or CTRL
    void thread_main(LThread* t);
    void clear_spin() { self_()->spin_addr = nullptr; }
};

// ------------------------------------------------------------------------------------------------

inline void Sched::pass_baton(LThread* self, int next) {
    ::std::unique_lock<::std::mutex> l(gm_);
    current_ = next;
    if (next == CTRL) ctrl_cv_.notify_one();
    else th_[next]->cv.notify_one();
    if (self) self->cv.wait(l, [&] { return current_ == self->id; });
}

inline int Sched::pick(LThread* last) {
    if (steps >= max_steps) { end = End::StepLimit; return CTRL; }
    ::std::vector<int> opts;
    bool any_unfinished = false;
    for (auto& t : th_) {
        if (t->finished) continue;
        any_unfinished = true;
        if (enabled(*t, false)) opts.push_back(t->id);
    }
    if (!any_unfinished) { end = End::Done; return CTRL; }
    if (opts.empty()) { end = End::Stuck; return CTRL; }
    bool last_enabled = last && !last->finished && enabled(*last, false);
    if (spur_left_ > 0)
        for (auto& t : th_)
            if (!t->finished && t->pend.op == Op::Wake && !enabled(*t, false) && enabled(*t, true))
                opts.push_back(t->id);
    uint64_t c = draw();
    int next;
    size_t idx;
    if (last_enabled && (c & 255) < stick) {
        next = last->id;
        idx = 0;
        for (size_t i = 0; i < opts.size(); ++i) if (opts[i] == next) idx = i;
    } else {
        idx = (c >> 8) % opts.size();
        next = opts[idx];
    }
    resolved.push_back(256 * idx + 255);
    resolved_n.push_back(static_cast<uint32_t>(opts.size()));
    return next;
}

inline void Sched::sync(const Pending& p) {
    LThread* self = self_();
    if (mode_ == Mode::Aborting) {
        self->pend = p;
        if (p.op == Op::Spawn || !enabled(*self, false)) throw Abort();
        self->pend.op = Op::None;
        return;
    }
    self->pend = p;
    int next = pick(self);
    if (next != self->id) {
        pass_baton(self, next);
        if (mode_ == Mode::Aborting) {
            if (p.op == Op::Spawn || !enabled(*self, false)) throw Abort();
            self->pend.op = Op::None;
            return;
        }
    }
    self->pend.op = Op::None;
    ++steps;
}

inline void Sched::thread_main(LThread* t) {
    self_() = t;
    {
        ::std::unique_lock<::std::mutex> l(gm_);
        t->cv.wait(l, [&] { return current_ == t->id; });
    }
    if (mode_ == Mode::Running) {
        t->pend.op = Op::None;
        ++steps;
        log(::std::to_string(t->id) + ":start");
        try { t->fn(); } catch (Abort&) { }
    }
    t->finished = true;
    t->pend.op = Op::None;
    int next = (mode_ == Mode::Running) ? pick(nullptr) : CTRL;
    pass_baton(nullptr, next);
}

inline End Sched::run(::std::function<void()> main_fn) {
    th_.clear();
    trace.clear();
    resolved.clear();
    resolved_n.clear();
    names_.clear();
    spin_vars_.clear();
    steps = 0;
    sched_pos_ = 0;
    rng_ = seed;
    spur_left_ = spur;
    end = End::Done;
    mode_ = Mode::Running;
    auto t0 = ::std::make_unique<LThread>();
    t0->id = 0;
    t0->fn = ::std::move(main_fn);
    t0->pend.op = Op::Start;
    LThread* p0 = t0.get();
    th_.push_back(::std::move(t0));
    p0->os = ::std::thread([this, p0] { thread_main(p0); });
    {
        // the very first scheduling decision: only thread 0 exists
        int next = pick(nullptr);
        ::std::unique_lock<::std::mutex> l(gm_);
        current_ = next;
        if (next != CTRL) th_[next]->cv.notify_one();
        ctrl_cv_.wait(l, [&] { return current_ == CTRL; });
    }
    if (end != End::Done) {
        // abandoned run: report, then unwind every thread
        if (end == End::Stuck && on_stuck) {
            ::std::vector<Blocked> b;
            for (auto& t : th_) {
                if (t->finished) continue;
                Blocked x{t->id, t->pend.op, t->pend.obj, t->pend.target, false, false};
                if (t->pend.op == Op::Lock) x.self_owner = (t->pend.mtx->owner == t->id);
                if (t->pend.op == Op::Wake) {
                    bool in_set = false;
                    for (int w : t->pend.cv->waiters) if (w == t->id) in_set = true;
                    x.notified = !in_set;
                }
                b.push_back(x);
            }
            on_stuck(b);
        }
        mode_ = Mode::Aborting;
        for (;;) {
            // order: threads that will throw at once (cv / spin), then lock waiters, then joiners
            int best = -1, best_rank = 99;
            for (auto& t : th_) {
                if (t->finished) continue;
                int rank;
                switch (t->pend.op) {
                case Op::Lock: rank = (t->pend.mtx->owner == -1) ? 1 : 3; break;
                case Op::Join: rank = th_[t->pend.target]->finished ? 2 : 4; break;
                default: rank = 0;
                }
                if (rank < best_rank) { best_rank = rank; best = t->id; }
            }
            if (best < 0) break;
            ::std::unique_lock<::std::mutex> l(gm_);
            current_ = best;
            th_[best]->cv.notify_one();
            ctrl_cv_.wait(l, [&] { return current_ == CTRL; });
        }
    }
    for (auto& t : th_) if (t->os.joinable()) t->os.join();
    mode_ = Mode::Idle;
    return end;
}

inline int Sched::spawn(::std::function<void()> fn) {
    Pending p; p.op = Op::Spawn;
    sync(p);
    clear_spin();
    auto t = ::std::make_unique<LThread>();
    int id = static_cast<int>(th_.size());
    t->id = id;
    t->fn = ::std::move(fn);
    t->pend.op = Op::Start;
    LThread* pt = t.get();
    th_.push_back(::std::move(t));
    pt->os = ::std::thread([this, pt] { thread_main(pt); });
    log(::std::to_string(self_()->id) + ":spawn(" + ::std::to_string(id) + ")");
    event(Op::Spawn, nullptr, id);
    return id;
}

inline void Sched::join(int tid) {
    Pending p; p.op = Op::Join; p.target = tid;
    sync(p);
    clear_spin();
    if (mode_ != Mode::Running) return;
    log(::std::to_string(self_()->id) + ":join(" + ::std::to_string(tid) + ")");
    event(Op::Join, nullptr, tid);
}

inline void Sched::yield() {
    Pending p; p.op = Op::Yield;
    sync(p);
    if (mode_ != Mode::Running) return;
    log(::std::to_string(self_()->id) + ":yield");
    event(Op::Yield, nullptr, 0);
}

inline void Sched::fence() {
    Pending p; p.op = Op::Fence;
    sync(p);
    clear_spin();
    if (mode_ != Mode::Running) return;
    log(::std::to_string(self_()->id) + ":fence");
    event(Op::Fence, nullptr, 0);
}

inline void Sched::note(const ::std::string& s) {
    if (mode_ != Mode::Running || !self_()) return;
    log(::std::to_string(self_()->id) + ":" + s);
}

inline void Sched::mutex_lock(const void* obj, MutexState* m) {
    Pending p; p.op = Op::Lock; p.obj = obj; p.mtx = m;
    sync(p);
    clear_spin();
    m->owner = self_()->id;
    if (mode_ != Mode::Running) return;
    log(::std::to_string(self_()->id) + ":lock(" + name_of(obj) + ")");
    event(Op::Lock, obj, 0);
}

inline bool Sched::mutex_try_lock(const void* obj, MutexState* m) {
    Pending p; p.op = Op::TryLock; p.obj = obj; p.mtx = m;
    sync(p);
    clear_spin();
    bool ok = (m->owner == -1);
    if (ok) m->owner = self_()->id;
    if (mode_ != Mode::Running) return ok;
    log(::std::to_string(self_()->id) + ":trylock(" + name_of(obj) + ")=" + (ok ? "1" : "0"));
    event(Op::TryLock, obj, ok);
    return ok;
}

inline void Sched::mutex_unlock(const void* obj, MutexState* m) {
    if (mode_ == Mode::Aborting) {
        // unwinding: a lock object may believe it owns a mutex it released in cv_wait
        if (m->owner == self_()->id) m->owner = -1;
        return;
    }
    Pending p; p.op = Op::Unlock; p.obj = obj; p.mtx = m;
    sync(p);
    clear_spin();
    if (mode_ == Mode::Aborting) {
        if (m->owner == self_()->id) m->owner = -1;
        return;
    }
    m->owner = -1;
    log(::std::to_string(self_()->id) + ":unlock(" + name_of(obj) + ")");
    event(Op::Unlock, obj, 0);
}

inline void Sched::cv_wait(const void* obj, CvState* cv, const void* mobj, MutexState* m) {
    Pending p; p.op = Op::Wait; p.obj = obj;
    sync(p);
    clear_spin();
    if (mode_ == Mode::Aborting) throw Abort();
    int me = self_()->id;
    cv->waiters.push_back(me);
    m->owner = -1;
    log(::std::to_string(me) + ":wait(" + name_of(obj) + ")");
    event(Op::Wait, obj, 0);
    Pending w; w.op = Op::Wake; w.obj = obj; w.cv = cv; w.mtx = m;
    try {
        sync(w);
    } catch (Abort&) {
        for (size_t i = 0; i < cv->waiters.size(); ++i)
            if (cv->waiters[i] == me) { cv->waiters.erase(cv->waiters.begin() + i); break; }
        throw;
    }
    bool spurious = false;
    for (size_t i = 0; i < cv->waiters.size(); ++i)
        if (cv->waiters[i] == me) { cv->waiters.erase(cv->waiters.begin() + i); spurious = true; break; }
    m->owner = me;
    if (mode_ != Mode::Running) return;
    if (spurious && spur_left_ > 0) --spur_left_;
    log(::std::to_string(me) + (spurious ? ":wake!(" : ":wake(") + name_of(obj) + ")");
    event(Op::Wake, obj, spurious);
    (void)mobj;
}

inline void Sched::cv_notify_one(const void* obj, CvState* cv) {
    Pending p; p.op = Op::NotifyOne; p.obj = obj;
    sync(p);
    clear_spin();
    if (mode_ != Mode::Running) { cv->waiters.clear(); return; }
    int woken = -1;
    if (!cv->waiters.empty()) {
        uint64_t c = draw();
        size_t idx = (c >> 8) % cv->waiters.size();
        resolved.push_back(256 * idx + 255);
        resolved_n.push_back(static_cast<uint32_t>(cv->waiters.size()));
        woken = cv->waiters[idx];
        cv->waiters.erase(cv->waiters.begin() + idx);
    }
    log(::std::to_string(self_()->id) + ":n1(" + name_of(obj) + ")>" + (woken < 0 ? ::std::string("-") : ::std::to_string(woken)));
    event(Op::NotifyOne, obj, woken);
}

inline void Sched::cv_notify_all(const void* obj, CvState* cv) {
    Pending p; p.op = Op::NotifyAll; p.obj = obj;
    sync(p);
    clear_spin();
    size_t n = cv->waiters.size();
    cv->waiters.clear();
    if (mode_ != Mode::Running) return;
    log(::std::to_string(self_()->id) + ":nall(" + name_of(obj) + ")#" + ::std::to_string(n));
    event(Op::NotifyAll, obj, static_cast<long long>(n));
}

inline void Sched::atomic_pre(Op op, const void* obj, const ::std::function<unsigned long long()>& cur) {
    LThread* self = self_();
    Pending p; p.op = op; p.obj = obj; p.cur = &cur;
    p.spin = false;
    if (op == Op::Load && self->spin_addr == obj)
        for (const void* sv : spin_vars_) if (sv == obj) p.spin = true;
    sync(p);
    if (op == Op::Load) { self->spin_addr = obj; self->spin_val = cur(); }
    else self->spin_addr = nullptr;
}

inline void Sched::atomic_post(Op op, const void* obj, long long val) {
    if (mode_ != Mode::Running) return;
    const char* n = op == Op::Load ? ":ld(" : op == Op::Store ? ":st(" : ":rmw(";
    log(::std::to_string(self_()->id) + n + name_of(obj) + ")=" + ::std::to_string(val));
    event(op, obj, val);
}


// Systematic (stateless, depth-first) exploration of all schedules of a scenario: `run_once(sched)` must run the
// scenario with Sched::sched = sched and Sched::tail_zero = true and return true when the run violated the
// property.  Explores until the schedule tree is exhausted, `max_runs` is reached or a violation is found.
struct ExploreResult { uint64_t runs = 0; bool complete = false; bool violated = false; ::std::vector<uint64_t> witness; };

template <typename RunOnce>
ExploreResult explore(RunOnce run_once, uint64_t max_runs) {
    ExploreResult res;
    ::std::vector<uint64_t> prefix;
    for (;;) {
        bool bad = run_once(prefix);
        ++res.runs;
        Sched& S = Sched::get();
        ::std::vector<uint64_t> path = S.resolved;
        ::std::vector<uint32_t> width = S.resolved_n;
        if (bad) { res.violated = true; res.witness = path; return res; }
        // next schedule in depth-first order: bump the deepest choice that has an untried alternative
        size_t i = path.size();
        while (i > 0) {
            uint64_t idx = (path[i - 1] - 255) / 256;
            if (idx + 1 < width[i - 1]) break;
            --i;
        }
        if (i == 0) { res.complete = true; return res; }
        prefix.assign(path.begin(), path.begin() + static_cast<long>(i));
        prefix[i - 1] += 256;
        if (res.runs >= max_runs) return res;
    }
}

}  // namespace detsched
