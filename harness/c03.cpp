// C03 harness: the sequential string sorters of tlx behind the line protocol.
//
//   case <id>                       reset the string pool
//   str <hex|-> ...                 append NUL-free strings (hex bytes, "-" = empty) to the pool
//   text <hex>                      set the text of the suffix representation (once, before `suf`)
//   suf <offset> ...                append the suffixes text[offset..] to the pool (distinct offsets)
//   sort <algo> <rep> <lcp> <memory> <depth>
//        algo  ins | mkqs | CE0 | CE2 | CE3 | CI2 | CI3   (tlx::sort_strings_detail, reps ucp cucp str uptr suf and
//                                                          scp sccp = CharStringSet / CCharStringSet on plain char)
//              api                                        (tlx::sort_strings / sort_strings_lcp, reps cp ucp ccp
//                                                          cucp vcp vucp vccp vcucp strp vstr; depth must be 0)
//        lcp   0 | 1 (LCP-producing variant, std::uint32_t array)
//        memory  the memory-limit argument, depth the common-prefix length handed to the detail sorters
//
// A sort works on a fresh copy of the pool in the requested representation; the pool stays.
// Answer of a sort:  ord=<pool indices in output order> lcp=<whole lcp array incl. the untouched entry 0>
// (for more than 128 strings a 64-bit FNV-1a digest of that text).  For the std::string representations
// object identity is not observable, there the indices of equal strings are listed in ascending order.
// Direct oracle (#VIOL): output objects are a permutation of the input objects, adjacent strings are in
// unsigned-byte lexicographic order, the string sequence equals std::sort's, lcp[i] (i>=1) equals the
// brute-force LCP.  Every string lives in an exact-size heap block and the lcp array has exactly n
// entries, so over-reads/over-writes abort under ASan.
//
//   <bin> consts                    print sizeof constants that the memory-limit logic depends on
#include <algorithm>
#include <cstdint>
#include <cstring>
#include <map>
#include <memory>
#include <string>
#include <vector>

#include "common.hpp"

#include <tlx/sort/strings.hpp>
#include <tlx/sort/strings/insertion_sort.hpp>
#include <tlx/sort/strings/multikey_quicksort.hpp>
#include <tlx/sort/strings/radix_sort.hpp>

namespace sd = tlx::sort_strings_detail;
typedef std::basic_string<unsigned char> ustr;

static std::vector<ustr> pool;           // the strings of the case
static std::vector<long long> pool_off;  // suffix offset or -1
static ustr text;
static bool have_text = false;

static const std::uint32_t LCP_INIT = 3000000000u;

static bool parse_hex(const std::string& h, ustr& out) {
    out.clear();
    if (h == "-") return true;
    if (h.size() % 2) return false;
    for (size_t i = 0; i < h.size(); i += 2) {
        auto hv = [](char c) -> int {
            if (c >= '0' && c <= '9') return c - '0';
            if (c >= 'a' && c <= 'f') return c - 'a' + 10;
            if (c >= 'A' && c <= 'F') return c - 'A' + 10;
            return -1;
        };
        int a = hv(h[i]), b = hv(h[i + 1]);
        if (a < 0 || b < 0) return false;
        int v = a * 16 + b;
        if (v == 0) return false;  // NUL-free strings only
        out.push_back(static_cast<unsigned char>(v));
    }
    return true;
}

static size_t brute_lcp(const ustr& a, const ustr& b) {
    size_t k = 0;
    while (k < a.size() && k < b.size() && a[k] == b[k]) ++k;
    return k;
}

static bool ule(const ustr& a, const ustr& b) {  // unsigned-byte lexicographic a <= b
    return !std::lexicographical_compare(b.begin(), b.end(), a.begin(), a.end());
}

static std::string fnv(const std::string& s) {
    uint64_t h = 1469598103934665603ULL;
    for (unsigned char c : s) { h ^= c; h *= 1099511628211ULL; }
    char buf[32];
    snprintf(buf, sizeof buf, "%016llx", static_cast<unsigned long long>(h));
    return buf;
}

// ------------------------------------------------------------------ the algorithms
template <typename Ptr>
static bool run_detail(const std::string& algo, const Ptr& p, size_t depth, size_t mem) {
    if (algo == "ins") sd::insertion_sort(p, depth, mem);
    else if (algo == "mkqs") sd::multikey_quicksort(p, depth, mem);
    else if (algo == "CE0") sd::radixsort_CE0(p, depth, mem);
    else if (algo == "CE2") sd::radixsort_CE2(p, depth, mem);
    else if (algo == "CE3") sd::radixsort_CE3(p, depth, mem);
    else if (algo == "CI2") sd::radixsort_CI2(p, depth, mem);
    else if (algo == "CI3") sd::radixsort_CI3(p, depth, mem);
    else return false;
    return true;
}

template <typename SS>
static bool run_set(const std::string& algo, const SS& ss, bool lcp, std::uint32_t* lcpa, size_t depth, size_t mem) {
    if (lcp) return run_detail(algo, sd::StringLcpPtr<SS, std::uint32_t>(ss, lcpa), depth, mem);
    return run_detail(algo, sd::StringPtr<SS>(ss), depth, mem);
}

static bool is_detail_algo(const std::string& a) {
    return a == "ins" || a == "mkqs" || a == "CE0" || a == "CE2" || a == "CE3" || a == "CI2" || a == "CI3";
}

template <typename SS>
static void print_consts(const char* rep) {
    typedef sd::StringPtr<SS> P0;
    typedef sd::StringLcpPtr<SS, std::uint32_t> P1;
    std::cout << rep << " 0 " << sizeof(SS) << ' ' << sizeof(typename SS::String) << ' ' << sizeof(typename SS::Iterator)
              << ' ' << sizeof(sd::RadixStep_CE0<typename P0::WithShadow>) << ' ' << sizeof(sd::RadixStep_CE2<typename P0::WithShadow>)
              << ' ' << sizeof(sd::RadixStep_CE3<typename P0::WithShadow>) << ' ' << sizeof(sd::RadixStep_CI2<P0>)
              << ' ' << sizeof(sd::RadixStep_CI3<P0>) << '\n';
    std::cout << rep << " 1 " << sizeof(SS) << ' ' << sizeof(typename SS::String) << ' ' << sizeof(typename SS::Iterator)
              << ' ' << sizeof(sd::RadixStep_CE0<typename P1::WithShadow>) << ' ' << sizeof(sd::RadixStep_CE2<typename P1::WithShadow>)
              << ' ' << sizeof(sd::RadixStep_CE3<typename P1::WithShadow>) << ' ' << sizeof(sd::RadixStep_CI2<P1>)
              << ' ' << sizeof(sd::RadixStep_CI3<P1>) << '\n';
}

// ------------------------------------------------------------------ one sort operation
static void do_sort(const std::vector<std::string>& t, const std::string& line) {
    if (t.size() != 6) { vh::answer("bad-op"); return; }
    const std::string &algo = t[1], &rep = t[2];
    if (t[3] != "0" && t[3] != "1") { vh::answer("bad-op"); return; }
    bool lcp = t[3] == "1";
    size_t mem, depth;
    try { mem = std::stoull(t[4]); depth = std::stoull(t[5]); } catch (...) { vh::answer("bad-op"); return; }
    const size_t n = pool.size();
    // preconditions: known algorithm/representation, common prefix of length depth
    bool api = algo == "api";
    static const char* detail_reps[] = {"ucp", "cucp", "str", "uptr", "suf", "scp", "sccp"};
    static const char* api_reps[] = {"cp", "ucp", "ccp", "cucp", "vcp", "vucp", "vccp", "vcucp", "strp", "vstr"};
    bool ok = false;
    if (api) { for (auto r : api_reps) ok |= rep == r; ok = ok && depth == 0; }
    else if (is_detail_algo(algo)) { for (auto r : detail_reps) ok |= rep == r; }
    if (ok)
        for (size_t i = 0; i < n && ok; ++i)
            ok = pool[i].size() >= depth && std::equal(pool[0].begin(), pool[0].begin() + depth, pool[i].begin());
    if (ok && rep == "suf") {
        std::set<long long> seen;
        for (size_t i = 0; i < n && ok; ++i) ok = pool_off[i] >= 0 && seen.insert(pool_off[i]).second;
        ok = ok && have_text;
    }
    if (!ok) { vh::answer("bad-op"); return; }

    // ---- build the representation
    std::vector<std::uint32_t> lcpv(n);  // exactly n entries
    for (size_t i = 0; i < n; ++i) lcpv[i] = LCP_INIT + static_cast<std::uint32_t>(i);
    std::uint32_t* lcpa = lcpv.data();
    std::vector<ustr> outs(n);
    std::vector<long long> ord(n, -1);
    bool identity = true;   // object identity observable
    std::string perm_err;

    bool cptr = rep == "scp" || rep == "sccp" || rep == "cp" || rep == "ucp" || rep == "ccp" || rep == "cucp" || rep == "vcp" || rep == "vucp" ||
                rep == "vccp" || rep == "vcucp";
    if (cptr) {
        std::vector<std::unique_ptr<unsigned char[]>> bufs(n);
        std::vector<unsigned char*> arr(n);
        std::map<const void*, size_t> id;
        for (size_t i = 0; i < n; ++i) {
            bufs[i].reset(new unsigned char[pool[i].size() + 1]);
            std::memcpy(bufs[i].get(), pool[i].data(), pool[i].size());
            bufs[i][pool[i].size()] = 0;
            arr[i] = bufs[i].get();
            id[arr[i]] = i;
        }
        if (api) {
            if (rep == "cp") {
                char** a = reinterpret_cast<char**>(arr.data());
                lcp ? tlx::sort_strings_lcp(a, n, lcpa, mem) : tlx::sort_strings(a, n, mem);
            } else if (rep == "ucp") {
                lcp ? tlx::sort_strings_lcp(arr.data(), n, lcpa, mem) : tlx::sort_strings(arr.data(), n, mem);
            } else if (rep == "ccp") {
                const char** a = (const char**) arr.data();
                lcp ? tlx::sort_strings_lcp(a, n, lcpa, mem) : tlx::sort_strings(a, n, mem);
            } else if (rep == "cucp") {
                const unsigned char** a = const_cast<const unsigned char**>(arr.data());
                lcp ? tlx::sort_strings_lcp(a, n, lcpa, mem) : tlx::sort_strings(a, n, mem);
            } else if (rep == "vcp") {
                std::vector<char*> v(n);
                for (size_t i = 0; i < n; ++i) v[i] = reinterpret_cast<char*>(arr[i]);
                lcp ? tlx::sort_strings_lcp(v, lcpa, mem) : tlx::sort_strings(v, mem);
                for (size_t i = 0; i < n; ++i) arr[i] = reinterpret_cast<unsigned char*>(v[i]);
            } else if (rep == "vucp") {
                std::vector<unsigned char*> v(arr);
                lcp ? tlx::sort_strings_lcp(v, lcpa, mem) : tlx::sort_strings(v, mem);
                arr = v;
            } else if (rep == "vccp") {
                std::vector<const char*> v(n);
                for (size_t i = 0; i < n; ++i) v[i] = reinterpret_cast<const char*>(arr[i]);
                lcp ? tlx::sort_strings_lcp(v, lcpa, mem) : tlx::sort_strings(v, mem);
                for (size_t i = 0; i < n; ++i) arr[i] = reinterpret_cast<unsigned char*>(const_cast<char*>(v[i]));
            } else {  // vcucp
                std::vector<const unsigned char*> v(n);
                for (size_t i = 0; i < n; ++i) v[i] = arr[i];
                lcp ? tlx::sort_strings_lcp(v, lcpa, mem) : tlx::sort_strings(v, mem);
                for (size_t i = 0; i < n; ++i) arr[i] = const_cast<unsigned char*>(v[i]);
            }
        } else if (rep == "ucp") {
            run_set(algo, sd::UCharStringSet(arr.data(), arr.data() + n), lcp, lcpa, depth, mem);
        } else if (rep == "scp") {
            char** a = reinterpret_cast<char**>(arr.data());
            run_set(algo, sd::CharStringSet(a, a + n), lcp, lcpa, depth, mem);
        } else if (rep == "sccp") {
            const char** a = (const char**) arr.data();
            run_set(algo, sd::CCharStringSet(a, a + n), lcp, lcpa, depth, mem);
        } else {  // cucp
            const unsigned char** a = const_cast<const unsigned char**>(arr.data());
            run_set(algo, sd::CUCharStringSet(a, a + n), lcp, lcpa, depth, mem);
        }
        for (size_t i = 0; i < n; ++i) {
            auto it = id.find(arr[i]);
            if (it == id.end()) { perm_err = "output position " + std::to_string(i) + " holds a pointer that was not in the input"; break; }
            ord[i] = static_cast<long long>(it->second);
            outs[i] = pool[it->second];
        }
    } else if (rep == "str" || rep == "strp" || rep == "vstr") {
        identity = false;
        std::vector<std::string> v(n);
        for (size_t i = 0; i < n; ++i) v[i].assign(reinterpret_cast<const char*>(pool[i].data()), pool[i].size());
        if (api && rep == "strp") lcp ? tlx::sort_strings_lcp(v.data(), n, lcpa, mem) : tlx::sort_strings(v.data(), n, mem);
        else if (api) lcp ? tlx::sort_strings_lcp(v, lcpa, mem) : tlx::sort_strings(v, mem);
        else run_set(algo, sd::StdStringSet(v.data(), v.data() + n), lcp, lcpa, depth, mem);
        for (size_t i = 0; i < n; ++i) outs[i].assign(reinterpret_cast<const unsigned char*>(v[i].data()), v[i].size());
        // canonical indices: equal strings in ascending pool order
        std::map<ustr, std::vector<size_t>> byc;
        for (size_t i = n; i-- > 0;) byc[pool[i]].push_back(i);
        for (size_t i = 0; i < n; ++i) {
            auto it = byc.find(outs[i]);
            if (it == byc.end() || it->second.empty()) { perm_err = "output position " + std::to_string(i) + " holds a string that is not (or not that often) in the input"; break; }
            ord[i] = static_cast<long long>(it->second.back());
            it->second.pop_back();
        }
    } else if (rep == "uptr") {
        std::vector<std::unique_ptr<std::string>> v(n);
        std::map<const void*, size_t> id;
        for (size_t i = 0; i < n; ++i) {
            v[i].reset(new std::string(reinterpret_cast<const char*>(pool[i].data()), pool[i].size()));
            id[v[i].get()] = i;
        }
        run_set(algo, sd::UPtrStdStringSet(v.data(), v.data() + n), lcp, lcpa, depth, mem);
        for (size_t i = 0; i < n; ++i) {
            auto it = v[i] ? id.find(v[i].get()) : id.end();
            if (it == id.end()) { perm_err = "output position " + std::to_string(i) + " holds a null or foreign unique_ptr"; break; }
            ord[i] = static_cast<long long>(it->second);
            outs[i] = pool[it->second];
        }
    } else {  // suf
        std::string txt(reinterpret_cast<const char*>(text.data()), text.size());
        std::vector<size_t> sa(n);
        std::map<size_t, size_t> id;
        for (size_t i = 0; i < n; ++i) { sa[i] = static_cast<size_t>(pool_off[i]); id[sa[i]] = i; }
        run_set(algo, sd::StringSuffixSet(txt, sa.begin(), sa.end()), lcp, lcpa, depth, mem);
        for (size_t i = 0; i < n; ++i) {
            auto it = id.find(sa[i]);
            if (it == id.end()) { perm_err = "output position " + std::to_string(i) + " holds a suffix index that was not in the input"; break; }
            ord[i] = static_cast<long long>(it->second);
            outs[i] = pool[it->second];
        }
    }

    // ---- answer
    std::ostringstream os;
    os << "ord=" << vh::show_csv(ord) << " lcp=";
    if (lcp) os << vh::show_csv(lcpv); else os << '-';
    std::string full = os.str();
    if (n > 128) vh::answer("n=" + std::to_string(n) + " fnv=" + fnv(full));
    else vh::answer(full);

    // ---- direct oracle
    std::string what = algo + " " + rep + " lcp=" + t[3] + " : ";
    if (!perm_err.empty()) { vh::viol("perm " + what + perm_err + " after " + line); return; }
    {
        std::vector<long long> s(ord);
        std::sort(s.begin(), s.end());
        for (size_t i = 0; i < n; ++i)
            if (s[i] != static_cast<long long>(i)) { vh::viol("perm " + what + "output is not a permutation of the input objects (object " + std::to_string(i) + ") after " + line); return; }
    }
    for (size_t i = 1; i < n; ++i)
        if (!ule(outs[i - 1], outs[i])) { vh::viol("order " + what + "strings at positions " + std::to_string(i - 1) + "," + std::to_string(i) + " are out of order after " + line); return; }
    {
        std::vector<ustr> ex(pool);
        std::sort(ex.begin(), ex.end());  // basic_string<unsigned char>: unsigned comparison
        if (ex != outs) { vh::viol("order " + what + "string sequence differs from std::sort after " + line); return; }
    }
    if (lcp)
        for (size_t i = 1; i < n; ++i) {
            size_t want = brute_lcp(outs[i - 1], outs[i]);
            if (lcpv[i] != want) { vh::viol("lcp " + what + "lcp[" + std::to_string(i) + "]=" + std::to_string(lcpv[i]) + " but the strings share " + std::to_string(want) + " bytes after " + line); return; }
        }
    (void) identity;
}

int main(int argc, char** argv) {
    if (argc > 1 && std::string(argv[1]) == "consts") {
        print_consts<sd::UCharStringSet>("ucp");
        print_consts<sd::CUCharStringSet>("cucp");
        print_consts<sd::StdStringSet>("str");
        print_consts<sd::UPtrStdStringSet>("uptr");
        print_consts<sd::StringSuffixSet>("suf");
        print_consts<sd::CharStringSet>("scp");
        print_consts<sd::CCharStringSet>("sccp");
        return 0;
    }
    std::string line;
    while (std::getline(std::cin, line)) {
        auto t = vh::tokens(line);
        if (t.empty()) { vh::answer(""); continue; }
        if (t[0][0] == '#') { vh::answer(line); continue; }
        if (t[0] == "case") {
            pool.clear(); pool_off.clear(); text.clear(); have_text = false;
            vh::answer("case");
        } else if (t[0] == "str") {
            std::vector<ustr> add;
            bool ok = t.size() >= 2;
            for (size_t i = 1; i < t.size() && ok; ++i) { ustr s; ok = parse_hex(t[i], s); add.push_back(s); }
            if (!ok) { vh::answer("bad-op"); continue; }
            for (auto& s : add) { pool.push_back(s); pool_off.push_back(-1); }
            vh::answer("ok " + std::to_string(pool.size()));
        } else if (t[0] == "text") {
            ustr s;
            if (t.size() != 2 || have_text || !parse_hex(t[1], s)) { vh::answer("bad-op"); continue; }
            text = s; have_text = true;
            vh::answer("ok " + std::to_string(text.size()));
        } else if (t[0] == "suf") {
            bool ok = have_text && t.size() >= 2;
            std::vector<long long> offs;
            for (size_t i = 1; i < t.size() && ok; ++i) {
                try { offs.push_back(std::stoll(t[i])); } catch (...) { ok = false; }
                if (ok) ok = offs.back() >= 0 && static_cast<size_t>(offs.back()) <= text.size();
            }
            if (!ok) { vh::answer("bad-op"); continue; }
            for (long long o : offs) { pool.push_back(text.substr(static_cast<size_t>(o))); pool_off.push_back(o); }
            vh::answer("ok " + std::to_string(pool.size()));
        } else if (t[0] == "sort") {
            do_sort(t, line);
        } else {
            vh::answer("bad-op");
        }
    }
    return 0;
}
