// C18 harness: tlx::StringView and std::string_view behind the line protocol.
//
//   c18 run          line protocol (stdin -> stdout), see below
//   c18 exh H N [A]  in-process exhaustive comparison tlx vs std over all haystacks of
//                    length <= H and needles of length <= N over the alphabet
//                    {00,61,62,80,ff} (A = 3 restricts it to {00,61,80}); prints one
//                    reproducing op line per class of disagreement and a summary line
//
// Op lines:  <mode> <op> <hay> [<needle>]
//   mode t = the real tlx::StringView (the Lean *model* answers the same line),
//        s = libstdc++ std::string_view (the Lean *spec* answers the same line).
//   hay / needle: lowercase hex, `-` = empty range at a valid pointer, `null` =
//   default-constructed view (nullptr, 0).
//   Every answer enumerates the full argument grid of the method family:
//   positions / counts range over {0, …, len+1, npos}.
// In mode t the same answer is computed with std::string_view; a difference is a
// `#VIOL` (the property itself fails on the real code).  Entries on which
// std::string_view's behaviour is undefined are not executed and print `u`.
//
// The byte ranges handed to the views are exact-size heap blocks without a
// terminator, so that any read past the range is an ASan error.
#include <algorithm>
#include <cstring>
#include <stdexcept>
#include <string>
#include <string_view>
#include <vector>

#include <sanitizer/common_interface_defs.h>
#include <csignal>
#include <sys/time.h>
#include <unistd.h>

#include "common.hpp"

#define private public
#include <tlx/container/string_view.hpp>
#undef private

static const size_t NPOS = size_t(-1);
static std::string g_current;   // op line being executed (for death reports)

struct Buf {
    char* p = nullptr;     // exact-size block, no terminator (nullptr for `null`)
    char* z = nullptr;     // same bytes + NUL terminator
    size_t n = 0;
    bool null = false;
    std::string hex;
    Buf() {}
    Buf(const Buf&) = delete;
    Buf& operator=(const Buf&) = delete;
    ~Buf() { delete[] p; delete[] z; }
    void set(const std::string& bytes, bool is_null) {
        delete[] p; delete[] z;
        n = bytes.size(); null = is_null;
        p = is_null ? nullptr : new char[n];
        if (n) std::memcpy(p, bytes.data(), n);
        z = new char[n + 1];
        if (n) std::memcpy(z, bytes.data(), n);
        z[n] = 0;
    }
};

static int hexval(char c) {
    if (c >= '0' && c <= '9') return c - '0';
    if (c >= 'a' && c <= 'f') return c - 'a' + 10;
    if (c >= 'A' && c <= 'F') return c - 'A' + 10;
    return -1;
}
static bool parse_bytes(const std::string& tok, Buf& b) {
    if (tok == "null") { b.set("", true); return true; }
    if (tok == "-") { b.set("", false); return true; }
    if (tok.size() % 2) return false;
    std::string s;
    for (size_t i = 0; i < tok.size(); i += 2) {
        int a = hexval(tok[i]), c = hexval(tok[i + 1]);
        if (a < 0 || c < 0) return false;
        s.push_back(static_cast<char>(a * 16 + c));
    }
    b.set(s, false);
    return true;
}
static void put_hex(std::string& o, const char* d, size_t n) {
    static const char* X = "0123456789abcdef";
    if (n == 0) { o += '-'; return; }
    for (size_t i = 0; i < n; ++i) {
        unsigned char c = static_cast<unsigned char>(d[i]);
        o += X[c >> 4]; o += X[c & 15];
    }
}
static void put_hex(std::string& o, const std::string& s) { put_hex(o, s.data(), s.size()); }
static void put_num(std::string& o, size_t v) {
    if (v == NPOS) { o += 'n'; return; }
    o += std::to_string(v);
}
static char sgn(int c) { return c < 0 ? '<' : c > 0 ? '>' : '='; }

static std::vector<size_t> grid(size_t len) {
    std::vector<size_t> g;
    for (size_t i = 0; i <= len + 1; ++i) g.push_back(i);
    g.push_back(NPOS);
    return g;
}

// the count arguments tried for one position: all of them, or only {0, npos} when the
// position is out of range (the call throws whatever the count is)
static std::vector<size_t> counts(const std::vector<size_t>& g, bool out_of_range) {
    if (!out_of_range) return g;
    return std::vector<size_t>{0, NPOS};
}

template <class SV> SV mk(const Buf& b) { return b.null ? SV() : SV(b.p, b.n); }
template <class SV> struct is_tlx { static const bool value = false; };
template <> struct is_tlx<tlx::StringView> { static const bool value = true; };

// one comparison result or X (std::out_of_range) / E (another exception)
template <class F> static void cmp_entry(std::string& o, F f) {
    try { o += sgn(f()); }
    catch (const std::out_of_range&) { o += 'X'; }
    catch (const std::exception&) { o += 'E'; }
}

#define SIX(a, b) do { o += ((a) == (b)) ? '1' : '0'; o += ((a) != (b)) ? '1' : '0'; o += ((a) < (b)) ? '1' : '0'; \
                       o += ((a) > (b)) ? '1' : '0'; o += ((a) <= (b)) ? '1' : '0'; o += ((a) >= (b)) ? '1' : '0'; } while (0)

// ------------------------------------------------------------------ cmp
template <class SV> std::string op_cmp(const Buf& H, const Buf& N) {
    SV h = mk<SV>(H), n = mk<SV>(N);
    std::string ns(N.z, N.n);
    const char* nz = N.z;
    std::string o;
    o += "c="; o += sgn(h.compare(n));
    o += " cz="; o += sgn(h.compare(nz));
    o += " vv="; SIX(h, n);
    o += " vs="; SIX(h, ns);
    o += " sv="; SIX(ns, h);
    o += " vz="; SIX(h, nz);
    o += " zv="; SIX(nz, h);
    return o;
}

// ------------------------------------------------------------------ cmp3 / cmp5
template <class SV> std::string op_cmp3(const Buf& H, const Buf& N) {
    SV h = mk<SV>(H), n = mk<SV>(N);
    std::string o;
    std::vector<size_t> g = grid(H.n);
    o += "v=";
    for (size_t p1 : g) for (size_t n1 : counts(g, p1 > H.n)) cmp_entry(o, [&] { return h.compare(p1, n1, n); });
    o += " z=";
    for (size_t p1 : g) for (size_t n1 : counts(g, p1 > H.n)) cmp_entry(o, [&] { return h.compare(p1, n1, N.z); });
    o += " p=";
    for (size_t n2 = 0; n2 <= N.n; ++n2) {
        for (size_t p1 : g) for (size_t n1 : counts(g, p1 > H.n)) cmp_entry(o, [&] { return h.compare(p1, n1, N.z, n2); });
        o += ';';
    }
    return o;
}

template <class SV> std::string op_cmp5(const Buf& H, const Buf& N) {
    SV h = mk<SV>(H), n = mk<SV>(N);
    std::string o = "v=";
    std::vector<size_t> g = grid(H.n), g2 = grid(N.n);
    // positions beyond the range throw whatever the other arguments are: they are
    // exercised with the extreme counts only (exceptions are slow under ASan)
    for (size_t p1 : g) for (size_t n1 : counts(g, p1 > H.n)) {
        bool ext1 = (n1 == 0 || n1 == NPOS);
        for (size_t p2 : g2) {
            if (p1 > H.n && p2 != 0 && p2 != NPOS) continue;
            if (p2 > N.n && !ext1) continue;
            for (size_t n2 : counts(g2, p1 > H.n || p2 > N.n))
                cmp_entry(o, [&] { return h.compare(p1, n1, n, p2, n2); });
        }
    }
    return o;
}

// ------------------------------------------------------------------ find family
#define FAMILY(fn)                                                                             \
    template <class SV> std::string op_##fn(const Buf& H, const Buf& N) {                      \
        SV h = mk<SV>(H), n = mk<SV>(N);                                                       \
        std::vector<size_t> g = grid(H.n);                                                     \
        std::string o = "v=";                                                                  \
        for (size_t pos : g) { put_num(o, h.fn(n, pos)); o += ','; }                           \
        o += " z=";                                                                            \
        for (size_t pos : g) { put_num(o, h.fn(N.z, pos)); o += ','; }                         \
        o += " c=";                                                                            \
        if (N.n) { for (size_t pos : g) { put_num(o, h.fn(N.z[0], pos)); o += ','; } }         \
        else o += '-';                                                                         \
        o += " d="; put_num(o, h.fn(n)); o += ','; put_num(o, h.fn(N.z)); o += ',';            \
        if (N.n) put_num(o, h.fn(N.z[0])); else o += '-';                                      \
        o += " p=";                                                                            \
        for (size_t n2 = 0; n2 <= N.n; ++n2) {                                                 \
            for (size_t pos : g) { put_num(o, h.fn(N.z, pos, n2)); o += ','; }                 \
            o += ';';                                                                          \
        }                                                                                      \
        return o;                                                                              \
    }
FAMILY(find)
FAMILY(rfind)
FAMILY(find_first_of)
FAMILY(find_last_of)
FAMILY(find_first_not_of)
FAMILY(find_last_not_of)

// ------------------------------------------------------------------ starts/ends_with
template <class SV> std::string op_sw(const Buf& H, const Buf& N) {
    SV h = mk<SV>(H), n = mk<SV>(N);
    std::string o = "sw=";
    o += h.starts_with(n) ? '1' : '0';
    if (N.n) o += h.starts_with(N.z[0]) ? '1' : '0'; else o += '-';
    o += " ew=";
    o += h.ends_with(n) ? '1' : '0';
    if (N.n) o += h.ends_with(N.z[0]) ? '1' : '0'; else o += '-';
    return o;
}

// ------------------------------------------------------------------ substr / copy / remove_*
template <class SV> std::string op_substr(const Buf& H) {
    SV h = mk<SV>(H);
    std::string o = "s=";
    std::vector<size_t> g = grid(H.n);
    for (size_t pos : g) for (size_t n : counts(g, pos > H.n)) {
        try {
            SV r = h.substr(pos, n);
            put_num(o, static_cast<size_t>(r.data() - h.data())); o += ':'; put_hex(o, r.data(), r.size());
        }
        catch (const std::out_of_range&) { o += 'X'; }
        catch (const std::exception&) { o += 'E'; }
        o += ',';
    }
    // default count
    o += " d=";
    for (size_t pos : g) {
        try { SV r = h.substr(pos); put_num(o, static_cast<size_t>(r.data() - h.data())); o += ':'; put_hex(o, r.data(), r.size()); }
        catch (const std::out_of_range&) { o += 'X'; }
        catch (const std::exception&) { o += 'E'; }
        o += ',';
    }
    return o;
}

template <class SV> std::string op_copy(const Buf& H) {
    SV h = mk<SV>(H);
    std::string o = "c=";
    std::vector<size_t> g = grid(H.n);
    for (size_t pos : g) for (size_t n : counts(g, pos > H.n)) {
        // the destination is exactly as large as the standard says will be written
        size_t room = pos <= H.n ? std::min(n, H.n - pos) : 0;
        char* dst = new char[room];
        std::memset(dst, '?', room);
        try {
            size_t r = h.copy(dst, n, pos);
            put_num(o, r); o += ':'; put_hex(o, dst, room);
        }
        catch (const std::out_of_range&) { o += 'X'; }
        catch (const std::exception&) { o += 'E'; }
        delete[] dst;
        o += ',';
    }
    o += " d=";   // default position
    for (size_t n : g) {
        size_t room = std::min(n, H.n);
        char* dst = new char[room];
        std::memset(dst, '?', room);
        try { size_t r = h.copy(dst, n); put_num(o, r); o += ':'; put_hex(o, dst, room); }
        catch (const std::out_of_range&) { o += 'X'; }
        catch (const std::exception&) { o += 'E'; }
        delete[] dst;
        o += ',';
    }
    return o;
}

template <class SV> std::string op_rm(const Buf& H) {
    SV h = mk<SV>(H);
    std::string o = "p=";
    // remove_prefix/suffix(n) with n > size() is undefined for std::string_view: not executed
    for (size_t n = 0; n <= H.n; ++n) {
        SV r = h; r.remove_prefix(n);
        put_num(o, static_cast<size_t>(r.data() - h.data())); o += ':'; put_hex(o, r.data(), r.size()); o += ',';
    }
    o += " s=";
    for (size_t n = 0; n <= H.n; ++n) {
        SV r = h; r.remove_suffix(n);
        put_num(o, static_cast<size_t>(r.data() - h.data())); o += ':'; put_hex(o, r.data(), r.size()); o += ',';
    }
    return o;
}

// ------------------------------------------------------------------ element access, conversion, iteration
template <class SV> std::string op_acc(const Buf& H, const Buf& N) {
    SV h = mk<SV>(H), n = mk<SV>(N);
    std::string o = "at=";
    for (size_t i : grid(H.n)) {
        try { char c = h.at(i); put_hex(o, &c, 1); }
        catch (const std::out_of_range&) { o += 'X'; }
        catch (const std::exception&) { o += 'E'; }
        o += ',';
    }
    o += " ix=";
    for (size_t i = 0; i < H.n; ++i) { char c = h[i]; put_hex(o, &c, 1); }
    if (!H.n) o += '-';
    o += " fb=";
    if (H.n) { char c = h.front(); put_hex(o, &c, 1); c = h.back(); put_hex(o, &c, 1); }
    else o += 'u';   // undefined on an empty view
    o += " str="; put_hex(o, std::string(h));
    o += " ts=";
    if constexpr (is_tlx<SV>::value) put_hex(o, h.to_string()); else put_hex(o, std::string(h.data(), h.size()));
    o += " sz="; put_num(o, h.size()); o += ','; put_num(o, h.length()); o += ','; o += h.empty() ? '1' : '0';
    o += " it="; put_hex(o, std::string(h.begin(), h.end())); o += ','; put_hex(o, std::string(h.cbegin(), h.cend()));
    o += " rit="; put_hex(o, std::string(h.rbegin(), h.rend())); o += ','; put_hex(o, std::string(h.crbegin(), h.crend()));
    o += " swap=";
    { SV a = h, b = n; a.swap(b); put_hex(o, a.data(), a.size()); o += ','; put_hex(o, b.data(), b.size()); }
    o += " conv=";   // round trip through the other view type / std::string
    { std::string s(h.data(), h.size()); SV a(s); put_hex(o, a.data(), a.size());
      o += ','; SV b(N.z); put_hex(o, b.data(), b.size()); }
    return o;
}

// ------------------------------------------------------------------ dispatch
template <class SV> static bool dispatch(const std::string& op, const Buf& H, const Buf& N, bool haveN, std::string& out) {
    if (op == "substr") { out = op_substr<SV>(H); return true; }
    if (op == "copy") { out = op_copy<SV>(H); return true; }
    if (op == "rm") { out = op_rm<SV>(H); return true; }
    if (!haveN) return false;
    if (op == "cmp") out = op_cmp<SV>(H, N);
    else if (op == "cmp3") out = op_cmp3<SV>(H, N);
    else if (op == "cmp5") out = op_cmp5<SV>(H, N);
    else if (op == "find") out = op_find<SV>(H, N);
    else if (op == "rfind") out = op_rfind<SV>(H, N);
    else if (op == "ffo") out = op_find_first_of<SV>(H, N);
    else if (op == "flo") out = op_find_last_of<SV>(H, N);
    else if (op == "ffno") out = op_find_first_not_of<SV>(H, N);
    else if (op == "flno") out = op_find_last_not_of<SV>(H, N);
    else if (op == "sw") out = op_sw<SV>(H, N);
    else if (op == "acc") out = op_acc<SV>(H, N);
    else return false;
    return true;
}

static const char* OPS2[] = {"cmp", "cmp3", "cmp5", "find", "rfind", "ffo", "flo", "ffno", "flno", "sw", "acc"};
static const char* OPS1[] = {"substr", "copy", "rm"};

// first space-separated group in which two answers differ, with a window around the
// first differing character
static std::string first_diff(const std::string& a, const std::string& b) {
    std::vector<std::string> ta = vh::tokens(a), tb = vh::tokens(b);
    for (size_t i = 0; i < ta.size() && i < tb.size(); ++i)
        if (ta[i] != tb[i]) {
            std::string name = ta[i].substr(0, ta[i].find('='));
            size_t k = 0;
            while (k < ta[i].size() && k < tb[i].size() && ta[i][k] == tb[i][k]) ++k;
            size_t from = k > 24 ? k - 24 : 0;
            std::string x = ta[i].substr(from, 60), y = tb[i].substr(from, 60);
            return name + " @" + std::to_string(k) + " tlx " + (from ? "..." : "") + x + " std " + (from ? "..." : "") + y;
        }
    return "length";
}

static void death() {
    if (!g_current.empty()) { std::cout << "#DIED-IN " << g_current << '\n' << std::flush; }
}
static void on_terminate() {
    std::cout << "#VIOL terminate std::terminate called (exception escaping a noexcept function?) in " << g_current << '\n' << std::flush;
    death();
    std::abort();
}

// an operation that no longer terminates must not hang the check: 2 s of CPU time per line
static void on_vtalarm(int) {
    static const char m[] = "#VIOL hang: an operation used more than 2 s of CPU time\n";
    ssize_t r = write(1, m, sizeof(m) - 1);
    (void)r;
    _exit(3);
}
static void arm(long sec) {
    struct itimerval tv;
    tv.it_interval.tv_sec = 0; tv.it_interval.tv_usec = 0;
    tv.it_value.tv_sec = sec; tv.it_value.tv_usec = 0;
    setitimer(ITIMER_VIRTUAL, &tv, nullptr);
}

static int run() {
    std::string line;
    Buf H, N;
    std::signal(SIGVTALRM, on_vtalarm);
    while (std::getline(std::cin, line)) {
        arm(2);
        std::vector<std::string> t = vh::tokens(line);
        if (t.empty()) { vh::answer(""); continue; }
        if (t[0] == "case") { vh::answer("case"); continue; }
        if (t[0][0] == '#') { vh::answer(line); continue; }
        if (t.size() < 3 || (t[0] != "t" && t[0] != "s")) { vh::answer("bad-op"); continue; }
        bool haveN = t.size() >= 4;
        if (!parse_bytes(t[2], H) || (haveN && !parse_bytes(t[3], N))) { vh::answer("bad-op"); continue; }
        if (!haveN) N.set("", false);
        g_current = line;
        std::string a, b;
        bool ok;
        if (t[0] == "s") {
            ok = dispatch<std::string_view>(t[1], H, N, haveN, a);
        } else {
            ok = dispatch<tlx::StringView>(t[1], H, N, haveN, a);
            if (ok) {
                dispatch<std::string_view>(t[1], H, N, haveN, b);
                if (a != b) vh::viol(t[1] + " " + first_diff(a, b) + " on hay=" + t[2] + " needle=" + (haveN ? t[3] : "-"));
            }
        }
        g_current.clear();
        vh::answer(ok ? a : "bad-op");
    }
    return 0;
}

// ------------------------------------------------------------------ exhaustive tlx vs std
static void enumerate(const std::vector<unsigned char>& alpha, size_t maxlen, std::vector<std::string>& out) {
    out.push_back("");
    size_t start = 0;
    for (size_t l = 1; l <= maxlen; ++l) {
        size_t end = out.size();
        for (size_t i = start; i < end; ++i)
            for (unsigned char c : alpha) out.push_back(out[i] + static_cast<char>(c));
        start = end;
    }
}
static std::string tok_of(const std::string& s) { std::string o; put_hex(o, s); return o; }

static int exh(size_t maxH, size_t maxN, int asize) {
    std::vector<unsigned char> alpha = {0x00, 'a', 'b', 0x80, 0xFF};
    if (asize == 3) alpha = {0x00, 'a', 0x80};
    std::vector<std::string> hs, ns;
    enumerate(alpha, maxH, hs);
    enumerate(alpha, maxN, ns);
    std::map<std::string, int> classes;
    unsigned long long evals = 0, mism = 0;
    Buf H, N;
    auto check = [&](const char* op, const std::string& line, bool haveN) {
        g_current = line;
        std::string a, b;
        dispatch<tlx::StringView>(op, H, N, haveN, a);
        dispatch<std::string_view>(op, H, N, haveN, b);
        g_current.clear();
        ++evals;
        if (a != b) {
            ++mism;
            std::string d = first_diff(a, b);
            std::string cls = std::string(op) + " " + d.substr(0, d.find(' '));
            if (classes[cls]++ < 2) std::cout << line << '\n' << std::flush;
        }
    };
    for (int nullh = 0; nullh < 2; ++nullh)
        for (const std::string& h : hs) {
            if (nullh && !h.empty()) break;
            H.set(h, nullh != 0);
            std::string ht = nullh ? "null" : tok_of(h);
            N.set("", false);
            for (const char* op : OPS1) check(op, std::string("t ") + op + " " + ht, false);
            for (int nulln = 0; nulln < 2; ++nulln)
                for (const std::string& n : ns) {
                    if (nulln && !n.empty()) break;
                    N.set(n, nulln != 0);
                    std::string nt = nulln ? "null" : tok_of(n);
                    // UBSan's abort path runs no callback of ours: leave a trail
                    std::cout << "#AT " << ht << ' ' << nt << '\n' << std::flush;
                    for (const char* op : OPS2) check(op, std::string("t ") + op + " " + ht + " " + nt, true);
                }
        }
    std::cout << "#EXH evaluated=" << evals << " mismatches=" << mism << " classes=" << classes.size() << '\n' << std::flush;
    return 0;
}

int main(int argc, char** argv) {
    std::ios::sync_with_stdio(false);
    __sanitizer_set_death_callback(death);
    std::set_terminate(on_terminate);
    std::string mode = argc > 1 ? argv[1] : "run";
    if (mode == "run") return run();
    if (mode == "exh" && argc >= 4) return exh(std::stoul(argv[2]), std::stoul(argv[3]), argc > 4 ? std::atoi(argv[4]) : 5);
    std::cerr << "usage: c18 run | exh <maxhay> <maxneedle> [3|5]\n";
    return 2;
}
