// C18 harness: tlx::StringView and std::string_view behind the line protocol.
//
//   c18 run          line protocol (stdin -> stdout), see below
//   c18 exh H N [A]  in-process exhaustive comparison tlx vs std over all haystacks of
//                    length <= H and needles of length <= N over the alphabet
//                    {00,61,62,80,ff} (A = 3 restricts it to {00,61,80}); prints one
//                    reproducing op line per class of disagreement and a summary line
//
// Op lines:  <mode> <op> <hay> [<needle>]
//   mode t = the real tlx::StringView (the Lean *model* answers the same line),
//        s = libstdc++ std::string_view (the Lean *spec* answers the same line).
//   hay / needle: lowercase hex, `-` = empty range at a valid pointer, `null` =
//   default-constructed view (nullptr, 0).
//   Every answer enumerates the full argument grid of the method family:
//   positions / counts range over {0, …, len+1, npos}.
// In mode t the same answer is computed with std::string_view; a difference is a
// `#VIOL` (the property itself fails on the real code).  Entries on which
// std::string_view's behaviour is undefined are not executed and print `u`.
//
// The byte ranges handed to the views are exact-size heap blocks without a
// terminator, so that any read past the range is an ASan error.
#include <algorithm>
#include <cstring>
#include <stdexcept>
#include <string>
#include <string_view>
#include <vector>

#include <sanitizer/common_interface_defs.h>
#include <csignal>
#include <sys/time.h>
#include <unistd.h>

#include "common.hpp"

#define private public
#include <tlx/container/string_view.hpp>
#undef private

static const size_t NPOS = size_t(-1);
static std::string g_current;   // op line being executed (for death reports)

struct Buf {
    char* base = nullptr;  // owned exact-size block of the underlying buffer (nullptr if `null` or aliased)
    char* p = nullptr;     // first byte of the view: inside `base`, or inside another Buf's block (aliased needle)
    char* z = nullptr;     // the bytes of the view + NUL terminator (for the const char* overloads)
    const char* pn = nullptr;  // pointer handed to the (const char*, pos, n) overloads: p when aliased, else z
    size_t n = 0;          // length of the view
    size_t basen = 0;      // length of the underlying buffer
    bool null = false;
    Buf() {}
    Buf(const Buf&) = delete;
    Buf& operator=(const Buf&) = delete;
    ~Buf() { delete[] base; delete[] z; }
    void set_z(const char* src, size_t len) {
        delete[] z;
        z = new char[len + 1];
        if (len) std::memcpy(z, src, len);
        z[len] = 0;
    }
    // the view [off, off+len) of an own exact-size copy of `bytes`
    void set(const std::string& bytes, bool is_null, size_t off = 0, size_t len = size_t(-1)) {
        delete[] base;
        basen = bytes.size(); null = is_null;
        base = is_null ? nullptr : new char[basen];
        if (basen) std::memcpy(base, bytes.data(), basen);
        if (len == size_t(-1)) len = basen - off;
        p = is_null ? nullptr : base + off;
        n = len;
        set_z(bytes.data() + off, len);
        pn = z;
    }
    // the view [off, off+len) of another Buf's underlying buffer (aliasing)
    void alias(const Buf& other, size_t off, size_t len) {
        delete[] base; base = nullptr; basen = 0; null = false;
        p = other.base + off;
        n = len;
        set_z(p, len);
        pn = p;
    }
};

static int hexval(char c) {
    if (c >= '0' && c <= '9') return c - '0';
    if (c >= 'a' && c <= 'f') return c - 'a' + 10;
    if (c >= 'A' && c <= 'F') return c - 'A' + 10;
    return -1;
}
static bool parse_hex(const std::string& tok, std::string& s) {
    s.clear();
    if (tok == "-") return true;
    if (tok.size() % 2) return false;
    for (size_t i = 0; i < tok.size(); i += 2) {
        int a = hexval(tok[i]), c = hexval(tok[i + 1]);
        if (a < 0 || c < 0) return false;
        s.push_back(static_cast<char>(a * 16 + c));
    }
    return true;
}
static bool parse_offlen(const std::string& tok, size_t& off, size_t& len) {
    size_t c = tok.find(':');
    if (c == std::string::npos || c == 0 || c + 1 >= tok.size() || tok.size() > 40) return false;
    for (size_t i = 0; i < tok.size(); ++i) if (i != c && (tok[i] < '0' || tok[i] > '9')) return false;
    off = std::stoull(tok.substr(0, c)); len = std::stoull(tok.substr(c + 1));
    return true;
}
// haystack token: `null` | `-` | <hex> | <hex>@<off>:<len> (a sub-view of the buffer <hex>)
static bool parse_hay(const std::string& tok, Buf& b) {
    if (tok == "null") { b.set("", true); return true; }
    size_t at = tok.find('@');
    std::string s;
    if (!parse_hex(tok.substr(0, at), s)) return false;
    if (at == std::string::npos) { b.set(s, false); return true; }
    size_t off, len;
    if (!parse_offlen(tok.substr(at + 1), off, len) || off > s.size() || len > s.size() - off) return false;
    b.set(s, false, off, len);
    return true;
}
// needle token: as above, or @<off>:<len> = the view [off, off+len) of the *haystack's buffer* (aliasing)
static bool parse_needle(const std::string& tok, const Buf& hay, Buf& b) {
    if (!tok.empty() && tok[0] == '@') {
        size_t off, len;
        if (hay.null || !parse_offlen(tok.substr(1), off, len) || off > hay.basen || len > hay.basen - off) return false;
        b.alias(hay, off, len);
        return true;
    }
    return parse_hay(tok, b);
}
static void put_hex(std::string& o, const char* d, size_t n) {
    static const char* X = "0123456789abcdef";
    if (n == 0) { o += '-'; return; }
    for (size_t i = 0; i < n; ++i) {
        unsigned char c = static_cast<unsigned char>(d[i]);
        o += X[c >> 4]; o += X[c & 15];
    }
}
static void put_hex(std::string& o, const std::string& s) { put_hex(o, s.data(), s.size()); }
static void put_num(std::string& o, size_t v) {
    if (v == NPOS) { o += 'n'; return; }
    o += std::to_string(v);
}
static char sgn(int c) { return c < 0 ? '<' : c > 0 ? '>' : '='; }

static std::vector<size_t> grid(size_t len) {
    std::vector<size_t> g;
    for (size_t i = 0; i <= len + 1; ++i) g.push_back(i);
    g.push_back(NPOS);
    return g;
}

// the count arguments tried for one position: all of them, or only {0, npos} when the
// position is out of range (the call throws whatever the count is)
static std::vector<size_t> counts(const std::vector<size_t>& g, bool out_of_range) {
    if (!out_of_range) return g;
    return std::vector<size_t>{0, NPOS};
}

template <class SV> SV mk(const Buf& b) { return b.null ? SV() : SV(b.p, b.n); }
template <class SV> struct is_tlx { static const bool value = false; };
template <> struct is_tlx<tlx::StringView> { static const bool value = true; };

// one comparison result or X (std::out_of_range) / E (another exception)
template <class F> static void cmp_entry(std::string& o, F f) {
    try { o += sgn(f()); }
    catch (const std::out_of_range&) { o += 'X'; }
    catch (const std::exception&) { o += 'E'; }
}

#define SIX(a, b) do { o += ((a) == (b)) ? '1' : '0'; o += ((a) != (b)) ? '1' : '0'; o += ((a) < (b)) ? '1' : '0'; \
                       o += ((a) > (b)) ? '1' : '0'; o += ((a) <= (b)) ? '1' : '0'; o += ((a) >= (b)) ? '1' : '0'; } while (0)

// ------------------------------------------------------------------ cmp
template <class SV> std::string op_cmp(const Buf& H, const Buf& N) {
    SV h = mk<SV>(H), n = mk<SV>(N);
    std::string ns(N.z, N.n);
    const char* nz = N.z;
    std::string o;
    o += "c="; o += sgn(h.compare(n));
    o += " cz="; o += sgn(h.compare(nz));
    o += " vv="; SIX(h, n);
    o += " vs="; SIX(h, ns);
    o += " sv="; SIX(ns, h);
    o += " vz="; SIX(h, nz);
    o += " zv="; SIX(nz, h);
    return o;
}

// ------------------------------------------------------------------ cmp3 / cmp5
template <class SV> std::string op_cmp3(const Buf& H, const Buf& N) {
    SV h = mk<SV>(H), n = mk<SV>(N);
    std::string o;
    std::vector<size_t> g = grid(H.n);
    o += "v=";
    for (size_t p1 : g) for (size_t n1 : counts(g, p1 > H.n)) cmp_entry(o, [&] { return h.compare(p1, n1, n); });
    o += " z=";
    for (size_t p1 : g) for (size_t n1 : counts(g, p1 > H.n)) cmp_entry(o, [&] { return h.compare(p1, n1, N.z); });
    o += " p=";
    for (size_t n2 = 0; n2 <= N.n; ++n2) {
        for (size_t p1 : g) for (size_t n1 : counts(g, p1 > H.n)) cmp_entry(o, [&] { return h.compare(p1, n1, N.pn, n2); });
        o += ';';
    }
    return o;
}

template <class SV> std::string op_cmp5(const Buf& H, const Buf& N) {
    SV h = mk<SV>(H), n = mk<SV>(N);
    std::string o = "v=";
    std::vector<size_t> g = grid(H.n), g2 = grid(N.n);
    // positions beyond the range throw whatever the other arguments are: they are
    // exercised with the extreme counts only (exceptions are slow under ASan)
    for (size_t p1 : g) for (size_t n1 : counts(g, p1 > H.n)) {
        bool ext1 = (n1 == 0 || n1 == NPOS);
        for (size_t p2 : g2) {
            if (p1 > H.n && p2 != 0 && p2 != NPOS) continue;
            if (p2 > N.n && !ext1) continue;
            for (size_t n2 : counts(g2, p1 > H.n || p2 > N.n))
                cmp_entry(o, [&] { return h.compare(p1, n1, n, p2, n2); });
        }
    }
    return o;
}

// ------------------------------------------------------------------ find family
#define FAMILY(fn)                                                                             \
    template <class SV> std::string op_##fn(const Buf& H, const Buf& N) {                      \
        SV h = mk<SV>(H), n = mk<SV>(N);                                                       \
        std::vector<size_t> g = grid(H.n);                                                     \
        std::string o = "v=";                                                                  \
        for (size_t pos : g) { put_num(o, h.fn(n, pos)); o += ','; }                           \
        o += " z=";                                                                            \
        for (size_t pos : g) { put_num(o, h.fn(N.z, pos)); o += ','; }                         \
        o += " c=";                                                                            \
        if (N.n) { for (size_t pos : g) { put_num(o, h.fn(N.z[0], pos)); o += ','; } }         \
        else o += '-';                                                                         \
        o += " d="; put_num(o, h.fn(n)); o += ','; put_num(o, h.fn(N.z)); o += ',';            \
        if (N.n) put_num(o, h.fn(N.z[0])); else o += '-';                                      \
        o += " p=";                                                                            \
        for (size_t n2 = 0; n2 <= N.n; ++n2) {                                                 \
            for (size_t pos : g) { put_num(o, h.fn(N.pn, pos, n2)); o += ','; }                \
            o += ';';                                                                          \
        }                                                                                      \
        return o;                                                                              \
    }
FAMILY(find)
FAMILY(rfind)
FAMILY(find_first_of)
FAMILY(find_last_of)
FAMILY(find_first_not_of)
FAMILY(find_last_not_of)

// ------------------------------------------------------------------ starts/ends_with
template <class SV> std::string op_sw(const Buf& H, const Buf& N) {
    SV h = mk<SV>(H), n = mk<SV>(N);
    std::string o = "sw=";
    o += h.starts_with(n) ? '1' : '0';
    if (N.n) o += h.starts_with(N.z[0]) ? '1' : '0'; else o += '-';
    o += " ew=";
    o += h.ends_with(n) ? '1' : '0';
    if (N.n) o += h.ends_with(N.z[0]) ? '1' : '0'; else o += '-';
    return o;
}

// ------------------------------------------------------------------ substr / copy / remove_*
template <class SV> std::string op_substr(const Buf& H) {
    SV h = mk<SV>(H);
    std::string o = "s=";
    std::vector<size_t> g = grid(H.n);
    for (size_t pos : g) for (size_t n : counts(g, pos > H.n)) {
        try {
            SV r = h.substr(pos, n);
            put_num(o, static_cast<size_t>(r.data() - h.data())); o += ':'; put_hex(o, r.data(), r.size());
        }
        catch (const std::out_of_range&) { o += 'X'; }
        catch (const std::exception&) { o += 'E'; }
        o += ',';
    }
    // default count
    o += " d=";
    for (size_t pos : g) {
        try { SV r = h.substr(pos); put_num(o, static_cast<size_t>(r.data() - h.data())); o += ':'; put_hex(o, r.data(), r.size()); }
        catch (const std::out_of_range&) { o += 'X'; }
        catch (const std::exception&) { o += 'E'; }
        o += ',';
    }
    return o;
}

template <class SV> std::string op_copy(const Buf& H) {
    SV h = mk<SV>(H);
    std::string o = "c=";
    std::vector<size_t> g = grid(H.n);
    for (size_t pos : g) for (size_t n : counts(g, pos > H.n)) {
        // the destination is exactly as large as the standard says will be written
        size_t room = pos <= H.n ? std::min(n, H.n - pos) : 0;
        char* dst = new char[room];
        std::memset(dst, '?', room);
        try {
            size_t r = h.copy(dst, n, pos);
            put_num(o, r); o += ':'; put_hex(o, dst, room);
        }
        catch (const std::out_of_range&) { o += 'X'; }
        catch (const std::exception&) { o += 'E'; }
        delete[] dst;
        o += ',';
    }
    o += " d=";   // default position
    for (size_t n : g) {
        size_t room = std::min(n, H.n);
        char* dst = new char[room];
        std::memset(dst, '?', room);
        try { size_t r = h.copy(dst, n); put_num(o, r); o += ':'; put_hex(o, dst, room); }
        catch (const std::out_of_range&) { o += 'X'; }
        catch (const std::exception&) { o += 'E'; }
        delete[] dst;
        o += ',';
    }
    return o;
}

template <class SV> std::string op_rm(const Buf& H) {
    SV h = mk<SV>(H);
    std::string o = "p=";
    // remove_prefix/suffix(n) with n > size() is undefined for std::string_view: not executed
    for (size_t n = 0; n <= H.n; ++n) {
        SV r = h; r.remove_prefix(n);
        put_num(o, static_cast<size_t>(r.data() - h.data())); o += ':'; put_hex(o, r.data(), r.size()); o += ',';
    }
    o += " s=";
    for (size_t n = 0; n <= H.n; ++n) {
        SV r = h; r.remove_suffix(n);
        put_num(o, static_cast<size_t>(r.data() - h.data())); o += ':'; put_hex(o, r.data(), r.size()); o += ',';
    }
    return o;
}

// ------------------------------------------------------------------ element access, conversion, iteration
template <class SV> std::string op_acc(const Buf& H, const Buf& N) {
    SV h = mk<SV>(H), n = mk<SV>(N);
    std::string o = "at=";
    for (size_t i : grid(H.n)) {
        try { char c = h.at(i); put_hex(o, &c, 1); }
        catch (const std::out_of_range&) { o += 'X'; }
        catch (const std::exception&) { o += 'E'; }
        o += ',';
    }
    o += " ix=";
    for (size_t i = 0; i < H.n; ++i) { char c = h[i]; put_hex(o, &c, 1); }
    if (!H.n) o += '-';
    o += " fb=";
    if (H.n) { char c = h.front(); put_hex(o, &c, 1); c = h.back(); put_hex(o, &c, 1); }
    else o += 'u';   // undefined on an empty view
    o += " str="; put_hex(o, std::string(h));
    o += " ts=";
    if constexpr (is_tlx<SV>::value) put_hex(o, h.to_string()); else put_hex(o, std::string(h.data(), h.size()));
    o += " sz="; put_num(o, h.size()); o += ','; put_num(o, h.length()); o += ','; o += h.empty() ? '1' : '0';
    o += " it="; put_hex(o, std::string(h.begin(), h.end())); o += ','; put_hex(o, std::string(h.cbegin(), h.cend()));
    o += " rit="; put_hex(o, std::string(h.rbegin(), h.rend())); o += ','; put_hex(o, std::string(h.crbegin(), h.crend()));
    o += " swap=";
    { SV a = h, b = n; a.swap(b); put_hex(o, a.data(), a.size()); o += ','; put_hex(o, b.data(), b.size()); }
    o += " conv=";   // round trip through the other view type / std::string
    { std::string s(h.data(), h.size()); SV a(s); put_hex(o, a.data(), a.size());
      o += ','; SV b(N.z); put_hex(o, b.data(), b.size()); }
    return o;
}

// ------------------------------------------------------------------ dispatch
template <class SV> static bool dispatch(const std::string& op, const Buf& H, const Buf& N, bool haveN, std::string& out) {
    if (op == "substr") { out = op_substr<SV>(H); return true; }
    if (op == "copy") { out = op_copy<SV>(H); return true; }
    if (op == "rm") { out = op_rm<SV>(H); return true; }
    if (!haveN) return false;
    if (op == "cmp") out = op_cmp<SV>(H, N);
    else if (op == "cmp3") out = op_cmp3<SV>(H, N);
    else if (op == "cmp5") out = op_cmp5<SV>(H, N);
    else if (op == "find") out = op_find<SV>(H, N);
    else if (op == "rfind") out = op_rfind<SV>(H, N);
    else if (op == "ffo") out = op_find_first_of<SV>(H, N);
    else if (op == "flo") out = op_find_last_of<SV>(H, N);
    else if (op == "ffno") out = op_find_first_not_of<SV>(H, N);
    else if (op == "flno") out = op_find_last_not_of<SV>(H, N);
    else if (op == "sw") out = op_sw<SV>(H, N);
    else if (op == "acc") out = op_acc<SV>(H, N);
    else return false;
    return true;
}

static const char* OPS2[] = {"cmp", "cmp3", "cmp5", "find", "rfind", "ffo", "flo", "ffno", "flno", "sw", "acc"};
static const char* OPS1[] = {"substr", "copy", "rm"};

// first space-separated group in which two answers differ, with a window around the
// first differing character
static std::string first_diff(const std::string& a, const std::string& b) {
    std::vector<std::string> ta = vh::tokens(a), tb = vh::tokens(b);
    for (size_t i = 0; i < ta.size() && i < tb.size(); ++i)
        if (ta[i] != tb[i]) {
            std::string name = ta[i].substr(0, ta[i].find('='));
            size_t k = 0;
            while (k < ta[i].size() && k < tb[i].size() && ta[i][k] == tb[i][k]) ++k;
            size_t from = k > 24 ? k - 24 : 0;
            std::string x = ta[i].substr(from, 60), y = tb[i].substr(from, 60);
            return name + " @" + std::to_string(k) + " tlx " + (from ? "..." : "") + x + " std " + (from ? "..." : "") + y;
        }
    return "length";
}

static void death() {
    if (!g_current.empty()) { std::cout << "#DIED-IN " << g_current << '\n' << std::flush; }
}
static void on_terminate() {
    std::cout << "#VIOL terminate std::terminate called (exception escaping a noexcept function?) in " << g_current << '\n' << std::flush;
    death();
    std::abort();
}


// ------------------------------------------------------------------ huge views
// Views of lengths around 2^31 / 2^32 into one MAP_NORESERVE anonymous mapping (zero pages
// that are never written, except for a few marker bytes whose positions and values are a
// closed form both sides know).  Op lines:  <mode> h<op> <off>:<len> [<off>:<len> | <hex>] [numbers]
// Every op has a *window contract* (W bytes): the answer must be decided by the bytes within
// W of where the scan starts (or the scan must reach the end of the view within W), so that the
// real code reads only a few bytes; lines outside the contract answer `bad-op` without being
// executed.  The contract is evaluated by a third, windowed implementation reading the mapping.
#include <sys/mman.h>
static const size_t HUGE_SIZE = (size_t(1) << 32) + (size_t(1) << 31) + 4096;
static const size_t HW = 64;
static char* g_huge = nullptr;

static bool huge_marked(size_t i) {
    const size_t a = size_t(1) << 31, b = size_t(1) << 32;
    return i < 16 || (i >= a - 16 && i < a + 16) || (i >= b - 16 && i < b + 16) || (i >= HUGE_SIZE - 16 && i < HUGE_SIZE);
}
static unsigned char huge_byte(size_t i) { return huge_marked(i) ? static_cast<unsigned char>((i * 37 + 11) % 255 + 1) : 0; }

static bool huge_init() {
    if (g_huge) return true;
    void* m = mmap(nullptr, HUGE_SIZE, PROT_READ | PROT_WRITE, MAP_PRIVATE | MAP_ANONYMOUS | MAP_NORESERVE, -1, 0);
    if (m == MAP_FAILED) return false;
    g_huge = static_cast<char*>(m);
    const size_t starts[4] = {0, (size_t(1) << 31) - 16, (size_t(1) << 32) - 16, HUGE_SIZE - 16};
    const size_t lens[4] = {16, 32, 32, 16};
    for (int k = 0; k < 4; ++k)
        for (size_t i = starts[k]; i < starts[k] + lens[k]; ++i) g_huge[i] = static_cast<char>(huge_byte(i));
    return true;
}

struct HV { size_t off, len; };
static bool parse_hv(const std::string& tok, HV& v) {
    return parse_offlen(tok, v.off, v.len) && v.off <= HUGE_SIZE && v.len <= HUGE_SIZE - v.off;
}
static bool parse_count(const std::string& tok, size_t& n) {
    if (tok == "n") { n = NPOS; return true; }
    if (tok.empty() || tok.size() > 19) return false;
    for (char c : tok) if (c < '0' || c > '9') return false;
    n = std::stoull(tok);
    return true;
}
template <class SV> SV hview(const HV& v) { return SV(g_huge + v.off, v.len); }

// windowed reference: sign of compare(v, w), or 2 = outside the contract
static int ref_compare(const HV& v, const HV& w, bool expensive) {
    size_t n = std::min(v.len, w.len);
    // ASan's memcmp interceptor validates the whole common length even when the first bytes
    // differ: common prefixes beyond 1 MiB only in the `expensive` ops (thorough tier)
    if (n > (size_t(1) << 20) && !expensive) return 2;
    for (size_t i = 0; i < n && i < HW; ++i) {
        unsigned char a = static_cast<unsigned char>(g_huge[v.off + i]), b = static_cast<unsigned char>(g_huge[w.off + i]);
        if (a != b) return a < b ? -1 : 1;
    }
    if (n > HW && v.off != w.off) return 2;
    return v.len < w.len ? -1 : v.len > w.len ? 1 : 0;
}
static bool ref_substr(const HV& v, size_t pos, size_t n, HV& r) {
    if (pos > v.len) return false;
    r.off = v.off + pos; r.len = std::min(n, v.len - pos);
    return true;
}
template <class SV> static std::string six_cmp(const SV& a, const SV& b) {
    std::string o;
    o += "c="; o += sgn(a.compare(b)); o += " vv="; SIX(a, b);
    return o;
}
// 0 = found (x), 1 = npos, 2 = outside the contract
static int ref_scan_fwd(const HV& v, size_t pos, const std::string& set, int kind, size_t& x) {
    // kind 0: find(needle=set)   1: find_first_of   2: find_first_not_of
    size_t L = v.len, k = set.size();
    if (kind == 0) {
        if (pos > L) return 1;
        if (k == 0) { x = pos; return 0; }
        if (L < k) return 1;
        size_t last = L - k;
        for (size_t i = pos; i <= last && i <= pos + HW; ++i)
            if (std::memcmp(g_huge + v.off + i, set.data(), k) == 0) { x = i; return 0; }
        return (pos > last || pos + HW >= last) ? 1 : 2;
    }
    if (pos >= L) return 1;
    if (kind == 1 && k == 0) return 1;
    for (size_t i = pos; i < L && i <= pos + HW; ++i) {
        bool in = set.find(g_huge[v.off + i]) != std::string::npos;
        if (in == (kind == 1)) { x = i; return 0; }
    }
    return (pos + HW >= L - 1) ? 1 : 2;
}
static int ref_scan_bwd(const HV& v, size_t pos, const std::string& set, int kind, size_t& x) {
    // kind 0: rfind   1: find_last_of   2: find_last_not_of
    size_t L = v.len, k = set.size();
    size_t start;
    if (kind == 0) {
        if (L < k) return 1;
        start = std::min(pos, L - k);
        if (k == 0) { x = start; return 0; }
    } else {
        if (L == 0) return 1;
        if (kind == 1 && k == 0) return 1;
        start = std::min(pos, L - 1);
    }
    for (size_t d = 0; d <= HW && d <= start; ++d) {
        size_t i = start - d;
        bool hit;
        if (kind == 0) hit = std::memcmp(g_huge + v.off + i, set.data(), k) == 0;
        else hit = (set.find(g_huge[v.off + i]) != std::string::npos) == (kind == 1);
        if (hit) { x = i; return 0; }
    }
    return start <= HW ? 1 : 2;
}

template <class SV> static bool huge_exec(const std::vector<std::string>& t, std::string& o) {
    const std::string& op = t[1];
    HV v, w;
    if (t.size() < 3 || !parse_hv(t[2], v)) return false;
    SV a = hview<SV>(v);
    if ((op == "hcmp" || op == "hcmpx") && t.size() == 4) {
        if (!parse_hv(t[3], w)) return false;
        if (ref_compare(v, w, op == "hcmpx") == 2) return false;
        o = six_cmp(a, hview<SV>(w));
        return true;
    }
    if (op == "hcmp3" && t.size() == 6) {
        size_t p1, n1;
        if (!parse_count(t[3], p1) || !parse_count(t[4], n1) || !parse_hv(t[5], w)) return false;
        HV r;
        if (ref_substr(v, p1, n1, r) && ref_compare(r, w, false) == 2) return false;
        o = "c=";
        cmp_entry(o, [&] { return a.compare(p1, n1, hview<SV>(w)); });
        return true;
    }
    if (op == "hcmp5" && t.size() == 8) {
        size_t p1, n1, p2, n2;
        if (!parse_count(t[3], p1) || !parse_count(t[4], n1) || !parse_hv(t[5], w) || !parse_count(t[6], p2) ||
            !parse_count(t[7], n2)) return false;
        HV r1, r2;
        if (ref_substr(v, p1, n1, r1) && ref_substr(w, p2, n2, r2) && ref_compare(r1, r2, false) == 2) return false;
        o = "c=";
        cmp_entry(o, [&] { return a.compare(p1, n1, hview<SV>(w), p2, n2); });
        return true;
    }
    if (op == "hsub" && t.size() == 5) {
        size_t pos, n;
        if (!parse_count(t[3], pos) || !parse_count(t[4], n)) return false;
        try {
            SV r = a.substr(pos, n);
            put_num(o, static_cast<size_t>(r.data() - a.data())); o += ':'; put_num(o, r.size()); o += ':';
            put_hex(o, r.data(), std::min<size_t>(r.size(), 4));
        }
        catch (const std::out_of_range&) { o = "X"; }
        return true;
    }
    if (op == "hrm" && t.size() == 4) {
        size_t n;
        if (!parse_count(t[3], n) || n > v.len) return false;
        SV r = a; r.remove_prefix(n);
        put_num(o, static_cast<size_t>(r.data() - a.data())); o += ':'; put_num(o, r.size());
        SV q = a; q.remove_suffix(n);
        o += ' '; put_num(o, static_cast<size_t>(q.data() - a.data())); o += ':'; put_num(o, q.size());
        return true;
    }
    if (op == "hat" && t.size() == 4) {
        size_t pos;
        if (!parse_count(t[3], pos)) return false;
        o = "at=";
        try { char c = a.at(pos); put_hex(o, &c, 1); } catch (const std::out_of_range&) { o += 'X'; }
        o += " ix=";
        if (pos < v.len) { char c = a[pos]; put_hex(o, &c, 1); } else o += 'u';
        o += " fb=";
        if (v.len) { char c = a.front(); put_hex(o, &c, 1); c = a.back(); put_hex(o, &c, 1); } else o += 'u';
        o += " sz="; put_num(o, a.size()); o += ','; put_num(o, a.length()); o += ','; o += a.empty() ? '1' : '0';
        return true;
    }
    if (op == "hcopy" && t.size() == 5) {
        size_t n, pos;
        if (!parse_count(t[3], n) || !parse_count(t[4], pos) || n > 32) return false;
        size_t room = pos <= v.len ? std::min(n, v.len - pos) : 0;
        char* dst = new char[room];
        std::memset(dst, '?', room);
        try { size_t r = a.copy(dst, n, pos); put_num(o, r); o += ':'; put_hex(o, dst, room); }
        catch (const std::out_of_range&) { o = "X"; }
        delete[] dst;
        return true;
    }
    if (op == "hsw" && t.size() == 4) {
        if (!parse_hv(t[3], w)) return false;
        // starts_with / ends_with compare |w| bytes: decided within the window, or trivially by the lengths
        if (w.len <= v.len) {
            HV head = {v.off, w.len}, tail = {v.off + (v.len - w.len), w.len};
            if (ref_compare(head, w, false) == 2 || ref_compare(tail, w, false) == 2) return false;
        }
        SV b = hview<SV>(w);
        o = "sw="; o += a.starts_with(b) ? '1' : '0'; o += " ew="; o += a.ends_with(b) ? '1' : '0';
        return true;
    }
    int kind = -1; bool fwd = true;
    if (op == "hfind") kind = 0; else if (op == "hffo") kind = 1; else if (op == "hffno") kind = 2;
    else if (op == "hrfind") { kind = 0; fwd = false; } else if (op == "hflo") { kind = 1; fwd = false; }
    else if (op == "hflno") { kind = 2; fwd = false; }
    if (kind >= 0 && t.size() == 5) {
        std::string set; size_t pos, x = 0;
        if (!parse_hex(t[3], set) || set.size() > 16 || !parse_count(t[4], pos)) return false;
        int rc = fwd ? ref_scan_fwd(v, pos, set, kind, x) : ref_scan_bwd(v, pos, set, kind, x);
        if (rc == 2) return false;
        Buf N; N.set(set, false);
        SV n = mk<SV>(N);
        size_t r;
        if (op == "hfind") r = a.find(n, pos); else if (op == "hffo") r = a.find_first_of(n, pos);
        else if (op == "hffno") r = a.find_first_not_of(n, pos); else if (op == "hrfind") r = a.rfind(n, pos);
        else if (op == "hflo") r = a.find_last_of(n, pos); else r = a.find_last_not_of(n, pos);
        put_num(o, r);
        return true;
    }
    return false;
}

// answers the line (returns false if the token list is not a huge-view op at all)
static bool huge_op(const std::vector<std::string>& t, const std::string& line) {
    static const char* names[] = {"hcmp", "hcmpx", "hcmp3", "hcmp5", "hsub", "hrm", "hat", "hcopy", "hsw", "hfind",
                                  "hffo", "hffno", "hrfind", "hflo", "hflno"};
    bool known = false;
    for (const char* n : names) if (t[1] == n) known = true;
    if (!known) return false;
    if (!huge_init()) { vh::answer("bad-op"); return true; }   // no address space: nothing is claimed
    g_current = line;
    std::string a, b;
    bool ok;
    if (t[0] == "s") ok = huge_exec<std::string_view>(t, a);
    else {
        ok = huge_exec<tlx::StringView>(t, a);
        if (ok) {
            huge_exec<std::string_view>(t, b);
            if (a != b) vh::viol(t[1] + " " + first_diff(a, b) + " on huge views: " + line);
        }
    }
    g_current.clear();
    vh::answer(ok ? a : "bad-op");
    return true;
}

// an operation that no longer terminates must not hang the check: 2 s of CPU time per line
static void on_vtalarm(int) {
    static const char m[] = "#VIOL hang: an operation used more than 2 s of CPU time\n";
    ssize_t r = write(1, m, sizeof(m) - 1);
    (void)r;
    _exit(3);
}
static void arm(long sec) {
    struct itimerval tv;
    tv.it_interval.tv_sec = 0; tv.it_interval.tv_usec = 0;
    tv.it_value.tv_sec = sec; tv.it_value.tv_usec = 0;
    setitimer(ITIMER_VIRTUAL, &tv, nullptr);
}

static int run() {
    std::string line;
    Buf H, N;
    std::signal(SIGVTALRM, on_vtalarm);
    while (std::getline(std::cin, line)) {
        arm(2);
        std::vector<std::string> t = vh::tokens(line);
        if (t.empty()) { vh::answer(""); continue; }
        if (t[0] == "case") { vh::answer("case"); continue; }
        if (t[0][0] == '#') { vh::answer(line); continue; }
        if (t.size() < 3 || (t[0] != "t" && t[0] != "s")) { vh::answer("bad-op"); continue; }
        bool haveN = t.size() >= 4;
        if (t.size() > 1 && t[1] == "hcmpx") arm(120);   // scans gigabytes of zero pages on purpose
        if (t[1].size() > 1 && t[1][0] == 'h' && huge_op(t, line)) continue;
        if (!parse_hay(t[2], H) || (haveN && !parse_needle(t[3], H, N))) { vh::answer("bad-op"); continue; }
        if (!haveN) N.set("", false);
        g_current = line;
        std::string a, b;
        bool ok;
        if (t[0] == "s") {
            ok = dispatch<std::string_view>(t[1], H, N, haveN, a);
        } else {
            ok = dispatch<tlx::StringView>(t[1], H, N, haveN, a);
            if (ok) {
                dispatch<std::string_view>(t[1], H, N, haveN, b);
                if (a != b) vh::viol(t[1] + " " + first_diff(a, b) + " on hay=" + t[2] + " needle=" + (haveN ? t[3] : "-"));
            }
        }
        g_current.clear();
        vh::answer(ok ? a : "bad-op");
    }
    return 0;
}

// ------------------------------------------------------------------ exhaustive tlx vs std
static void enumerate(const std::vector<unsigned char>& alpha, size_t maxlen, std::vector<std::string>& out) {
    out.push_back("");
    size_t start = 0;
    for (size_t l = 1; l <= maxlen; ++l) {
        size_t end = out.size();
        for (size_t i = start; i < end; ++i)
            for (unsigned char c : alpha) out.push_back(out[i] + static_cast<char>(c));
        start = end;
    }
}
static std::string tok_of(const std::string& s) { std::string o; put_hex(o, s); return o; }

static int exh(size_t maxH, size_t maxN, int asize) {
    std::vector<unsigned char> alpha = {0x00, 'a', 'b', 0x80, 0xFF};
    if (asize == 3) alpha = {0x00, 'a', 0x80};
    std::vector<std::string> hs, ns;
    enumerate(alpha, maxH, hs);
    enumerate(alpha, maxN, ns);
    std::map<std::string, int> classes;
    unsigned long long evals = 0, mism = 0;
    Buf H, N;
    auto check = [&](const char* op, const std::string& line, bool haveN) {
        g_current = line;
        std::string a, b;
        dispatch<tlx::StringView>(op, H, N, haveN, a);
        dispatch<std::string_view>(op, H, N, haveN, b);
        g_current.clear();
        ++evals;
        if (a != b) {
            ++mism;
            std::string d = first_diff(a, b);
            std::string cls = std::string(op) + " " + d.substr(0, d.find(' '));
            if (classes[cls]++ < 2) std::cout << line << '\n' << std::flush;
        }
    };
    for (int nullh = 0; nullh < 2; ++nullh)
        for (const std::string& h : hs) {
            if (nullh && !h.empty()) break;
            H.set(h, nullh != 0);
            std::string ht = nullh ? "null" : tok_of(h);
            N.set("", false);
            for (const char* op : OPS1) check(op, std::string("t ") + op + " " + ht, false);
            for (int nulln = 0; nulln < 2; ++nulln)
                for (const std::string& n : ns) {
                    if (nulln && !n.empty()) break;
                    N.set(n, nulln != 0);
                    std::string nt = nulln ? "null" : tok_of(n);
                    // UBSan's abort path runs no callback of ours: leave a trail
                    std::cout << "#AT " << ht << ' ' << nt << '\n' << std::flush;
                    for (const char* op : OPS2) check(op, std::string("t ") + op + " " + ht + " " + nt, true);
                }
        }
    std::cout << "#EXH evaluated=" << evals << " mismatches=" << mism << " classes=" << classes.size() << '\n' << std::flush;
    return 0;
}

// all buffers up to a length bound, haystack = every sub-view, needle = every sub-view of the
// same buffer (needle inside / overlapping / before / behind the haystack, same pointer with a
// different length, self)
static int exh_alias(size_t maxB, int asize) {
    std::vector<unsigned char> alpha = {0x00, 'a', 'b', 0x80, 0xFF};
    if (asize == 3) alpha = {0x00, 'a', 0x80};
    if (asize == 2) alpha = {'a', 'b'};
    std::vector<std::string> bs;
    enumerate(alpha, maxB, bs);
    std::map<std::string, int> classes;
    unsigned long long evals = 0, mism = 0;
    Buf H, N;
    for (const std::string& buf : bs) {
        std::string bt = tok_of(buf);
        for (size_t o1 = 0; o1 <= buf.size(); ++o1) for (size_t l1 = 0; o1 + l1 <= buf.size(); ++l1) {
            H.set(buf, false, o1, l1);
            std::string ht = bt + "@" + std::to_string(o1) + ":" + std::to_string(l1);
            std::cout << "#AT " << ht << " -" << '\n' << std::flush;
            for (size_t o2 = 0; o2 <= buf.size(); ++o2) for (size_t l2 = 0; o2 + l2 <= buf.size(); ++l2) {
                N.alias(H, o2, l2);
                std::string nt = "@" + std::to_string(o2) + ":" + std::to_string(l2);
                for (const char* op : OPS2) {
                    std::string line = std::string("t ") + op + " " + ht + " " + nt;
                    g_current = line;
                    std::string a, b;
                    dispatch<tlx::StringView>(op, H, N, true, a);
                    dispatch<std::string_view>(op, H, N, true, b);
                    g_current.clear();
                    ++evals;
                    if (a != b) {
                        ++mism;
                        std::string d = first_diff(a, b);
                        std::string cls = std::string(op) + " " + d.substr(0, d.find(' '));
                        if (classes[cls]++ < 2) std::cout << line << '\n' << std::flush;
                    }
                }
            }
        }
    }
    std::cout << "#EXH evaluated=" << evals << " mismatches=" << mism << " classes=" << classes.size() << '\n' << std::flush;
    return 0;
}

int main(int argc, char** argv) {
    std::ios::sync_with_stdio(false);
    __sanitizer_set_death_callback(death);
    std::set_terminate(on_terminate);
    std::string mode = argc > 1 ? argv[1] : "run";
    if (mode == "run") return run();
    if (mode == "exh" && argc >= 4) return exh(std::stoul(argv[2]), std::stoul(argv[3]), argc > 4 ? std::atoi(argv[4]) : 5);
    if (mode == "exha" && argc >= 3) return exh_alias(std::stoul(argv[2]), argc > 3 ? std::atoi(argv[3]) : 5);
    if (mode == "hprobe") { std::cout << (huge_init() ? "huge-ok" : "huge-unavailable") << '\n'; return 0; }
    std::cerr << "usage: c18 run | exh <maxhay> <maxneedle> [3|5] | exha <maxbuf> [2|3|5] | hprobe\n";
    return 2;
}
