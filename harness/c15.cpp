// C15 harness: the real tlx sorting networks behind the line protocol.
//
//   c15 run                       line protocol on stdin/stdout
//   c15 zofails [max-per-network] enumerate all 2^n zero-one inputs of every family, entry
//                                 point and n = 0..16 on the real code and print one
//                                 `run ...` line per failing input (the search of DESIGN §3)
//
// Protocol:
//   run <family> <direct|dispatch> <n> <lt|gt|q4|def> <k0,k1,...|->
//        elements are (key, tag = original position); order lt: key<, gt: key>, q4: key/4 <
//        (many equivalent-but-distinct keys), def: the entry point's *default* cswap /
//        comparator (operator< of the element = key<).  Answer: `key:tag,...` after the call.
//        Direct oracle: the answer is a permutation of the input, in non-decreasing order.
//   zo <family> <direct|dispatch> <n>
//        all 2^n zero-one inputs through the real code (input m puts bit n-1-k of m on position k,
//        the numbering of the model's `wiresRec`); answer `fails=<#unsorted outputs>
//        sig=<fnv64 of the bit-parallel output words>` (compared with the model's
//        bit-parallel evaluation, i.e. with the object of the `decide +kernel` theorems).
#include "c15_entry.hpp"
#include "common.hpp"

#include <algorithm>

struct Elem {
    long long key;
    int tag;
    bool operator<(const Elem& o) const { return key < o.key; }
};

struct CmpLt { bool operator()(const Elem& a, const Elem& b) const { return a.key < b.key; } };
struct CmpGt { bool operator()(const Elem& a, const Elem& b) const { return a.key > b.key; } };
static long long fdiv4(long long k) { return k >= 0 ? k / 4 : -((-k + 3) / 4); }
struct CmpQ4 { bool operator()(const Elem& a, const Elem& b) const { return fdiv4(a.key) < fdiv4(b.key); } };

static bool less_by(const std::string& ord, const Elem& a, const Elem& b) {
    if (ord == "gt") return CmpGt()(a, b);
    if (ord == "q4") return CmpQ4()(a, b);
    return CmpLt()(a, b);
}

// heap array of exactly n elements: any access outside a[0..n) is an ASan report
static bool run_real(int fam, int entry, int n, const std::string& ord, std::vector<Elem>& v) {
    Elem* a = v.data();
    if (ord == "lt") return c15::call(fam, entry, n, a, CmpLt());
    if (ord == "gt") return c15::call(fam, entry, n, a, CmpGt());
    if (ord == "q4") return c15::call(fam, entry, n, a, CmpQ4());
#ifndef C15_NO_DEFAULT
    if (ord == "def") return entry == 0 ? c15::call_direct_default(fam, n, a) : c15::call_dispatch_default(fam, n, a);
#endif
    return false;
}

static std::string show(const std::vector<Elem>& v) {
    if (v.empty()) return "-";
    std::ostringstream os;
    for (size_t i = 0; i < v.size(); ++i) os << (i ? "," : "") << v[i].key << ':' << v[i].tag;
    return os.str();
}

static int entry_of(const std::string& s) { return s == "direct" ? 0 : (s == "dispatch" ? 1 : -1); }

static bool sorted01(const std::vector<Elem>& v) {
    for (size_t i = 1; i < v.size(); ++i)
        if (v[i].key < v[i - 1].key) return false;
    return true;
}

static int zofails(int maxper) {
    for (int fam = 0; fam < 3; ++fam)
        for (int entry = 0; entry < 2; ++entry)
            for (int n = 0; n <= 16; ++n) {
                if (!c15::exists(fam, entry, n)) continue;
                int found = 0;
                std::vector<Elem> v(n);
                for (unsigned long m = 0; m < (1ul << n) && found < maxper; ++m) {
                    for (int k = 0; k < n; ++k) { v[k].key = (m >> (n - 1 - k)) & 1; v[k].tag = k; }
                    c15::call(fam, entry, n, v.data(), CmpLt());
                    if (!sorted01(v)) {
                        ++found;
                        std::cout << "run " << c15::family_name[fam] << ' ' << c15::entry_name[entry] << ' ' << n << " lt ";
                        for (int k = 0; k < n; ++k) std::cout << (k ? "," : "") << ((m >> (n - 1 - k)) & 1);
                        std::cout << '\n';
                    }
                }
            }
    return 0;
}

int main(int argc, char** argv) {
    std::string mode = argc > 1 ? argv[1] : "run";
    if (mode == "zofails") return zofails(argc > 2 ? std::atoi(argv[2]) : 1);
    std::string line;
    while (std::getline(std::cin, line)) {
        std::vector<std::string> t = vh::tokens(line);
        if (t.empty()) { vh::answer(""); continue; }
        if (t[0][0] == '#') { vh::answer(line); continue; }
        if (t[0] == "case") { vh::answer("case"); continue; }
        if (t[0] == "run" && t.size() == 6) {
            int fam = c15::family_of(t[1].c_str()), entry = entry_of(t[2]);
            int n = std::atoi(t[3].c_str());
            const std::string& ord = t[4];
            std::vector<long long> keys = vh::csv(t[5]);
            if (fam < 0 || entry < 0 || !c15::exists(fam, entry, n) || int(keys.size()) != n ||
#ifdef C15_NO_DEFAULT
                ord == "def" ||   // the default-cswap calls do not compile against this tree (see checks/c15.py)
#endif
                !(ord == "lt" || ord == "gt" || ord == "q4" || ord == "def")) {
                vh::answer("bad-op");
                continue;
            }
            std::vector<Elem> v(n);
            for (int i = 0; i < n; ++i) { v[i].key = keys[i]; v[i].tag = i; }
            std::vector<Elem> in = v;
            run_real(fam, entry, n, ord, v);
            vh::answer(show(v));
            // direct oracle: sorted permutation
            std::string eff = ord == "def" ? "lt" : ord;
            for (int i = 1; i < n; ++i)
                if (less_by(eff, v[i], v[i - 1])) {
                    vh::viol("not-sorted " + t[1] + " " + t[2] + " n=" + t[3] + " ord=" + ord + " pos=" + std::to_string(i) +
                             " input=" + t[5] + " output=" + show(v));
                    break;
                }
            std::vector<std::pair<long long, int> > x, y;
            for (int i = 0; i < n; ++i) { x.push_back({in[i].key, in[i].tag}); y.push_back({v[i].key, v[i].tag}); }
            std::sort(x.begin(), x.end());
            std::sort(y.begin(), y.end());
            if (x != y)
                vh::viol("not-a-permutation " + t[1] + " " + t[2] + " n=" + t[3] + " ord=" + ord + " input=" + t[5] + " output=" + show(v));
            continue;
        }
        if (t[0] == "zo" && t.size() == 4) {
            int fam = c15::family_of(t[1].c_str()), entry = entry_of(t[2]);
            int n = std::atoi(t[3].c_str());
            if (fam < 0 || entry < 0 || !c15::exists(fam, entry, n)) { vh::answer("bad-op"); continue; }
            size_t limbs = n <= 6 ? 1 : (size_t(1) << (n - 6));
            std::vector<std::vector<uint64_t> > W(n, std::vector<uint64_t>(limbs, 0));
            unsigned long fails = 0;
            std::vector<Elem> v(n);
            for (unsigned long m = 0; m < (1ul << n); ++m) {
                for (int k = 0; k < n; ++k) { v[k].key = (m >> (n - 1 - k)) & 1; v[k].tag = k; }
                c15::call(fam, entry, n, v.data(), CmpLt());
                if (!sorted01(v)) ++fails;
                for (int k = 0; k < n; ++k)
                    if (v[k].key) W[k][m >> 6] |= uint64_t(1) << (m & 63);
            }
            uint64_t h = 14695981039346656037ULL;
            for (int k = 0; k < n; ++k)
                for (size_t l = 0; l < limbs; ++l) h = (h ^ W[k][l]) * 1099511628211ULL;
            vh::answer("fails=" + std::to_string(fails) + " sig=" + std::to_string(h));
            continue;
        }
        vh::answer("bad-op");
    }
    return 0;
}
