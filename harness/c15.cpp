// C15 harness: the real tlx sorting networks behind the line protocol.
//
//   c15 run                       line protocol on stdin/stdout
//   c15 zofails [max-per-network] enumerate all 2^n zero-one inputs of every family, entry point,
//                                 n = 0..16 and iterator kind on the real code and print one
//                                 `run` / `runi` line per failing input (the search of DESIGN §3)
//
// Elements are (key, tag = original position) with *observable move semantics*: a moved-from
// element is poisoned (key = -999999937, tag = -1), so a compare-exchange that reads a moved-from
// object, drops one of two equivalent elements or forgets a write-back is visible in the output.
//
// Protocol:
//   run <family> <direct|dispatch> <n> <lt|gt|q4|def> <k0,k1,...|->
//        through a plain pointer.  order lt: key<, gt: key>, q4: key/4 < (many equivalent-but-
//        distinct keys), def: the entry point's *default* cswap / comparator (operator< = key<).
//        Answer: `key:tag,...` after the call.  Direct oracle: the answer is in non-decreasing
//        order and is a permutation of the input *elements* (every tag once, with its own key).
//        Comparator *carriers* (pointer runs only): `fn-<o>` / `fnt-<o>` pass the order inside a
//        std::function (lvalue / temporary); `own-<o>` / `ownt-<o>` inside `OwnCmp`, an object that
//        owns a heap rank table and whose move constructor / assignment empties the source and
//        marks it moved-from (copies are fine); `ownd` = a default-constructed OwnCmp through the
//        entry point's default argument.  <o> = lt|gt|q4|rk, rk = order by the rank table (a
//        permutation of key mod 32).  A moved-from OwnCmp that is called is flagged and silently
//        falls back to key< ; a thrown exception (std::bad_function_call) is a violation.
//        Construction patterns of a *named* compare-exchange object for the direct entry points (LESSONS 8,
//        a CS_IfSwap that only keeps a reference to its comparator dangles in all of them): `nown-<o>`
//        CS_IfSwap<OwnCmp> cs{OwnCmp(o)} built from a temporary, `fact-<o>` returned by value from a factory,
//        `scop-<o>` heap-allocated from a local comparator whose scope ends before the sort, `fconv-<o>`
//        CS_IfSwap<std::function> built from a plain functor (implicit conversion), `fp-<o>` a function
//        pointer comparator (direct: named CS_IfSwap<fp>, dispatch: passed to sort()), `dnam` a named
//        default-constructed CS_IfSwap<OwnCmp>.  OwnCmp's destructor poisons its table and marks the object,
//        and the stack is scribbled over between construction and use.
//   runi <ptr|rev|deque|stride> <variant> <family> <direct|dispatch> <n> <ord> <keys>
//        the same through another random-access iterator kind (c15_entry.hpp `Seq`):
//        rev = std::reverse_iterator over a slice in the middle of a larger buffer, deque =
//        std::deque iterators with the elements straddling a block boundary (variant moves the
//        split), stride = user-defined iterator with stride 3.  Same answer as `run`; additional
//        oracle: every cell outside the sequence is untouched.
//   zo <family> <direct|dispatch> <n> [kind]
//        all 2^n zero-one inputs (with tags) through the real code (input m puts bit n-1-k of m on
//        position k, the numbering of the model's `wiresRec`); answer `fails=<#unsorted outputs>
//        permfails=<#outputs that are not a permutation of the input elements / touched guards>
//        sig=<fnv64 of the bit-parallel output words>` (compared with the model's bit-parallel
//        evaluation, i.e. with the object of the `decide +kernel` theorems).
#include "c15_entry.hpp"
#include "common.hpp"

#include <algorithm>
#include <functional>
#include <memory>

static const long long POISON = -999999937LL;

struct Elem {
    long long key;
    int tag;
    Elem() : key(0), tag(0) {}
    Elem(long long k, int t) : key(k), tag(t) {}
    Elem(const Elem& o) = default;
    Elem& operator=(const Elem& o) = default;
    Elem(Elem&& o) noexcept : key(o.key), tag(o.tag) { o.key = POISON; o.tag = -1; }
    Elem& operator=(Elem&& o) noexcept {
        if (this != &o) { key = o.key; tag = o.tag; o.key = POISON; o.tag = -1; }
        return *this;
    }
    bool operator<(const Elem& o) const { return key < o.key; }
    static Elem guard(long id) { return Elem(-777000000LL - id, int(-1000 - id)); }
    bool same(const Elem& o) const { return key == o.key && tag == o.tag; }
};

static long long fdiv4(long long k) { return k >= 0 ? k / 4 : -((-k + 3) / 4); }
// one comparator type for the three explicit orders (keeps the number of template instantiations down)
struct Cmp {
    char mode;   // 'l' key<, 'g' key>, 'q' key/4 <
    bool operator()(const Elem& a, const Elem& b) const {
        return mode == 'g' ? a.key > b.key : mode == 'q' ? fdiv4(a.key) < fdiv4(b.key) : a.key < b.key;
    }
};

// rank table order: a fixed permutation of key mod 32
static int rank_of(long long key) { return int(((((key % 32) + 32) % 32) * 13 + 5) % 32); }

static unsigned long g_moved_from_calls = 0;

// comparator owning heap memory, with observable move semantics (LESSONS 1, 8): the moved-from object has an
// empty table and is marked; calling it is flagged and silently orders by plain key<
struct OwnCmp {
    std::vector<int> rank;   // rank[k mod 32]
    char mode;               // 'l' 'g' 'q' as Cmp, 'r' by rank table
    bool moved;
    explicit OwnCmp(char m = 'r') : rank(32), mode(m), moved(false) { for (int k = 0; k < 32; ++k) rank[size_t(k)] = rank_of(k); }
    OwnCmp(const OwnCmp&) = default;
    OwnCmp& operator=(const OwnCmp&) = default;
    ~OwnCmp() { for (int& r : rank) r = 31 - r; moved = true; mode = 'x'; }   // a destroyed comparator is recognisable
    OwnCmp(OwnCmp&& o) noexcept : rank(std::move(o.rank)), mode(o.mode), moved(o.moved) { o.rank.clear(); o.moved = true; }
    OwnCmp& operator=(OwnCmp&& o) noexcept {
        if (this != &o) { rank = std::move(o.rank); mode = o.mode; moved = o.moved; o.rank.clear(); o.moved = true; }
        return *this;
    }
    bool operator()(const Elem& a, const Elem& b) const {
        if (moved || rank.size() != 32) { ++g_moved_from_calls; return a.key < b.key; }
        if (mode == 'r') return rank[size_t(((a.key % 32) + 32) % 32)] < rank[size_t(((b.key % 32) + 32) % 32)];
        Cmp c = {mode};
        return c(a, b);
    }
};

typedef std::function<bool(const Elem&, const Elem&)> FnCmp;
typedef bool (*FpCmp)(const Elem&, const Elem&);
static bool fp_lt(const Elem& a, const Elem& b) { return a.key < b.key; }
static bool fp_gt(const Elem& a, const Elem& b) { return a.key > b.key; }
static bool fp_q4(const Elem& a, const Elem& b) { return fdiv4(a.key) < fdiv4(b.key); }

// overwrite the dead part of the stack (storage of temporaries that ended before the sort starts)
__attribute__((noinline)) static unsigned scribble() {
    volatile unsigned char junk[2048];
    for (size_t i = 0; i < sizeof(junk); ++i) junk[i] = 0x5A;
    unsigned s = 0;
    for (size_t i = 0; i < sizeof(junk); i += 97) s += junk[i];
    return s;
}
__attribute__((noinline)) static tlx::sort_networks::CS_IfSwap<OwnCmp> make_cswap(char mode) {
    return tlx::sort_networks::CS_IfSwap<OwnCmp>(OwnCmp(mode));
}
__attribute__((noinline)) static tlx::sort_networks::CS_IfSwap<OwnCmp>* new_cswap_from_local(char mode) {
    OwnCmp local;            // default-constructed, state set afterwards
    local.mode = mode;
    return new tlx::sort_networks::CS_IfSwap<OwnCmp>(local);
}
static volatile unsigned g_sink;

// "fn-lt" -> carrier "fn", base "lt"; "ownd" -> carrier "ownd", base "rk"; "lt" -> carrier "", base "lt"
static bool split_ord(const std::string& ord, std::string& carrier, std::string& base) {
    size_t d = ord.find('-');
    if (ord == "ownd") { carrier = "ownd"; base = "rk"; return true; }
    if (ord == "dnam") { carrier = "dnam"; base = "rk"; return true; }
    if (d == std::string::npos) { carrier = ""; base = ord; return base == "lt" || base == "gt" || base == "q4" || base == "def"; }
    carrier = ord.substr(0, d);
    base = ord.substr(d + 1);
    bool owning = carrier == "own" || carrier == "ownt" || carrier == "nown" || carrier == "fact" || carrier == "scop";
    if (!(owning || carrier == "fn" || carrier == "fnt" || carrier == "fp" || carrier == "fconv")) return false;
    if (base == "rk") return owning;
    return base == "lt" || base == "gt" || base == "q4";
}

static bool less_by(const std::string& base, const Elem& a, const Elem& b) {
    if (base == "rk") return rank_of(a.key) < rank_of(b.key);
    Cmp c = {base == "gt" ? 'g' : base == "q4" ? 'q' : 'l'};
    return c(a, b);
}

struct Caller {
    int fam, entry, n;
    const std::string* ord;
    template <typename It>
    bool operator()(It a) const {
        if (*ord == "lt" || *ord == "gt" || *ord == "q4") {
            Cmp c = {*ord == "gt" ? 'g' : *ord == "q4" ? 'q' : 'l'};
            return c15::call(fam, entry, n, a, c);
        }
#ifndef C15_NO_DEFAULT
        if (*ord == "def") return entry == 0 ? c15::call_direct_default(fam, n, a) : c15::call_dispatch_default(fam, n, a);
#endif
        return carriers(a, std::is_pointer<It>());
    }
    template <typename It>
    bool carriers(It, std::false_type) const { return false; }   // comparator carriers: pointer runs only
    template <typename It>
    bool carriers(It a, std::true_type) const {
        std::string carrier, base;
        if (!split_ord(*ord, carrier, base)) return false;
        char mode = base == "gt" ? 'g' : base == "q4" ? 'q' : base == "rk" ? 'r' : 'l';
        if (carrier == "fn" || carrier == "fnt") {
            Cmp c = {mode};
            FnCmp f = c;
            return carrier == "fn" ? c15::call(fam, entry, n, a, f) : c15::call<true>(fam, entry, n, a, f);
        }
        if (carrier == "own" || carrier == "ownt") {
            OwnCmp c(mode);
            return carrier == "own" ? c15::call(fam, entry, n, a, c) : c15::call<true>(fam, entry, n, a, c);
        }
#ifndef C15_NO_DEFAULT
        if (carrier == "ownd") return c15::call_default_as<OwnCmp>(fam, entry, n, a);
#endif
        using tlx::sort_networks::CS_IfSwap;
        if (carrier == "fp") {
            FpCmp f = mode == 'g' ? fp_gt : mode == 'q' ? fp_q4 : fp_lt;
            if (entry == 1) return c15::call_dispatch(fam, n, a, mode == 'g' ? fp_gt : mode == 'q' ? fp_q4 : fp_lt);
            if (mode == 'g') { CS_IfSwap<FpCmp> cs(fp_gt); g_sink = scribble(); return c15::call_direct(fam, n, a, cs); }
            if (mode == 'q') { CS_IfSwap<FpCmp> cs(fp_q4); g_sink = scribble(); return c15::call_direct(fam, n, a, cs); }
            (void)f;
            CS_IfSwap<FpCmp> cs(fp_lt);
            g_sink = scribble();
            return c15::call_direct(fam, n, a, cs);
        }
        if (entry != 0) return false;   // the remaining patterns construct a named CS_IfSwap: direct entry points only
        if (carrier == "nown") {
            CS_IfSwap<OwnCmp> cs{OwnCmp(mode)};
            g_sink = scribble();
            return c15::call_direct(fam, n, a, cs);
        }
        if (carrier == "fact") {
            CS_IfSwap<OwnCmp> cs = make_cswap(mode);
            g_sink = scribble();
            return c15::call_direct(fam, n, a, cs);
        }
        if (carrier == "scop") {
            std::unique_ptr<CS_IfSwap<OwnCmp> > cs(new_cswap_from_local(mode));
            g_sink = scribble();
            return c15::call_direct(fam, n, a, *cs);
        }
        if (carrier == "fconv") {
            Cmp c = {mode};
            CS_IfSwap<FnCmp> cs(c);   // implicit conversion Cmp -> std::function creates a temporary
            g_sink = scribble();
            return c15::call_direct(fam, n, a, cs);
        }
#ifndef C15_NO_DEFAULT
        if (carrier == "dnam") {
            CS_IfSwap<OwnCmp> cs;     // default argument Comparator()
            g_sink = scribble();
            return c15::call_direct(fam, n, a, cs);
        }
#endif
        return false;
    }
};

static std::string show(const std::vector<Elem>& v) {
    if (v.empty()) return "-";
    std::ostringstream os;
    for (size_t i = 0; i < v.size(); ++i) os << (i ? "," : "") << v[i].key << ':' << v[i].tag;
    return os.str();
}

static int entry_of(const std::string& s) { return s == "direct" ? 0 : (s == "dispatch" ? 1 : -1); }

// run the real code on `keys` laid out in `seq`; out = the sequence afterwards
static std::string g_exception;   // what() of an exception that escaped the last run

static bool run_in(c15::Seq<Elem>& seq, int fam, int entry, const std::string& ord,
                   const std::vector<long long>& keys, std::vector<Elem>& out, bool& guards_ok) {
    int n = seq.n;
    for (int i = 0; i < n; ++i) seq.at(i) = Elem(keys[size_t(i)], i);
    Caller call = {fam, entry, n, &ord};
    bool ok = false;
    g_exception.clear();
    g_moved_from_calls = 0;
    try { ok = seq.apply(call); }
    catch (const std::exception& e) { g_exception = std::string("exception ") + e.what(); ok = true; }
    out.resize(size_t(n));
    for (int i = 0; i < n; ++i) out[size_t(i)] = seq.at(i);
    guards_ok = seq.guards_ok();
    return ok;
}

static bool run_seq(int kind, int variant, int fam, int entry, int n, const std::string& ord,
                    const std::vector<long long>& keys, std::vector<Elem>& out, bool& guards_ok) {
    c15::Seq<Elem> seq(kind, n, variant);
    return run_in(seq, fam, entry, ord, keys, out, guards_ok);
}

// the output elements are exactly the input elements: every tag once and carrying its own key
static bool is_perm(const std::vector<long long>& keys, const std::vector<Elem>& out) {
    std::vector<char> seen(keys.size(), 0);
    for (const Elem& e : out) {
        if (e.tag < 0 || size_t(e.tag) >= keys.size() || seen[size_t(e.tag)] || e.key != keys[size_t(e.tag)]) return false;
        seen[size_t(e.tag)] = 1;
    }
    return out.size() == keys.size();
}

static bool sorted01(const std::vector<Elem>& v) {
    for (size_t i = 1; i < v.size(); ++i)
        if (v[i].key < v[i - 1].key) return false;
    return true;
}

static void zo_keys(unsigned long m, int n, std::vector<long long>& keys) {
    keys.resize(size_t(n));
    for (int k = 0; k < n; ++k) keys[size_t(k)] = (m >> (n - 1 - k)) & 1;
}

static int zofails(int maxper) {
    const std::string lt = "lt";
    for (int kind = 0; kind < c15::NUM_KINDS; ++kind)
        for (int fam = 0; fam < 3; ++fam)
            for (int entry = 0; entry < 2; ++entry)
                for (int n = 0; n <= 16; ++n) {
                    if (!c15::exists(fam, entry, n)) continue;
                    if (kind != c15::K_PTR && n > 12 && n != 16) continue;   // keep the search cheap
                    int found = 0;
                    std::vector<long long> keys;
                    std::vector<Elem> out;
                    std::vector<c15::Seq<Elem> > pool;
                    for (int v = 0; v < 4; ++v) pool.emplace_back(kind, n, v * 5 + 1);
                    for (unsigned long m = 0; m < (1ul << n) && found < maxper; ++m) {
                        zo_keys(m, n, keys);
                        bool g = true;
                        run_in(pool[m & 3], fam, entry, lt, keys, out, g);
                        if (!sorted01(out) || !is_perm(keys, out) || !g) {
                            ++found;
                            if (kind == c15::K_PTR) std::cout << "run ";
                            else std::cout << "runi " << c15::kind_name[kind] << ' ' << ((m & 3) * 5 + 1) << ' ';
                            std::cout << c15::family_name[fam] << ' ' << c15::entry_name[entry] << ' ' << n << " lt ";
                            for (int k = 0; k < n; ++k) std::cout << (k ? "," : "") << keys[size_t(k)];
                            std::cout << '\n';
                        }
                    }
                }
    return 0;
}

int main(int argc, char** argv) {
    std::string mode = argc > 1 ? argv[1] : "run";
    if (mode == "zofails") return zofails(argc > 2 ? std::atoi(argv[2]) : 1);
    std::string line;
    while (std::getline(std::cin, line)) {
        std::vector<std::string> t = vh::tokens(line);
        if (t.empty()) { vh::answer(""); continue; }
        if (t[0][0] == '#') { vh::answer(line); continue; }
        if (t[0] == "case") { vh::answer("case"); continue; }
        if ((t[0] == "run" && t.size() == 6) || (t[0] == "runi" && t.size() == 8)) {
            size_t o = t[0] == "run" ? 0 : 2;
            int kind = o ? c15::kind_of(t[1]) : c15::K_PTR;
            int variant = o ? std::atoi(t[2].c_str()) : 0;
            int fam = c15::family_of(t[1 + o].c_str()), entry = entry_of(t[2 + o]);
            int n = std::atoi(t[3 + o].c_str());
            const std::string& ord = t[4 + o];
            std::vector<long long> keys = vh::csv(t[5 + o]);
            std::string carrier, base;
            if (kind < 0 || variant < 0 || fam < 0 || entry < 0 || !c15::exists(fam, entry, n) || int(keys.size()) != n ||
#ifdef C15_NO_DEFAULT
                ord == "def" || ord == "ownd" || ord == "dnam" ||   // the default forms do not compile against this tree (see checks/c15.py)
#endif
                !split_ord(ord, carrier, base) || (!carrier.empty() && kind != c15::K_PTR) ||
                (entry != 0 && (carrier == "nown" || carrier == "fact" || carrier == "scop" || carrier == "fconv" || carrier == "dnam"))) {
                vh::answer("bad-op");
                continue;
            }
            std::vector<Elem> v;
            bool guards = true;
            run_seq(kind, variant, fam, entry, n, ord, keys, v, guards);
            vh::answer(show(v));
            std::string what = std::string(c15::kind_name[kind]) + " " + t[1 + o] + " " + t[2 + o] + " n=" + t[3 + o] + " ord=" + ord;
            std::string eff = base == "def" ? "lt" : base;
            if (!g_exception.empty())
                vh::viol("exception " + what + " input=" + t[5 + o] + " : " + g_exception + " escaped the sort");
            if (g_moved_from_calls)
                vh::viol("moved-from-comparator-called " + what + " input=" + t[5 + o] + " (" + std::to_string(g_moved_from_calls) +
                         " calls of a comparator object after it was moved from)");
            for (int i = 1; i < n; ++i)
                if (less_by(eff, v[size_t(i)], v[size_t(i - 1)])) {
                    vh::viol("not-sorted " + what + " pos=" + std::to_string(i) + " input=" + t[5 + o] + " output=" + show(v));
                    break;
                }
            if (!is_perm(keys, v))
                vh::viol("not-a-permutation " + what + " input=" + t[5 + o] + " output=" + show(v));
            if (!guards)
                vh::viol("outside-modified " + what + " input=" + t[5 + o] + " (cells that do not belong to the sequence were written)");
            continue;
        }
        if (t[0] == "zo" && (t.size() == 4 || t.size() == 5)) {
            int fam = c15::family_of(t[1].c_str()), entry = entry_of(t[2]);
            int n = std::atoi(t[3].c_str());
            int kind = t.size() == 5 ? c15::kind_of(t[4]) : c15::K_PTR;
            if (fam < 0 || entry < 0 || kind < 0 || !c15::exists(fam, entry, n)) { vh::answer("bad-op"); continue; }
            size_t limbs = n <= 6 ? 1 : (size_t(1) << (n - 6));
            std::vector<std::vector<uint64_t> > W(size_t(n), std::vector<uint64_t>(limbs, 0));
            unsigned long fails = 0, permfails = 0;
            const std::string lt = "lt";
            std::vector<long long> keys;
            std::vector<Elem> v;
            std::vector<c15::Seq<Elem> > pool;   // four layouts (deque: four split points), reused for all inputs
            for (int q = 0; q < 4; ++q) pool.emplace_back(kind, n, q * 5 + 1);
            for (unsigned long m = 0; m < (1ul << n); ++m) {
                zo_keys(m, n, keys);
                bool g = true;
                run_in(pool[m & 3], fam, entry, lt, keys, v, g);
                if (!sorted01(v)) ++fails;
                if (!is_perm(keys, v) || !g) ++permfails;
                for (int k = 0; k < n; ++k)
                    if (v[size_t(k)].key == 1) W[size_t(k)][m >> 6] |= uint64_t(1) << (m & 63);
            }
            uint64_t h = 14695981039346656037ULL;
            for (int k = 0; k < n; ++k)
                for (size_t l = 0; l < limbs; ++l) h = (h ^ W[size_t(k)][l]) * 1099511628211ULL;
            vh::answer("fails=" + std::to_string(fails) + " permfails=" + std::to_string(permfails) + " sig=" + std::to_string(h));
            continue;
        }
        vh::answer("bad-op");
    }
    return 0;
}
