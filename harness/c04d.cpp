// C04 harness, deterministic-scheduler stage: the real pS5 sorter with std::mutex /
// condition_variable / atomic / thread inside namespace tlx redirected to the scheduler
// shim (harness/c04_detsched, force-included; copy of builder conc's detsched with the
// local changes listed there).  One logical thread runs at a time; the schedule is a
// function of (seed, mode); ASan+UBSan watch the run.
//
//   dcfg <params> <workers> <lcp> <mode> <seed> <arg> <flags>     flags: 1 = post-op scheduling points, 2 = race-directed
//        mode prng: arg = stick (0..255); mode pct: arg = number of priority change points
//   s <string> [count]
//   dgo  -> "ok <sorted strings> | <lcp[1..]> | end=<done|stuck|limit> steps=<n> | <events>"
//
// events (global order, one token each, `<thread>:<event>`):
//   I<o>:<b|s><parts>   a sort step object was created (counter constructed); big steps with parts_
//   A<o>=<v> S<o>=<v>   ++ / -- substep_working_ of step o, new value v
//   W<o>=<v> D<o>=<v>   pwork_ = v / --pwork_ -> v
//   X<o>                the step was destroyed (`delete this`)
//   Q                   ThreadPool::enqueue by this thread          J   this worker starts the next queued job
// Steps are numbered in creation order.  Direct oracle as in c04.cpp (#VIOL), plus: stuck run
// (deadlock), step limit, an event on a destroyed step, a step alive at the end.
#include <fcntl.h>
#include <signal.h>
#include <sys/personality.h>
#include <unistd.h>

#include <algorithm>
#include <cstring>
#include <functional>
#include <map>
#include <memory>
#include <set>

#include "common.hpp"

namespace c04d {
unsigned hw = 2;
bool post_yield = true;
void (*atomic_ctor_hook)(const void*) = nullptr;
void (*atomic_dtor_hook)(const void*) = nullptr;
}  // namespace c04d

#define private public
#define protected public
#include <tlx/sort/strings/parallel_sample_sort.hpp>
#undef private
#undef protected

namespace ssd = tlx::sort_strings_detail;
using detsched::Op;
using detsched::Sched;
typedef std::vector<std::string> Strs;

template <unsigned TB, size_t SmallT, size_t InsT>
class P : public ssd::PS5ParametersDefault {
public:
    typedef size_t key_type;
    static const unsigned TreeBits = TB;
    using Classify = ssd::SSClassifyTreeCalcUnrollInterleave<size_t, TB>;
    static const size_t smallsort_threshold = SmallT;
    static const size_t inssort_threshold = InsT;
};

// ------------------------------------------------------------------ death reports (as in c04.cpp)
static void emit_death(const std::string& msg) {
    std::string l = "\nC04-DEATH: " + msg + "\n";
    fflush(stdout);
    (void)!write(2, l.data(), l.size());
}
static std::string strip_templates(const std::string& f) {
    std::string r; int depth = 0;
    for (char c : f) { if (c == '<') ++depth; else if (c == '>') { if (depth > 0) --depth; } else if (depth == 0) r.push_back(c); }
    size_t p;
    while ((p = r.find("tlx::sort_strings_detail::")) != std::string::npos) r.erase(p, 26);
    p = r.find('(');
    if (p != std::string::npos) r.erase(p);
    return r;
}
static std::string frame_in_tlx(const std::string& rep, size_t from, size_t to) {
    size_t pos = from;
    while (pos < to) {
        size_t e = rep.find('\n', pos);
        if (e == std::string::npos) e = rep.size();
        std::string line = rep.substr(pos, e - pos);
        size_t h = line.find("    #"), in = line.find(" in ");
        if (h == 0 && in != std::string::npos) {
            std::string f = line.substr(in + 4);
            size_t sp = f.rfind(" /");
            if (sp == std::string::npos) sp = f.rfind(" (/");
            if (sp != std::string::npos) f.erase(sp);
            std::string bare; { int d = 0; for (char c : f) { if (c == '<') ++d; else if (c == '>') { if (d) --d; } else if (!d) bare.push_back(c); } }
            if (bare.find("tlx::sort_strings_detail::") != std::string::npos || bare.find("tlx::ThreadPool::") != std::string::npos)
                return strip_templates(f);
        }
        pos = e + 1;
    }
    return "?";
}
static std::string g_cur_sched;   // how to replay the run that is in progress
#if defined(__SANITIZE_ADDRESS__)
extern "C" void __asan_set_error_report_callback(void (*)(const char*));
static void asan_report(const char* text) {
    std::string rep(text);
    size_t k = rep.find("ERROR: AddressSanitizer: ");
    std::string kind = "error";
    if (k != std::string::npos) { size_t b = k + 25, e = rep.find_first_of(" \n", b); kind = rep.substr(b, e - b); }
    size_t second = rep.find(" by thread", k == std::string::npos ? 0 : k);
    std::string where = frame_in_tlx(rep, 0, second == std::string::npos ? rep.size() : second);
    std::string freed;
    size_t fr = rep.find("freed by thread");
    if (fr != std::string::npos) {
        size_t al = rep.find("previously allocated", fr);
        freed = ", freed in " + frame_in_tlx(rep, fr, al == std::string::npos ? rep.size() : al);
    }
    emit_death("asan " + kind + " in " + where + freed + " [detsched " + g_cur_sched + "]");
}
#endif
extern "C" void __assert_fail(const char* expr, const char* file, unsigned int, const char* func) noexcept {
    std::string f = func ? func : "?";
    size_t w = f.find(" [with");
    if (w != std::string::npos) f.erase(w);
    size_t sp = f.find("tlx::");
    if (sp != std::string::npos) f.erase(0, sp);
    std::string fl = file ? file : "?";
    size_t t = fl.find("/tlx/");
    if (t != std::string::npos) fl.erase(0, t + 1);
    emit_death(std::string("assertion `") + expr + "' failed in " + strip_templates(f) + " (" + fl + ") [detsched " + g_cur_sched + "]");
    abort();
}

// ------------------------------------------------------------------ helpers
static int hexv(char c) { return c <= '9' ? c - '0' : (c | 32) - 'a' + 10; }
static bool parse_str(const std::string& w, std::string& s) {
    s.clear();
    if (w == "-") return true;
    if (w.size() % 2) return false;
    for (size_t i = 0; i < w.size(); i += 2) {
        if (!isxdigit((unsigned char)w[i]) || !isxdigit((unsigned char)w[i + 1])) return false;
        int v = hexv(w[i]) * 16 + hexv(w[i + 1]);
        if (v == 0) return false;
        s.push_back((char)v);
    }
    return true;
}
static std::string hexs(const std::string& s) {
    if (s.empty()) return "-";
    static const char* d = "0123456789abcdef";
    std::string r;
    for (unsigned char c : s) { r.push_back(d[c >> 4]); r.push_back(d[c & 15]); }
    return r;
}
static bool ult(const std::string& a, const std::string& b) {
    size_t n = std::min(a.size(), b.size());
    int c = memcmp(a.data(), b.data(), n);
    return c < 0 || (c == 0 && a.size() < b.size());
}
static size_t lcp_of(const std::string& a, const std::string& b) {
    size_t i = 0;
    while (i < a.size() && i < b.size() && a[i] == b[i]) ++i;
    return i;
}

// ------------------------------------------------------------------ event recording
struct Ev { int tid; char kind; int obj; long long val; const void* addr = nullptr; };
struct Recorder {
    std::vector<Ev> evs;
    std::map<const void*, int> ctr;          // counter atomics of live steps -> step number (substep_working_)
    std::map<const void*, int> pw;           // pwork_ atomics -> step number
    std::set<const void*> pending;           // constructed atomics not yet classified
    std::function<const void*(const void*, long long&)> locate_pw;   // counter address -> pwork_ address (big steps), parts_
    std::set<int> destroyed;
    std::vector<std::string> viols;
    const void* cv_jobs = nullptr;
    const void* busy = nullptr;
    const void* ctx_lo = nullptr; const void* ctx_hi = nullptr;   // the PS5Context object (its own atomics are not steps)
    int next_step = 0;
    bool active = false;
    bool in_ctx(const void* p) const { return p >= ctx_lo && p < ctx_hi; }
};
static Recorder* rec = nullptr;

static void on_ctor(const void* a) {
    if (!rec || !rec->active || rec->in_ctx(a)) return;
    rec->pending.insert(a);
    rec->evs.push_back({Sched::self_id(), 'P', -1, 0, a});   // placeholder, resolved by classify_pending()
}
static void on_dtor(const void* a) {
    if (!rec || !rec->active) return;
    rec->pending.erase(a);
    auto it = rec->ctr.find(a);
    if (it != rec->ctr.end()) {
        rec->evs.push_back({Sched::self_id(), 'X', it->second, 0});
        rec->destroyed.insert(it->second);
        rec->ctr.erase(it);
    }
    rec->pw.erase(a);
}
// The lowest-addressed pending atomic is the substep_working_ counter of a new step (base
// class PS5SortStep: vptr, then the counter).  Its dynamic type tells whether the step is a
// PS5BigSortStep, whose pwork_ (also pending) is then located exactly.
static void classify_pending() {
    while (!rec->pending.empty()) {
        const void* a = *rec->pending.begin();
        rec->pending.erase(rec->pending.begin());
        int n = rec->next_step++;
        rec->ctr[a] = n;
        long long parts = 0;
        const void* pw = rec->locate_pw ? rec->locate_pw(a, parts) : nullptr;
        if (pw) { rec->pw[pw] = n; rec->pending.erase(pw); }
        for (auto& ev : rec->evs) {
            if (ev.kind != 'P') continue;
            if (ev.addr == a) { ev.kind = pw ? 'I' : 'i'; ev.obj = n; ev.val = parts; }
            else if (pw && ev.addr == pw) ev.kind = '-';      // the pwork_ member of the same step
        }
    }
}
static void on_event(int tid, Op op, const void* obj, long long val) {
    if (!rec || !rec->active) return;
    if (op == Op::NotifyOne && obj == rec->cv_jobs) { classify_pending(); rec->evs.push_back({tid, 'Q', -1, 0}); return; }
    if (op == Op::Rmw && obj == rec->busy) {
        // ++busy_ (job start) / --busy_ (job end): the value tells which
        static thread_local long long last = 0;
        (void)last;
        rec->evs.push_back({tid, 'B', -1, val});
        return;
    }
    if (op != Op::Rmw && op != Op::Store) return;
    if (rec->in_ctx(obj)) return;
    classify_pending();
    auto c = rec->ctr.find(obj);
    if (c != rec->ctr.end()) { rec->evs.push_back({tid, 'c', c->second, val}); return; }
    auto p = rec->pw.find(obj);
    if (p != rec->pw.end()) { rec->evs.push_back({tid, op == Op::Store ? 'W' : 'D', p->second, val}); return; }
}

// ------------------------------------------------------------------ one run under the scheduler
struct Cfg { std::string params; unsigned workers = 2; bool lcp = false; std::string mode = "prng"; uint64_t seed = 1; unsigned arg = 0; bool post_yield = true; unsigned window_bias = 0; unsigned flags = 1; };

struct Outcome { Strs order; std::vector<uint32_t> lcp; std::string end; size_t steps = 0; std::string trace; std::vector<std::string> viol; };

template <typename Params>
static Outcome run_det(const Cfg& cfg, const Strs& in) {
    Outcome R;
    size_t n = in.size();
    std::vector<std::unique_ptr<unsigned char[]> > store(n);
    std::unique_ptr<unsigned char*[]> arr(new unsigned char*[n ? n : 1]);
    std::unique_ptr<unsigned char*[]> shadow(new unsigned char*[n ? n : 1]);
    std::unique_ptr<uint32_t[]> lcp(new uint32_t[n ? n : 1]);
    std::vector<unsigned char*> before(n);
    for (size_t i = 0; i < n; ++i) {
        store[i].reset(new unsigned char[in[i].size() + 1]);
        memcpy(store[i].get(), in[i].data(), in[i].size()); store[i][in[i].size()] = 0;
        arr[i] = store[i].get(); before[i] = arr[i]; lcp[i] = 0xDEADBEEFu; shadow[i] = nullptr;
    }
    Recorder recorder; rec = &recorder;
    recorder.locate_pw = [](const void* ctr, long long& parts) -> const void* {
        using Context = ssd::PS5Context<Params>;
        using BigA = ssd::PS5BigSortStep<Context, ssd::StringShadowPtr<ssd::UCharStringSet> >;
        using BigB = ssd::PS5BigSortStep<Context, ssd::StringShadowLcpPtr<ssd::UCharStringSet, uint32_t> >;
        auto* base = reinterpret_cast<ssd::PS5SortStep*>(const_cast<char*>(static_cast<const char*>(ctr)) - sizeof(void*));
        if (static_cast<const void*>(&base->substep_working_) != ctr) abort();   // layout assumption: vptr, then the counter
        if (auto* b = dynamic_cast<BigA*>(base)) { parts = (long long)b->parts_; return &b->pwork_; }
        if (auto* b = dynamic_cast<BigB*>(base)) { parts = (long long)b->parts_; return &b->pwork_; }
        return nullptr;
    };
    Sched& S = Sched::get();
    S.seed = cfg.seed; S.sched.clear(); S.spur = 0; S.max_steps = 400000;
    S.stick = cfg.mode == "prng" ? cfg.arg : 0;
    S.pct_depth = cfg.mode == "pct" ? (cfg.arg ? cfg.arg : 1) : 0;
    S.pct_horizon = 50 + 40 * n;
    S.window_bias = cfg.window_bias;
    c04d::hw = cfg.workers; c04d::post_yield = cfg.post_yield;
    c04d::atomic_ctor_hook = on_ctor; c04d::atomic_dtor_hook = on_dtor;
    S.on_event = on_event;
    g_cur_sched = cfg.params + " workers=" + std::to_string(cfg.workers) + " lcp=" + std::to_string(cfg.lcp) + " " + cfg.mode +
                  " seed=" + std::to_string(cfg.seed) + " arg=" + std::to_string(cfg.arg) + " flags=" + std::to_string(cfg.flags);
    bool rest_ok = true;
    auto body = [&]() {
        // parallel_sample_sort_base with the requested number of workers (= hardware_concurrency() of the shim)
        ssd::UCharStringSet ss(arr.get(), arr.get() + n), sh(shadow.get(), shadow.get() + n);
        using Context = ssd::PS5Context<Params>;
        Context ctx(tlx::std::thread::hardware_concurrency());
        recorder.ctx_lo = &ctx; recorder.ctx_hi = reinterpret_cast<const char*>(&ctx) + sizeof(ctx);
        recorder.cv_jobs = &ctx.threads_.cv_jobs_; recorder.busy = &ctx.threads_.busy_;
        ctx.total_size = n; ctx.rest_size = n; ctx.num_threads = ctx.threads_.size();
        recorder.active = true;
        if (cfg.lcp) {
            ssd::StringShadowLcpPtr<ssd::UCharStringSet, uint32_t> sp(ss, sh, lcp.get());
            ctx.enqueue(nullptr, sp, 0);
        } else {
            ssd::StringShadowPtr<ssd::UCharStringSet> sp(ss, sh);
            ctx.enqueue(nullptr, sp, 0);
        }
        ctx.threads_.loop_until_empty();
        recorder.active = false;
        if (ctx.enable_rest_size && ctx.rest_size.peek() != 0) rest_ok = false;
    };
    detsched::End e = S.run(body);
    recorder.active = false;
    c04d::atomic_ctor_hook = nullptr; c04d::atomic_dtor_hook = nullptr; S.on_event = nullptr;
    R.end = e == detsched::End::Done ? "done" : e == detsched::End::Stuck ? "stuck" : "limit";
    R.steps = S.steps;
    if (e == detsched::End::Stuck) R.viol.push_back("deadlock: no runnable thread before the sort completed [detsched " + g_cur_sched + "]");
    if (e == detsched::End::StepLimit) R.viol.push_back("step limit reached [detsched " + g_cur_sched + "]");
    if (!rest_ok) R.viol.push_back("rest_size != 0 at the end");
    // trace: counter events become A/S by comparing consecutive values
    std::map<int, long long> cur;
    std::ostringstream os;
    long long busy = 0;
    for (auto& ev : recorder.evs) {
        std::string t;
        switch (ev.kind) {
        case 'I': t = "I" + std::to_string(ev.obj) + ":b" + std::to_string(ev.val); cur[ev.obj] = 0; break;
        case 'i': t = "I" + std::to_string(ev.obj) + ":s0"; cur[ev.obj] = 0; break;
        case 'c': t = std::string(ev.val > cur[ev.obj] ? "A" : "S") + std::to_string(ev.obj) + "=" + std::to_string(ev.val); cur[ev.obj] = ev.val; break;
        case 'W': t = "W" + std::to_string(ev.obj) + "=" + std::to_string(ev.val); break;
        case 'D': t = "D" + std::to_string(ev.obj) + "=" + std::to_string(ev.val); break;
        case 'X': t = "X" + std::to_string(ev.obj); break;
        case 'Q': t = "Q"; break;
        case 'B': if (ev.val > busy) t = "J"; busy = ev.val; break;
        }
        if (!t.empty()) os << (os.tellp() > 0 ? " " : "") << ev.tid << ":" << t;
    }
    R.trace = os.str();
    // direct oracle on the phase protocol of the big steps: `pwork_ = parts_` (sample() -> count jobs,
    // count_finished() -> distribute jobs) happens exactly twice per step, each time while no job of
    // the previous phase is outstanding, and each phase sees exactly `parts_` decrements, the last one
    // to 0 -- i.e. sample(), count_finished() and distribute_finished() each run exactly once per step.
    {
        struct Ph { long long parts = 0, cur = 0; int stores = 0, zeros = 0; bool bad = false; };
        std::map<int, Ph> ph;
        for (auto& ev : recorder.evs) {
            if (ev.kind == 'I') { ph[ev.obj].parts = ev.val; continue; }
            if (ev.kind != 'W' && ev.kind != 'D') continue;
            Ph& p = ph[ev.obj];
            if (p.bad) continue;
            std::string who = "big step " + std::to_string(ev.obj) + " (thread " + std::to_string(ev.tid) + ")";
            if (ev.kind == 'W') {
                if (p.cur != 0) {
                    R.viol.push_back("phase transition ran twice: pwork_ of " + who + " re-armed to " + std::to_string(ev.val) + " while " +
                                     std::to_string(p.cur) + " jobs of the running phase are outstanding (count_finished()/sample() executed more than once)");
                    p.bad = true; continue;
                }
                if (++p.stores > 2) {
                    R.viol.push_back("phase transition ran twice: third `pwork_ = parts_` of " + who + " (count_finished() executed more than once)");
                    p.bad = true; continue;
                }
                if (ev.val != p.parts) { R.viol.push_back("pwork_ of " + who + " armed with " + std::to_string(ev.val) + " != parts_"); p.bad = true; continue; }
                p.cur = ev.val;
            } else {
                if (p.cur <= 0 || ev.val != p.cur - 1) {
                    R.viol.push_back("pwork_ of " + who + " decremented to " + std::to_string(ev.val) + " from " + std::to_string(p.cur) +
                                     " (more part jobs finished than were started in this phase)");
                    p.bad = true; continue;
                }
                p.cur = ev.val;
                if (p.cur == 0) ++p.zeros;
            }
        }
        if (e == detsched::End::Done)
            for (auto& kv : ph)
                if (kv.second.parts > 0 && !kv.second.bad && (kv.second.stores != 2 || kv.second.zeros != 2))
                    R.viol.push_back("big step " + std::to_string(kv.first) + " went through " + std::to_string(kv.second.stores) +
                                     " phase starts and " + std::to_string(kv.second.zeros) + " phase completions (expected 2 and 2: count, distribute)");
    }
    if (e == detsched::End::Done) {
        for (auto& c : recorder.ctr) R.viol.push_back("sort step " + std::to_string(c.second) + " still alive after loop_until_empty()");
        std::vector<unsigned char*> after(arr.get(), arr.get() + n), b2 = before, a2 = after;
        std::sort(b2.begin(), b2.end()); std::sort(a2.begin(), a2.end());
        if (b2 != a2) R.viol.push_back("result is not a permutation of the input string pointers");
        else for (auto p : after) R.order.push_back(std::string((char*)p));
        for (size_t i = 1; i < R.order.size(); ++i)
            if (ult(R.order[i], R.order[i - 1])) { R.viol.push_back("result not sorted at position " + std::to_string(i)); break; }
        if (cfg.lcp && R.order.size() == n) {
            R.lcp.assign(lcp.get(), lcp.get() + n);
            for (size_t i = 1; i < n; ++i)
                if (R.lcp[i] != lcp_of(R.order[i - 1], R.order[i])) {
                    R.viol.push_back("lcp[" + std::to_string(i) + "]=" + std::to_string(R.lcp[i]) + " but neighbours share " +
                                     std::to_string(lcp_of(R.order[i - 1], R.order[i])) + " bytes");
                    break;
                }
        }
    }
    for (auto& v : R.viol) if (v.find("[detsched") == std::string::npos) v += " [detsched " + g_cur_sched + "]";
    rec = nullptr;
    return R;
}

// ------------------------------------------------------------------ watchdog
// A sort that does not return (broken classification, lost notification, ...) is a
// failure of the property ("terminates").  alarm() cuts the operation off with a `#VIOL`
// line; once that happened (marker file named by $C04_WATCHDOG) the limits become short so
// that a tree on which every sort hangs does not stall the check.
static const char* g_wd_what = "";
static void wd_fire(int) {
    const char* a = "#VIOL sort did not terminate within the time limit [";
    (void)!write(1, a, strlen(a)); (void)!write(1, g_wd_what, strlen(g_wd_what)); (void)!write(1, "]\n", 2);
    if (const char* m = getenv("C04_WATCHDOG")) { int fd = open(m, O_CREAT | O_WRONLY, 0644); if (fd >= 0) close(fd); }
    _exit(91);
}
static void wd_arm(unsigned secs, const char* what) {
    if (const char* m = getenv("C04_WATCHDOG")) if (access(m, F_OK) == 0) secs = secs > 100 ? 60 : 3;
    g_wd_what = what;
    signal(SIGALRM, wd_fire);
    alarm(secs);
}
static void wd_off() { alarm(0); }

typedef Outcome (*Runner)(const Cfg&, const Strs&);
static Runner find_runner(const std::string& p) {
    if (p == "t2s8i4") return &run_det<P<2, 8, 4> >;
    if (p == "t1s4i4") return &run_det<P<1, 4, 4> >;
    if (p == "t1s2i1") return &run_det<P<1, 2, 1> >;
    return nullptr;
}

int main(int argc, char** argv) {
    if (argc < 2 || std::string(argv[1]) != "run") { std::cerr << "usage: c04d run\n"; return 2; }
    // deterministic heap addresses (the sorter seeds its sampling PRNG with an address)
    if (!getenv("C04D_NOASLR")) {
        setenv("C04D_NOASLR", "1", 1);
        if (personality(ADDR_NO_RANDOMIZE) != -1) execv("/proc/self/exe", argv);
    }
#if defined(__SANITIZE_ADDRESS__)
    __asan_set_error_report_callback(asan_report);
#endif
    std::string line;
    Strs input; std::string prefix; Cfg cfg; Runner runner = nullptr;
    while (std::getline(std::cin, line)) {
        auto t = vh::tokens(line);
        if (t.empty()) { vh::answer(""); continue; }
        if (t[0][0] == '#') { vh::answer(line); continue; }
        if (t[0] == "case") { input.clear(); prefix.clear(); runner = nullptr; vh::answer("case"); continue; }
        if (t[0] == "px" && t.size() == 3) {
            std::string pat; size_t len = strtoull(t[2].c_str(), nullptr, 10);
            if (!parse_str(t[1], pat) || pat.empty() || len > 100000) { vh::answer("bad-op"); continue; }
            prefix.clear();
            while (prefix.size() < len) prefix += pat;
            prefix.resize(len);
            vh::answer("ok"); continue;
        }
        if (t[0] == "dcfg" && t.size() == 8) {
            runner = find_runner(t[1]);
            cfg.params = t[1]; cfg.workers = atoi(t[2].c_str()); cfg.lcp = t[3] == "1"; cfg.mode = t[4];
            cfg.seed = strtoull(t[5].c_str(), nullptr, 10); cfg.arg = atoi(t[6].c_str());
            // flags: bit 0 = scheduling point after every atomic write / unlock, bit 1 = race-directed scheduling
            // (check-then-act windows on one atomic, see sched.hpp `window_bias`)
            cfg.flags = atoi(t[7].c_str()); cfg.post_yield = cfg.flags & 1; cfg.window_bias = (cfg.flags & 2) ? 144 : 0;
            if (!runner || cfg.workers < 1 || cfg.workers > 8 || (t[3] != "0" && t[3] != "1") || (cfg.mode != "prng" && cfg.mode != "pct") ||
                cfg.arg > 255 || (t[7] != "0" && t[7] != "1" && t[7] != "2" && t[7] != "3")) { runner = nullptr; vh::answer("bad-op"); continue; }
            vh::answer("ok");
        } else if (t[0] == "s" && (t.size() == 2 || t.size() == 3)) {
            std::string s; size_t cnt = t.size() == 3 ? strtoull(t[2].c_str(), nullptr, 10) : 1;
            if (!parse_str(t[1], s) || cnt < 1 || cnt > 10000) { vh::answer("bad-op"); continue; }
            for (size_t i = 0; i < cnt; ++i) input.push_back(prefix + s);
            vh::answer("ok");
        } else if (t[0] == "dgo" && t.size() == 1) {
            if (!runner) { vh::answer("bad-op"); continue; }
            wd_arm(60, g_cur_sched.c_str());
            Outcome o = runner(cfg, input);
            wd_off();
            for (auto& v : o.viol) vh::viol(v);
            std::string so, sl;
            for (size_t i = 0; i < o.order.size(); ++i) { if (i) so += ','; so += hexs(o.order[i]); }
            if (o.order.empty()) so = "none";
            if (cfg.lcp && o.lcp.size() >= 2) for (size_t i = 1; i < o.lcp.size(); ++i) { if (i > 1) sl += ','; sl += std::to_string(o.lcp[i]); }
            else sl = "-";
            vh::answer("ok " + so + " | " + sl + " | end=" + o.end + " steps=" + std::to_string(o.steps) + " | " + o.trace);
        } else vh::answer("bad-op");
    }
    return 0;
}
