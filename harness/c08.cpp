// C08 harness: tlx::multisequence_partition / tlx::multisequence_selection behind
// the line protocol.
//
//   part <cmp> <rank> <run> <run> ...     runs as csv, cmp in {lt, gt, half}
//   sel  <cmp> <rank> <run> <run> ...
//   load <cmp> <run> <run> ...          keeps the runs as caller-owned storage for the rest of the case
//   p <ranktype> <rank> | s <ranktype> <rank>   partition / selection on the loaded runs, instantiated with the
//        rank type long|int|llong|size_t|uint|ushort; the same storage is used call after call
// answers
//   offs <a0,a1,..> cert <0|1> tr <seq:idx,seq:idx,...>
//   val <v> off <o> tr <...>
// `tr` is the sequence of operator[] reads the algorithm performs on the input
// sequences (through a bounds-checked logging iterator): it exposes a[i]-1,
// (a[i]+b[i])/2 and b[i] of every refinement round, so the Lean model has to
// reproduce the internal state of the halving refinement, not only the result.
//
// Direct oracle (definition by brute force): the first `rank` elements of the
// stable merge order (value, sequence index, position) determine the offsets;
// independently the boundary checker (sum = rank, every left edge strictly
// before every right edge of another sequence in (value, sequence) order).
// For selection: value equivalent to the rank-th element of the merged order,
// offset = rank - #(elements strictly smaller).
// After every call the caller's runs must be unmodified (the element type is move-sensitive: a move marks
// its source), so `return std::move(*minright)` and friends are reported at the call that does it.
//
//   exh <cmp> <mmax> <lmax> <nvals> <shard> <nshards>
// enumerates every tuple of m<=mmax sorted runs of length 1..lmax over nvals
// values and every rank, checks both routines with the oracle and prints the
// failing inputs as protocol lines (`fail <op line>`), then `exh cases=.. fails=..`.
#include <algorithm>
#include <cassert>
#include <deque>
#include <functional>
#include <iterator>
#include <stdexcept>
#include <utility>
#include <vector>

#include "common.hpp"

#include <tlx/algorithm/multisequence_partition.hpp>
#include <tlx/algorithm/multisequence_selection.hpp>

using ll = long long;

// ------------------------------------------------------------------ value type
// The sequences hold `Val`, whose default operator< / > / == order by a scrambled function of the value —
// inconsistent with every comparator the harness passes (<, >, v>>1).  tlx code that forgets to pass `comp`
// on (e.g. std::lower_bound(first, last, v)) still compiles and yields a wrong result that the oracle reports.
struct Val {
    ll v = 0;
    bool moved = false;          // set in the SOURCE of a move: the algorithm must never move from the caller's runs
    Val() {}
    Val(const Val& o) : v(o.v), moved(o.moved) {}
    Val(Val&& o) noexcept : v(o.v), moved(o.moved) { o.v = -987654321; o.moved = true; }
    Val& operator=(const Val& o) { v = o.v; moved = o.moved; return *this; }
    Val& operator=(Val&& o) noexcept { v = o.v; moved = o.moved; if (this != &o) { o.v = -987654321; o.moved = true; } return *this; }
    static unsigned poison(ll x) { return static_cast<unsigned>(x + 17) * 2654435761u; }
    friend bool operator<(const Val& a, const Val& b) { return poison(a.v) < poison(b.v); }
    friend bool operator>(const Val& a, const Val& b) { return poison(a.v) > poison(b.v); }
    friend bool operator==(const Val& a, const Val& b) { return poison(a.v) == poison(b.v); }
};

// ------------------------------------------------------------------ iterator
struct Log {
    std::vector<std::pair<int, long>> reads;
    std::vector<std::string> errors;
    bool on = true;
    void clear() { reads.clear(); errors.clear(); }
};
static Log g_log;
static Val g_dummy;

struct CkIt {
    using iterator_category = std::random_access_iterator_tag;
    using value_type = Val;
    using difference_type = long;
    using pointer = Val*;
    using reference = Val&;
    Val* base = nullptr;
    long len = 0, pos = 0;
    int seq = -1;
    CkIt() {}
    CkIt(Val* b, long l, long p, int s) : base(b), len(l), pos(p), seq(s) {}
    Val& at(long p, bool logit) const {
        if (logit && g_log.on) g_log.reads.emplace_back(seq, p);
        if (p < 0 || p >= len) {
            if (g_log.errors.size() < 4)
                g_log.errors.push_back("out-of-bounds read seq " + std::to_string(seq) + " index " +
                                       std::to_string(p) + " length " + std::to_string(len));
            g_dummy.v = 0;
            return g_dummy;
        }
        return base[p];
    }
    Val& operator[](long n) const { return at(pos + n, true); }
    Val& operator*() const { return at(pos, false); }
    CkIt& operator++() { ++pos; return *this; }
    CkIt operator++(int) { CkIt t = *this; ++pos; return t; }
    CkIt& operator--() { --pos; return *this; }
    CkIt operator--(int) { CkIt t = *this; --pos; return t; }
    CkIt& operator+=(long n) { pos += n; return *this; }
    CkIt& operator-=(long n) { pos -= n; return *this; }
    friend CkIt operator+(CkIt a, long n) { a.pos += n; return a; }
    friend CkIt operator+(long n, CkIt a) { a.pos += n; return a; }
    friend CkIt operator-(CkIt a, long n) { a.pos -= n; return a; }
    friend long operator-(const CkIt& a, const CkIt& b) { return a.pos - b.pos; }
    friend bool operator==(const CkIt& a, const CkIt& b) { return a.pos == b.pos; }
    friend bool operator!=(const CkIt& a, const CkIt& b) { return a.pos != b.pos; }
    friend bool operator<(const CkIt& a, const CkIt& b) { return a.pos < b.pos; }
    friend bool operator>(const CkIt& a, const CkIt& b) { return a.pos > b.pos; }
    friend bool operator<=(const CkIt& a, const CkIt& b) { return a.pos <= b.pos; }
    friend bool operator>=(const CkIt& a, const CkIt& b) { return a.pos >= b.pos; }
};

// ------------------------------------------------------------------ comparators
enum Cmp { LT, GT, HALF };
struct Comp {
    Cmp c;
    bool operator()(const ll& a, const ll& b) const {
        switch (c) {
        case LT: return a < b;
        case GT: return a > b;
        default: return (a >> 1) < (b >> 1);
        }
    }
    bool operator()(const Val& a, const Val& b) const { return (*this)(a.v, b.v); }
};
static bool parse_cmp(const std::string& s, Cmp& c) {
    if (s == "lt") c = LT; else if (s == "gt") c = GT; else if (s == "half") c = HALF; else return false;
    return true;
}
static const char* cmp_name(Cmp c) { return c == LT ? "lt" : c == GT ? "gt" : "half"; }

using Runs = std::vector<std::vector<ll>>;

static std::string op_line(const char* op, Cmp c, long rank, const Runs& runs) {
    std::string s = std::string(op) + " " + cmp_name(c) + " " + std::to_string(rank);
    for (auto& r : runs) s += " " + vh::show_csv(r);
    return s;
}

static bool precond(const Runs& runs, Comp comp) {
    if (runs.empty()) return false;
    for (auto& r : runs) {
        if (r.empty()) return false;
        for (size_t i = 1; i < r.size(); ++i) if (comp(r[i], r[i - 1])) return false;
    }
    return true;
}

// ------------------------------------------------------------------ oracle
// merged stable order: (value by comp, sequence, position)
struct Tag { ll v; int s; long p; };
static std::vector<Tag> merged_order(const Runs& runs, Comp comp) {
    std::vector<Tag> all;
    for (size_t s = 0; s < runs.size(); ++s)
        for (size_t p = 0; p < runs[s].size(); ++p) all.push_back(Tag{runs[s][p], (int)s, (long)p});
    // all is in (sequence, position) order; a stable sort by value yields the merged order
    std::stable_sort(all.begin(), all.end(), [&](const Tag& a, const Tag& b) { return comp(a.v, b.v); });
    return all;
}

// returns violation messages for a partition result
static void check_partition(const Runs& runs, Comp comp, long rank, const std::vector<long>& off,
                            std::vector<std::string>& out) {
    size_t m = runs.size();
    long sum = 0;
    for (size_t i = 0; i < m; ++i) {
        if (off[i] < 0 || off[i] > (long)runs[i].size()) {
            out.push_back("partition offset " + std::to_string(off[i]) + " of sequence " + std::to_string(i) + " outside the sequence");
            return;
        }
        sum += off[i];
    }
    if (sum != rank) out.push_back("partition left parts hold " + std::to_string(sum) + " elements, rank is " + std::to_string(rank));
    // boundary checker
    bool weak_bad = false, tie_bad = false;
    for (size_t i = 0; i < m; ++i) {
        if (off[i] == 0) continue;
        ll x = runs[i][off[i] - 1];
        for (size_t j = 0; j < m; ++j) {
            if (j == i || off[j] >= (long)runs[j].size()) continue;
            ll y = runs[j][off[j]];
            if (comp(y, x)) weak_bad = true;                       // left element greater than a right element
            else if (!comp(x, y) && !(i < j)) tie_bad = true;      // equivalent, taken from the higher sequence
        }
    }
    if (weak_bad) out.push_back("partition puts a greater element left of a smaller one");
    if (tie_bad) out.push_back("partition takes equivalent elements from a higher-numbered sequence first");
    // brute force
    std::vector<Tag> all = merged_order(runs, comp);
    std::vector<long> want(m, 0);
    for (long k = 0; k < rank; ++k) want[all[k].s]++;
    if (want != off && out.empty())
        out.push_back("partition differs from the first `rank` elements of the stable merge order");
    if (want == off && !out.empty())
        out.push_back("INTERNAL oracle disagreement (checker rejects the brute-force partition)");
}

static void check_selection(const Runs& runs, Comp comp, long rank, ll val, long offset,
                            std::vector<std::string>& out) {
    std::vector<Tag> all = merged_order(runs, comp);
    ll want = all[rank].v;
    if (comp(val, want) || comp(want, val))
        out.push_back("selection returned " + std::to_string(val) + ", element at the rank is " + std::to_string(want));
    long smaller = 0;
    for (auto& t : all) if (comp(t.v, want)) ++smaller;
    if (offset != rank - smaller)
        out.push_back("selection offset " + std::to_string(offset) + ", expected " + std::to_string(rank - smaller));
}

// ------------------------------------------------------------------ running the real code
struct Res {
    bool threw = false;
    std::vector<long> off;
    ll val = 0;
    long offset = 0;
};

static std::vector<std::vector<Val>> to_vals(const Runs& runs) {
    std::vector<std::vector<Val>> st(runs.size());
    for (size_t i = 0; i < runs.size(); ++i)
        for (ll x : runs[i]) { Val v; v.v = x; st[i].push_back(v); }
    return st;
}

using Store = std::vector<std::vector<Val>>;

// the caller-owned runs must be exactly what they were: same values, nothing moved from
static void check_inputs(const Runs& runs, const Store& st, std::vector<std::string>& bad) {
    for (size_t i = 0; i < runs.size(); ++i)
        for (size_t p = 0; p < runs[i].size(); ++p)
            if (st[i][p].moved || st[i][p].v != runs[i][p]) {
                bad.push_back("input sequence " + std::to_string(i) + " modified at position " + std::to_string(p) +
                              (st[i][p].moved ? " (element was moved from)" : ""));
                return;
            }
}

// ------------------------------------------------------------------ other iterator categories / storage layouts
// The same call over runs that are NOT contiguous arrays in iterator direction.  Results must equal the ones of the
// bounds-checked iterator over vectors (which the oracle judges); reads outside a run hit guards / other runs /
// ASan red zones.
//   rev     std::reverse_iterator over slices of ONE backing vector (all runs stored back to front, adjacent)
//   deque   one std::deque per run, front-padded so that a 512-byte block boundary (32 Val) falls inside the run
//   strided user-defined random-access iterator visiting every second element; guards in between
template <typename T>
class StrideIt {
    T* p_;
public:
    using iterator_category = std::random_access_iterator_tag;
    using value_type = T;
    using difference_type = std::ptrdiff_t;
    using pointer = T*;
    using reference = T&;
    StrideIt() : p_(nullptr) {}
    explicit StrideIt(T* p) : p_(p) {}
    reference operator*() const { return *p_; }
    pointer operator->() const { return p_; }
    reference operator[](difference_type n) const { return p_[2 * n]; }
    StrideIt& operator++() { p_ += 2; return *this; }
    StrideIt operator++(int) { StrideIt t = *this; p_ += 2; return t; }
    StrideIt& operator--() { p_ -= 2; return *this; }
    StrideIt operator--(int) { StrideIt t = *this; p_ -= 2; return t; }
    StrideIt& operator+=(difference_type n) { p_ += 2 * n; return *this; }
    StrideIt& operator-=(difference_type n) { p_ -= 2 * n; return *this; }
    friend StrideIt operator+(StrideIt a, difference_type n) { return StrideIt(a.p_ + 2 * n); }
    friend StrideIt operator+(difference_type n, StrideIt a) { return StrideIt(a.p_ + 2 * n); }
    friend StrideIt operator-(StrideIt a, difference_type n) { return StrideIt(a.p_ - 2 * n); }
    friend difference_type operator-(StrideIt a, StrideIt b) { return (a.p_ - b.p_) / 2; }
    friend bool operator==(StrideIt a, StrideIt b) { return a.p_ == b.p_; }
    friend bool operator!=(StrideIt a, StrideIt b) { return a.p_ != b.p_; }
    friend bool operator<(StrideIt a, StrideIt b) { return a.p_ < b.p_; }
    friend bool operator>(StrideIt a, StrideIt b) { return a.p_ > b.p_; }
    friend bool operator<=(StrideIt a, StrideIt b) { return a.p_ <= b.p_; }
    friend bool operator>=(StrideIt a, StrideIt b) { return a.p_ >= b.p_; }
};

static bool g_alt_layouts = true;      // off in the exhaustive enumeration (time)
static Val mkval(ll x) { Val v; v.v = x; return v; }
static_assert(sizeof(Val) == 16, "32 Val per 512-byte std::deque block");

template <typename RT, typename It>
static Res generic_call(bool sel, std::vector<std::pair<It, It>>& seqs, Comp comp, long rank) {
    Res r;
    if (!sel) {
        std::vector<It> offs(seqs.size());
        const RT r_rank = static_cast<RT>(rank);
        tlx::multisequence_partition(seqs.begin(), seqs.end(), r_rank, offs.begin(), comp);
        for (size_t i = 0; i < seqs.size(); ++i) r.off.push_back(static_cast<long>(offs[i] - seqs[i].first));
    }
    else {
        try {
            const RT r_rank = static_cast<RT>(rank);
            RT off = 0;
            r.val = tlx::multisequence_selection<Val>(seqs.begin(), seqs.end(), r_rank, off, comp).v;
            r.offset = static_cast<long>(off);
        } catch (const std::exception&) { r.threw = true; }
    }
    return r;
}

static std::string show_res(bool sel, const Res& r) {
    if (!sel) return "offsets " + vh::show_csv(r.off);
    if (r.threw) return "threw";
    return "value " + std::to_string(r.val) + " offset " + std::to_string(r.offset);
}

template <typename RT>
static void alt_layouts(bool sel, const Store& st, Comp comp, long rank, const Res& want) {
    if (!g_alt_layouts) return;
    size_t m = st.size();
    auto report = [&](const char* layout, const Res& got) {
        bool same = sel ? (got.threw == want.threw && (got.threw || (got.val == want.val && got.offset == want.offset)))
                        : got.off == want.off;
        if (!same)
            g_log.errors.push_back(std::string(sel ? "selection" : "partition") + " over " + layout + " runs gives " +
                                   show_res(sel, got) + ", over vectors " + show_res(sel, want));
    };
    // order: the layouts whose stray reads stay inside the allocation first (an oracle message rather than a crash)
    {   // (iii) strided iterator, guards at the even positions
        std::vector<std::vector<Val>> u(m);
        using It = StrideIt<Val>;
        std::vector<std::pair<It, It>> seqs(m);
        for (size_t i = 0; i < m; ++i) {
            size_t len = st[i].size();
            u[i].assign(2 * len + 1, mkval(0));
            for (size_t j = 0; j <= len; ++j) u[i][2 * j] = mkval(j % 2 ? 1000000 : -1000000);
            for (size_t p = 0; p < len; ++p) u[i][2 * p + 1] = st[i][p];
            u[i].shrink_to_fit();
            seqs[i] = std::make_pair(It(u[i].data() + 1), It(u[i].data() + 1 + 2 * len));
        }
        report("strided-iterator", generic_call<RT>(sel, seqs, comp, rank));
    }
    {   // (ii) std::deque runs across a block boundary
        std::vector<std::deque<Val>> dq(m);
        using It = std::deque<Val>::iterator;
        std::vector<std::pair<It, It>> seqs(m);
        for (size_t i = 0; i < m; ++i) {
            size_t len = st[i].size();
            size_t pad = (64 - (len / 2) % 32) % 32 + (i % 2 ? 32 : 0);     // boundary after about half of the run
            for (size_t k = 0; k < pad; ++k) dq[i].push_back(mkval(-555));
            for (auto& x : st[i]) dq[i].push_back(x);
            dq[i].push_back(mkval(-556));
            seqs[i] = std::make_pair(dq[i].begin() + (long)pad, dq[i].begin() + (long)(pad + len));
        }
        report("std::deque", generic_call<RT>(sel, seqs, comp, rank));
    }
    {   // (i) reverse iterators over adjacent slices of one backing vector
        size_t total = 0;
        for (auto& r : st) total += r.size();
        std::vector<Val> back;
        back.reserve(total);
        std::vector<size_t> lo(m);
        for (size_t i = 0; i < m; ++i) { lo[i] = back.size(); for (size_t p = st[i].size(); p-- > 0;) back.push_back(st[i][p]); }
        back.shrink_to_fit();
        using It = std::reverse_iterator<Val*>;
        std::vector<std::pair<It, It>> seqs(m);
        for (size_t i = 0; i < m; ++i) seqs[i] = std::make_pair(It(back.data() + lo[i] + st[i].size()), It(back.data() + lo[i]));
        report("std::reverse_iterator", generic_call<RT>(sel, seqs, comp, rank));
    }
}

template <typename RT>
static Res run_part_t(Store& st, Comp comp, long rank) {
    size_t m = st.size();
    std::vector<std::pair<CkIt, CkIt>> seqs(m);
    for (size_t i = 0; i < m; ++i) {
        long len = (long)st[i].size();
        seqs[i] = std::make_pair(CkIt(st[i].data(), len, 0, (int)i), CkIt(st[i].data(), len, len, (int)i));
    }
    std::vector<CkIt> offs(m);
    g_log.clear();
    const RT r_rank = static_cast<RT>(rank);
    tlx::multisequence_partition(seqs.begin(), seqs.end(), r_rank, offs.begin(), comp);
    Res r;
    for (size_t i = 0; i < m; ++i) r.off.push_back(offs[i] - seqs[i].first);
    alt_layouts<RT>(false, st, comp, rank, r);
    return r;
}

template <typename RT>
static Res run_sel_t(Store& st, Comp comp, long rank) {
    size_t m = st.size();
    std::vector<std::pair<CkIt, CkIt>> seqs(m);
    for (size_t i = 0; i < m; ++i) {
        long len = (long)st[i].size();
        seqs[i] = std::make_pair(CkIt(st[i].data(), len, 0, (int)i), CkIt(st[i].data(), len, len, (int)i));
    }
    // aliased call pattern: `rank` is a const RankType& and `offset` a RankType&; a caller may pass the SAME variable
    // (rank in, offset out).  The result must be the one of the call with separate variables.
    // (multisequence_partition has no such pair: its only by-reference scalar is `rank`, its output goes through
    // an iterator to iterators, which cannot alias an integer.)
    Res al;
    try {
        RT io = static_cast<RT>(rank);
        al.val = tlx::multisequence_selection<Val>(seqs.begin(), seqs.end(), io, io, comp).v;
        al.offset = static_cast<long>(io);
    } catch (const std::exception&) {
        al.threw = true;
    }
    g_log.clear();
    Res r;
    try {
        const RT r_rank = static_cast<RT>(rank);
        RT off = 0;
        r.val = tlx::multisequence_selection<Val>(seqs.begin(), seqs.end(), r_rank, off, comp).v;
        r.offset = static_cast<long>(off);
    } catch (const std::exception&) {
        r.threw = true;
    }
    if (!r.threw && (al.threw || al.val != r.val || al.offset != r.offset))
        g_log.errors.push_back("selection called with the same variable for rank and offset " +
                               (al.threw ? std::string("threw") : "returned value " + std::to_string(al.val) + " offset " + std::to_string(al.offset)) +
                               ", with separate variables value " + std::to_string(r.val) + " offset " + std::to_string(r.offset));
    alt_layouts<RT>(true, st, comp, rank, r);
    return r;
}

// every rank type the API accepts
static const char* RANK_TYPES[] = {"long", "int", "llong", "size_t", "uint", "ushort"};
static bool known_rt(const std::string& rt) {
    for (auto* n : RANK_TYPES) if (rt == n) return true;
    return false;
}
static Res run_part_rt(const std::string& rt, Store& st, Comp comp, long rank) {
    if (rt == "int") return run_part_t<int>(st, comp, rank);
    if (rt == "llong") return run_part_t<long long>(st, comp, rank);
    if (rt == "size_t") return run_part_t<size_t>(st, comp, rank);
    if (rt == "uint") return run_part_t<unsigned int>(st, comp, rank);
    if (rt == "ushort") return run_part_t<unsigned short>(st, comp, rank);
    return run_part_t<long>(st, comp, rank);
}
static Res run_sel_rt(const std::string& rt, Store& st, Comp comp, long rank) {
    if (rt == "int") return run_sel_t<int>(st, comp, rank);
    if (rt == "llong") return run_sel_t<long long>(st, comp, rank);
    if (rt == "size_t") return run_sel_t<size_t>(st, comp, rank);
    if (rt == "uint") return run_sel_t<unsigned int>(st, comp, rank);
    if (rt == "ushort") return run_sel_t<unsigned short>(st, comp, rank);
    return run_sel_t<long>(st, comp, rank);
}

static Res run_part(Runs& runs, Comp comp, long rank, std::vector<std::string>* bad = nullptr) {
    Store st = to_vals(runs);
    Res r = run_part_t<long>(st, comp, rank);
    if (bad) check_inputs(runs, st, *bad);
    return r;
}

static Res run_sel(Runs& runs, Comp comp, long rank, std::vector<std::string>* bad = nullptr) {
    Store st = to_vals(runs);
    Res r = run_sel_t<long>(st, comp, rank);
    if (bad) check_inputs(runs, st, *bad);
    return r;
}

static std::string show_trace() {
    std::string s;
    for (auto& e : g_log.reads) {
        if (!s.empty()) s += ',';
        s += std::to_string(e.first) + ":" + std::to_string(e.second);
    }
    return s.empty() ? "-" : s;
}

static bool parse_op(const std::vector<std::string>& t, Cmp& c, long& rank, Runs& runs) {
    if (t.size() < 4 || !parse_cmp(t[1], c)) return false;
    try {
        rank = std::stol(t[2]);
        for (size_t i = 3; i < t.size(); ++i) runs.push_back(vh::csv(t[i]));
    } catch (...) { return false; }
    return true;
}

// persistent runs of a case: `load <cmp> <run>...`, then `p <ranktype> <rank>` / `s <ranktype> <rank>` operate on the
// SAME caller-owned storage call after call (a call that modifies its input corrupts the following ones)
static bool g_loaded = false;
static Cmp g_cmp = LT;
static Runs g_runs;
static Store g_store;

static void do_loaded(const std::vector<std::string>& t) {
    if (t[0] == "load") {
        Cmp c; Runs runs;
        if (t.size() < 3 || !parse_cmp(t[1], c)) { vh::answer("bad-op"); return; }
        try { for (size_t i = 2; i < t.size(); ++i) runs.push_back(vh::csv(t[i])); } catch (...) { vh::answer("bad-op"); return; }
        if (!precond(runs, Comp{c})) { vh::answer("bad-op"); return; }
        g_cmp = c; g_runs = runs; g_store = to_vals(runs); g_loaded = true;
        vh::answer("loaded " + std::to_string(runs.size()));
        return;
    }
    if (!g_loaded || t.size() != 3 || !known_rt(t[1])) { vh::answer("bad-op"); return; }
    long rank;
    try { rank = std::stol(t[2]); } catch (...) { vh::answer("bad-op"); return; }
    Comp comp{g_cmp};
    long N = 0;
    for (auto& r : g_runs) N += (long)r.size();
    if (t[1] == "ushort" && N > 60000) { vh::answer("bad-op"); return; }
    std::vector<std::string> bad;
    std::string ctx = std::string(t[0]) + " " + t[1] + " " + t[2] + " after load " + cmp_name(g_cmp);
    for (auto& r : g_runs) ctx += " " + vh::show_csv(r);
    if (t[0] == "p") {
        if (rank < 0 || rank > N) { vh::answer("bad-op"); return; }
        Res r = run_part_rt(t[1], g_store, comp, rank);
        std::string tr = show_trace();
        for (auto& e : g_log.errors) bad.push_back(e);
        std::vector<std::string> pbad;
        check_partition(g_runs, comp, rank, r.off, pbad);
        vh::answer("offs " + vh::show_csv(r.off) + " cert " + (pbad.empty() ? "1" : "0") + " tr " + tr);
        for (auto& e : pbad) bad.push_back(e);
    }
    else {
        if (rank < 0 || rank >= N) { vh::answer("bad-op"); return; }
        Res r = run_sel_rt(t[1], g_store, comp, rank);
        if (r.threw) { vh::answer("threw tr " + show_trace()); bad.push_back("selection threw for a rank inside the data"); }
        else {
            vh::answer("val " + std::to_string(r.val) + " off " + std::to_string(r.offset) + " tr " + show_trace());
            for (auto& e : g_log.errors) bad.push_back(e);
            check_selection(g_runs, comp, rank, r.val, r.offset, bad);
        }
    }
    check_inputs(g_runs, g_store, bad);
    for (auto& b : bad) vh::viol(b + " in " + ctx);
    // keep going on the caller's (possibly corrupted) storage, as a real caller would; restore only the reference
}

static void do_line(const std::vector<std::string>& t) {
    if (t[0] == "load" || t[0] == "p" || t[0] == "s") { do_loaded(t); return; }
    Cmp c; long rank; Runs runs;
    if (!parse_op(t, c, rank, runs)) { vh::answer("bad-op"); return; }
    Comp comp{c};
    long N = 0;
    for (auto& r : runs) N += (long)r.size();
    if (!precond(runs, comp)) { vh::answer("bad-op"); return; }
    std::vector<std::string> bad;
    if (t[0] == "part") {
        if (rank < 0 || rank > N) { vh::answer("bad-op"); return; }
        Res r = run_part(runs, comp, rank, &bad);
        std::string tr = show_trace();
        for (auto& e : g_log.errors) bad.push_back(e);
        std::vector<std::string> pbad;
        check_partition(runs, comp, rank, r.off, pbad);
        // cert = verdict of the harness' checker; the driver prints the verdict of the proved Lean checker
        vh::answer("offs " + vh::show_csv(r.off) + " cert " + (pbad.empty() ? "1" : "0") + " tr " + tr);
        for (auto& e : pbad) bad.push_back(e);
    }
    else if (t[0] == "sel") {
        if (rank < 0 || rank >= N) { vh::answer("bad-op"); return; }
        Res r = run_sel(runs, comp, rank, &bad);
        if (r.threw) { vh::answer("threw tr " + show_trace()); bad.push_back("selection threw for a rank inside the data"); }
        else {
            vh::answer("val " + std::to_string(r.val) + " off " + std::to_string(r.offset) + " tr " + show_trace());
            for (auto& e : g_log.errors) bad.push_back(e);
            check_selection(runs, comp, rank, r.val, r.offset, bad);
        }
    }
    else { vh::answer("bad-op"); return; }
    for (auto& b : bad) vh::viol(b + " in " + op_line(t[0].c_str(), c, rank, runs));
}

// ------------------------------------------------------------------ exhaustive enumeration
static void all_runs(int len, int nvals, Cmp c, std::vector<std::vector<ll>>& out) {
    // all non-decreasing (w.r.t. comp) sequences of `len` values from 0..nvals-1
    std::vector<ll> cur(len, 0);
    Comp comp{c};
    std::function<void(int)> rec = [&](int i) {
        if (i == len) { out.push_back(cur); return; }
        for (int v = 0; v < nvals; ++v) {
            cur[i] = v;
            if (i > 0 && comp(cur[i], cur[i - 1])) continue;
            rec(i + 1);
        }
    };
    rec(0);
}

static int do_exh(const std::vector<std::string>& a) {
    Cmp c;
    if (a.size() < 7 || !parse_cmp(a[1], c)) { std::cout << "usage: exh cmp mmax lmax nvals shard nshards\n"; return 2; }
    int mmax = std::stoi(a[2]), lmax = std::stoi(a[3]), nvals = std::stoi(a[4]);
    long shard = std::stol(a[5]), nshards = std::stol(a[6]);
    Comp comp{c};
    std::vector<std::vector<ll>> pool;
    for (int l = 1; l <= lmax; ++l) all_runs(l, nvals, c, pool);
    g_log.on = false;
    g_alt_layouts = false;
    long cases = 0, fails = 0, printed = 0, tuple_no = 0;
    for (int m = 1; m <= mmax; ++m) {
        std::vector<size_t> idx(m, 0);
        for (;;) {
            if (tuple_no++ % nshards == shard) {
                Runs runs(m);
                long N = 0;
                for (int i = 0; i < m; ++i) { runs[i] = pool[idx[i]]; N += (long)runs[i].size(); }
                for (long rank = 0; rank <= N; ++rank) {
                    std::vector<std::string> bad;
                    Res r = run_part(runs, comp, rank, &bad);
                    for (auto& e : g_log.errors) bad.push_back(e);
                    check_partition(runs, comp, rank, r.off, bad);
                    ++cases;
                    if (!bad.empty()) {
                        ++fails;
                        if (printed < 40) { std::cout << "fail " << op_line("part", c, rank, runs) << " :: " << bad[0] << "\n"; ++printed; }
                    }
                    if (rank < N) {
                        bad.clear();
                        Res s = run_sel(runs, comp, rank, &bad);
                        for (auto& e : g_log.errors) bad.push_back(e);
                        if (s.threw) bad.push_back("selection threw");
                        else check_selection(runs, comp, rank, s.val, s.offset, bad);
                        ++cases;
                        if (!bad.empty()) {
                            ++fails;
                            if (printed < 40) { std::cout << "fail " << op_line("sel", c, rank, runs) << " :: " << bad[0] << "\n"; ++printed; }
                        }
                    }
                }
            }
            int k = m - 1;
            while (k >= 0 && ++idx[k] == pool.size()) { idx[k] = 0; --k; }
            if (k < 0) break;
        }
    }
    std::cout << "exh cases=" << cases << " fails=" << fails << "\n";
    return 0;
}

int main(int argc, char** argv) {
    std::vector<std::string> args(argv + 1, argv + argc);
    if (!args.empty() && args[0] == "exh") return do_exh(args);
    std::string line;
    while (std::getline(std::cin, line)) {
        auto t = vh::tokens(line);
        if (t.empty()) { vh::answer(""); continue; }
        if (t[0][0] == '#') { vh::answer(line); continue; }
        if (t[0] == "case") { g_loaded = false; vh::answer("case"); continue; }
        do_line(t);
    }
    return 0;
}
