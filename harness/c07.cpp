// C07 harness: tlx::(stable_)parallel_multiway_merge(_sentinels) behind the line protocol.
//
//   pm <variant> <cmp> <split> <threads> <osf> <algo> <force> <mink> <minn> <size> <run> <run> ...
//        variant u|s|us|ss   (unstable / stable / ..._sentinels)
//        cmp     lt|gt|half
//        split   exact|sampling
//        threads >= 1        osf = parallel_multiway_merge_oversampling >= 1
//        algo    lt|ltc|lts|bubble      (MWMA_LOSER_TREE, _COMBINED, _SENTINEL, MWMA_BUBBLE)
//        force   par|seq|auto           (the two force flags)
//        mink minn            parallel_multiway_merge_minimal_k / _minimal_n
//        size    0..total ; runs as csv of keys, `-` = empty run
//   es <n> <p>                          multiway_merge_detail::equally_split
// answers
//   out <key:seq:pos,...> ret <n> begins <b0,b1,..> win <start+len,...> spec <0|1>
//        win: maximal windows of output positions written by one thread, sorted by start,
//        prefixed `m` when written by the calling thread (sequential fall-back)
//   es <s0,s1,...>
// Elements are (key, seq, pos) compared by key only.  For the unstable variants the order
// inside a run of equivalent keys is canonicalised (sorted by (seq,pos)) before printing.
//
// Direct oracle: brute-force stable merge (std::stable_sort of the tagged elements).
//   stable   : output == first `size` elements of the stable merge, begins == their counts
//   unstable : keys == keys of the first `size`; the output holds exactly the prefixes
//              [0, begins_i) of the inputs, each element once
//   both     : returned iterator == target + size; every output position written exactly
//              once, nothing else written; inputs unchanged; ASan/UBSan (TSan build: races)
#include <algorithm>
#include <atomic>
#include <climits>
#include <functional>
#include <thread>
#include <utility>
#include <vector>

#include "common.hpp"

#include <tlx/algorithm/parallel_multiway_merge.hpp>

using ll = long long;

// short stack traces (file:line only): the template names of the merge routines are several kB per
// frame and would push the sanitizer's error line out of the stderr tail kept by the check
extern "C" const char* __asan_default_options() { return "stack_trace_format='#%n %L'"; }
extern "C" const char* __ubsan_default_options() { return "stack_trace_format='#%n %L'"; }

// serial number of the running thread instance (std::thread::id values are reused after a join)
static std::atomic<int> g_next_serial{1};
struct Serial { int v; Serial() : v(g_next_serial++) {} };
static thread_local Serial t_serial;

struct E {
    ll key = 0;
    int seq = -1, pos = -1;
    int writes = 0;
    int writer = 0;
    E() {}
    E(ll k, int s, int p) : key(k), seq(s), pos(p) {}
    E(const E& o) : key(o.key), seq(o.seq), pos(o.pos) {}
    E& operator=(const E& o) {
        key = o.key; seq = o.seq; pos = o.pos;
        ++writes; writer = t_serial.v;
        return *this;
    }
    // *poisoned* default order: a scrambled function of (pos, seq), inconsistent with every comparator the
    // harness passes.  tlx code that forgets to pass `comp` on still compiles, and its wrong result is
    // reported by the oracle with a concrete input.
    static unsigned poison(const E& e) { return static_cast<unsigned>(e.pos * 31 + e.seq + 1) * 2654435761u; }
    friend bool operator<(const E& a, const E& b) { return poison(a) < poison(b); }
    friend bool operator>(const E& a, const E& b) { return poison(a) > poison(b); }
    friend bool operator==(const E& a, const E& b) { return a.seq == b.seq && a.pos == b.pos; }
};

enum Cmp { LT, GT, HALF };
struct Comp {
    Cmp c;
    bool operator()(const E& a, const E& b) const {
        switch (c) {
        case LT: return a.key < b.key;
        case GT: return a.key > b.key;
        default: return (a.key >> 1) < (b.key >> 1);
        }
    }
};
static bool parse_cmp(const std::string& s, Cmp& c) {
    if (s == "lt") c = LT; else if (s == "gt") c = GT; else if (s == "half") c = HALF; else return false;
    return true;
}

static std::string show_elems(const std::vector<E>& v) {
    if (v.empty()) return "-";
    std::string s;
    for (size_t i = 0; i < v.size(); ++i) {
        if (i) s += ',';
        s += std::to_string(v[i].key) + ":" + std::to_string(v[i].seq) + ":" + std::to_string(v[i].pos);
    }
    return s;
}

static void do_es(const std::vector<std::string>& t) {
    if (t.size() != 3) { vh::answer("bad-op"); return; }
    long n = std::stol(t[1]); long p = std::stol(t[2]);
    if (n < 0 || p < 1 || p > 100000) { vh::answer("bad-op"); return; }
    std::vector<long> s(static_cast<size_t>(p) + 1, -777);
    auto e = tlx::multiway_merge_detail::equally_split(n, static_cast<size_t>(p), s.begin());
    vh::answer("es " + vh::show_csv(s));
    if (e != s.end()) vh::viol("equally_split returned iterator is not s+p+1 in " + t[0] + " " + t[1] + " " + t[2]);
    if (n >= 1) {
        // documented: first entry 0, last n, parts of almost equal size
        bool ok = s.front() == 0 && s.back() == n;
        for (size_t i = 0; i + 1 < s.size(); ++i) ok = ok && s[i] <= s[i + 1] && s[i] >= 0;
        if (!ok) vh::viol("equally_split result not a non-decreasing 0..n splitter sequence in es " + t[1] + " " + t[2]);
    }
}

static void do_pm(const std::vector<std::string>& t, const std::string& line) {
    if (t.size() < 11) { vh::answer("bad-op"); return; }
    const std::string& variant = t[1];
    Cmp c;
    if (!parse_cmp(t[2], c)) { vh::answer("bad-op"); return; }
    Comp comp{c};
    tlx::MultiwayMergeSplittingAlgorithm mwmsa;
    if (t[3] == "exact") mwmsa = tlx::MWMSA_EXACT; else if (t[3] == "sampling") mwmsa = tlx::MWMSA_SAMPLING; else { vh::answer("bad-op"); return; }
    long threads, osf, mink, minn, size;
    std::vector<std::vector<ll>> keys;
    try {
        threads = std::stol(t[4]); osf = std::stol(t[5]);
        mink = std::stol(t[8]); minn = std::stol(t[9]); size = std::stol(t[10]);
        for (size_t i = 11; i < t.size(); ++i) keys.push_back(vh::csv(t[i]));
    } catch (...) { vh::answer("bad-op"); return; }
    tlx::MultiwayMergeAlgorithm mwma;
    if (t[6] == "lt") mwma = tlx::MWMA_LOSER_TREE; else if (t[6] == "ltc") mwma = tlx::MWMA_LOSER_TREE_COMBINED;
    else if (t[6] == "lts") mwma = tlx::MWMA_LOSER_TREE_SENTINEL; else if (t[6] == "bubble") mwma = tlx::MWMA_BUBBLE;
    else { vh::answer("bad-op"); return; }
    bool fpar = t[7] == "par", fseq = t[7] == "seq";
    if (!fpar && !fseq && t[7] != "auto") { vh::answer("bad-op"); return; }
    bool stable = (variant == "s" || variant == "ss"), sent = (variant == "us" || variant == "ss");
    if (!stable && !sent && variant != "u") { vh::answer("bad-op"); return; }
    // documented preconditions
    long total = 0;
    for (auto& r : keys) total += (long)r.size();
    bool ok = threads >= 1 && threads <= 64 && osf >= 1 && osf <= 64 && mink >= 0 && minn >= 0 && size >= 0 && size <= total;
    size_t k = keys.size();
    std::vector<std::vector<E>> runs(k);
    for (size_t s = 0; s < k && ok; ++s) {
        for (size_t p = 0; p < keys[s].size(); ++p) runs[s].push_back(E(keys[s][p], (int)s, (int)p));
        for (size_t p = 1; p < runs[s].size(); ++p) if (comp(runs[s][p], runs[s][p - 1])) ok = false;
    }
    if (!ok) { vh::answer("bad-op"); return; }
    // sentinel behind every run (only the *_sentinels entry points may read it)
    ll sentinel_key = (c == GT) ? LLONG_MIN / 4 : LLONG_MAX / 4;
    std::vector<std::vector<E>> store(k);
    std::vector<std::pair<E*, E*>> seqs(k);
    for (size_t s = 0; s < k; ++s) {
        store[s] = runs[s];
        if (sent) store[s].push_back(E(sentinel_key, (int)s, -2));
        store[s].shrink_to_fit();
        seqs[s] = std::make_pair(store[s].data(), store[s].data() + runs[s].size());
    }
    std::vector<E> out(static_cast<size_t>(size));
    for (auto& e : out) { e.writes = 0; e.seq = -9; }
    for (auto& st : store) for (auto& e : st) e.writes = 0;

    tlx::parallel_multiway_merge_force_sequential = fseq;
    tlx::parallel_multiway_merge_force_parallel = fpar;
    tlx::parallel_multiway_merge_minimal_k = static_cast<size_t>(mink);
    tlx::parallel_multiway_merge_minimal_n = static_cast<size_t>(minn);
    tlx::parallel_multiway_merge_oversampling = static_cast<size_t>(osf);

    E* ret;
    E* target = out.data();
    size_t nt = static_cast<size_t>(threads);
    if (variant == "u")
        ret = tlx::parallel_multiway_merge(seqs.begin(), seqs.end(), target, size, comp, mwma, mwmsa, nt);
    else if (variant == "s")
        ret = tlx::stable_parallel_multiway_merge(seqs.begin(), seqs.end(), target, size, comp, mwma, mwmsa, nt);
    else if (variant == "us")
        ret = tlx::parallel_multiway_merge_sentinels(seqs.begin(), seqs.end(), target, size, comp, mwma, mwmsa, nt);
    else
        ret = tlx::stable_parallel_multiway_merge_sentinels(seqs.begin(), seqs.end(), target, size, comp, mwma, mwmsa, nt);

    // ---- observe
    std::vector<long> begins(k);
    for (size_t s = 0; s < k; ++s) begins[s] = seqs[s].first - store[s].data();
    std::vector<E> shown = out;
    if (!stable) {
        // canonicalise inside runs of equivalent keys
        size_t i = 0;
        while (i < shown.size()) {
            size_t j = i + 1;
            while (j < shown.size() && !comp(shown[i], shown[j]) && !comp(shown[j], shown[i])) ++j;
            std::sort(shown.begin() + i, shown.begin() + j, [](const E& a, const E& b) {
                return a.seq != b.seq ? a.seq < b.seq : a.pos < b.pos; });
            i = j;
        }
    }
    std::string win;
    {
        int me = t_serial.v;
        size_t i = 0;
        while (i < out.size()) {
            if (out[i].writes == 0) { ++i; continue; }
            size_t j = i + 1;
            while (j < out.size() && out[j].writes > 0 && out[j].writer == out[i].writer) ++j;
            if (!win.empty()) win += ',';
            win += (out[i].writer == me ? "m" : "") + std::to_string(i) + "+" + std::to_string(j - i);
            i = j;
        }
        if (win.empty()) win = "-";
    }
    // ---- direct oracle
    std::vector<std::string> bad;
    std::vector<E> all;
    for (size_t s = 0; s < k; ++s) for (auto& e : runs[s]) all.push_back(e);
    std::stable_sort(all.begin(), all.end(), comp);
    if (ret - target != size) bad.push_back("returned iterator is target+" + std::to_string(ret - target) + ", expected target+" + std::to_string(size));
    for (size_t i = 0; i < out.size(); ++i) {
        if (out[i].writes != 1) {
            bad.push_back("output position " + std::to_string(i) + " written " + std::to_string(out[i].writes) + " times");
            break;
        }
    }
    bool in_ok = true;
    for (size_t s = 0; s < k; ++s) {
        for (size_t p = 0; p < runs[s].size(); ++p)
            if (store[s][p].writes != 0 || store[s][p].key != runs[s][p].key || store[s][p].pos != (int)p) in_ok = false;
        if (sent && (store[s].back().writes != 0 || store[s].back().key != sentinel_key)) in_ok = false;
    }
    if (!in_ok) bad.push_back("an input sequence was modified");
    bool keys_ok = true, exact_ok = true;
    for (long i = 0; i < size; ++i) {
        if (comp(out[i], all[i]) || comp(all[i], out[i])) keys_ok = false;
        if (out[i].seq != all[i].seq || out[i].pos != all[i].pos) exact_ok = false;
    }
    if (!keys_ok) bad.push_back("output is not the sequence of the `size` smallest elements in merged order");
    else if (stable && !exact_ok) bad.push_back("output differs from the stable merge (order of equivalent elements)");
    std::vector<long> want(k, 0);
    for (long i = 0; i < size; ++i) want[all[i].seq]++;
    bool b_in = true; long bsum = 0;
    for (size_t s = 0; s < k; ++s) { if (begins[s] < 0 || begins[s] > (long)runs[s].size()) b_in = false; bsum += begins[s]; }
    if (!b_in) bad.push_back("an input begin was moved outside its sequence");
    else if (stable) {
        if (begins != want) bad.push_back("inputs not advanced past exactly the elements they contributed (stable merge counts)");
    }
    else {
        // the output must hold exactly the prefixes [0, begins_i)
        bool pref = (bsum == size);
        std::vector<std::vector<int>> seen(k);
        for (size_t s = 0; s < k; ++s) seen[s].assign(runs[s].size(), 0);
        for (long i = 0; i < size && pref; ++i) {
            int s = out[i].seq, p = out[i].pos;
            if (s < 0 || (size_t)s >= k || p < 0 || (size_t)p >= runs[s].size()) { pref = false; break; }
            seen[s][p]++;
        }
        for (size_t s = 0; s < k && pref; ++s)
            for (size_t p = 0; p < runs[s].size(); ++p)
                if (seen[s][p] != ((long)p < begins[s] ? 1 : 0)) pref = false;
        if (!pref) bad.push_back("inputs not advanced past exactly the elements they contributed");
    }
    // `spec`: verdict of the oracle; the driver prints whether the model's answer equals the specification
    vh::answer("out " + show_elems(shown) + " ret " + std::to_string(ret - target) + " begins " + vh::show_csv(begins) +
               " win " + win + " spec " + (bad.empty() ? "1" : "0"));
    for (auto& b : bad) vh::viol(b + " in " + line);
}

int main(int, char**) {
    std::string line;
    while (std::getline(std::cin, line)) {
        auto t = vh::tokens(line);
        if (t.empty()) { vh::answer(""); continue; }
        if (t[0][0] == '#') { vh::answer(line); continue; }
        if (t[0] == "case") { vh::answer("case"); continue; }
        if (t[0] == "pm") do_pm(t, line);
        else if (t[0] == "es") do_es(t);
        else vh::answer("bad-op");
    }
    return 0;
}
